#!/bin/bash
# mutants.sh [-t tier] <ID|all> [patch-name-substring]
# For every /verif/mutants/<ID>-*.patch (a deliberate property-breaking change):
#   1. apply it to a scratch copy of the library (never to /repo; go build -overlay)
#   2. the repository's own tests must still pass with it (else: not a useful demo)
#   3. the check must exit 1 with a VIOLATION line
# Prints one line per mutant; exit 1 if any mutant survives a check.
set -u
cd "$(dirname "$0")"
export GOFLAGS=-mod=mod GOPROXY=off GOSUMDB=off GOTOOLCHAIN=local GOCACHE=/verif/.cache/go
tier=quick
if [ "${1:-}" = "-t" ]; then tier=$2; shift 2; fi
sel=${1:-all}; sub=${2:-}
fail=0
for p in ${MUT_DIR:-mutants}/*.patch; do
  [ -e "$p" ] || continue
  n=$(basename "$p" .patch); id=${n%%-*}; pp=$(realpath "$p")
  [ "$sel" != all ] && [ "$sel" != "$id" ] && continue
  [ -n "$sub" ] && [[ "$n" != *"$sub"* ]] && continue
  d=$(mktemp -d /tmp/vmut.XXXXXX)
  mkdir -p "$d/src" "$d/root"
  cp -r /repo/pkg /repo/go.mod /repo/go.sum "$d/src/"
  if ! (cd "$d/src" && patch -s -p1 < "$pp"); then echo "$n: PATCH-DOES-NOT-APPLY"; fail=1; rm -rf "$d"; continue; fi
  # overlay: every patched file
  python3 - "$p" "$d" > "$d/overlay.json" <<'PY'
import sys, json, re
files = re.findall(r'^\+\+\+ b/(\S+)', open(sys.argv[1]).read(), re.M)
print(json.dumps({"Replace": {"/repo/" + f: sys.argv[2] + "/src/" + f for f in files}}))
PY
  if ! (cd /repo && go test -overlay "$d/overlay.json" -vet=off -count=1 ./... >"$d/test.log" 2>&1); then
    echo "$n: KILLED-BY-REPO-TESTS (not a useful demonstration)"; rm -rf "$d"; continue
  fi
  if ! go build -tags verif -overlay "$d/overlay.json" -o "$d/vcheck" ./cmd/vcheck 2>"$d/build.log"; then
    echo "$n: DOES-NOT-BUILD"; cat "$d/build.log" | head -5; fail=1; rm -rf "$d"; continue
  fi
  cp known_findings.json "$d/root/" 2>/dev/null
  if [ "$id" = C17 ]; then
    VERIF_OVERLAY="$d/overlay.json" VERIF_ROOT="$d/root" ./run.sh C17 "$tier" >"$d/out.log" 2>&1; rc=$?
  else
    VERIF_ROOT="$d/root" "$d/vcheck" run "$id" "$tier" >"$d/out.log" 2>&1; rc=$?
  fi
  if [ "$id" = C07 ] && [ $rc -eq 0 ]; then
    # as in run.sh: the C07 spaces once more on a build with inlining disabled
    go build -tags verif -gcflags=all=-l -overlay "$d/overlay.json" -o "$d/vcheck-noinline" ./cmd/vcheck 2>>"$d/build.log" &&
      { VERIF_ROOT="$d/root" "$d/vcheck-noinline" run C07 quick >"$d/out.log" 2>&1; rc=$?; }
  fi
  if [ $rc -eq 1 ] && grep -q "^VIOLATION property=$id " "$d/out.log"; then
    echo "$n: DETECTED ($(grep -c '^VIOLATION' "$d/out.log") violation classes; first: $(grep -m1 '  class=' "$d/out.log" | cut -c1-120))"
  else
    echo "$n: MISSED (exit $rc)"; tail -3 "$d/out.log"; fail=1
  fi
  rm -rf "$d"
done
exit $fail
