// Package vsched is injected into the library's module path by `go build -overlay`
// (it does not exist in /repo). The instrumenter (cmd/vinstr) inserts a call to
// Point() before every statement of the library; under an exploration exactly
// one harness thread runs at a time and Point() hands control to the explorer,
// which decides who runs next (stateless DFS with iterative preemption bounding).
package vsched

import (
	"fmt"
	"reflect"
	"sort"
)

var (
	active  bool
	cur     *thread
	yieldCh = make(chan struct{})
	globals = map[string]interface{}{}
	// StaticPoints is set by generated code: number of Point() call sites.
	StaticPoints int
)

type thread struct {
	id      int
	wake    chan struct{}
	done    bool
	blocked func() bool // non-nil while the thread waits in a SyncPoint; true = cannot run yet
	result string
	body   func() string
	pan    interface{}
	points int
}

var resets []func()

// RegisterReset is called from generated init functions with a function that re-runs the
// initialisers of a package's package-level variables (zero value where there is none).
func RegisterReset(f func()) { resets = append(resets, f) }

// ResetGlobals puts every package-level variable of the instrumented packages back to its initial
// value, so that every execution of an exploration starts from the same (cold) state.
func ResetGlobals() {
	for _, f := range resets {
		f()
	}
}

type wouldBlock struct{}

func (wouldBlock) Error() string {
	return "vsched: lock operation would block outside an exploration (a parked thread holds the lock)"
}

var errWouldBlock = wouldBlock{}

// hookSaved holds, during an observation hook, how to restore every lock the hook touched: a hook that
// runs into a lock held by a parked thread is abandoned and must leave no lock taken behind.
var hookSaved map[interface{}]func()

// NoteInactiveTouch is called by the sync shim before it changes a lock outside an exploration.
func NoteInactiveTouch(key interface{}, restore func()) {
	if hookSaved != nil {
		if _, ok := hookSaved[key]; !ok {
			hookSaved[key] = restore
		}
	}
}

// runHook calls an observation hook; ok=false if it could not complete because a parked thread holds a lock.
func runHook(hook func(step int, running int) string, step, running int) (res string, ok bool) {
	hookSaved = map[interface{}]func(){}
	defer func() {
		saved := hookSaved
		hookSaved = nil
		if r := recover(); r != nil {
			if _, is := r.(wouldBlock); !is {
				panic(r)
			}
			for _, f := range saved {
				f()
			}
			res, ok = "", false
		}
	}()
	return hook(step, running), true
}

// Active reports whether an exploration is running (the sync shim blocks only then).
func Active() bool { return active }

// SyncPoint is a scheduling point that always returns control to the explorer (no fast path): the
// sync shim calls it before every lock operation. While blocked() is true the thread is not enabled.
func SyncPoint(blocked func() bool) {
	if !active {
		if blocked != nil && blocked() {
			// an observation hook runs while the threads are parked; one of them holds this lock
			panic(errWouldBlock)
		}
		return
	}
	t := cur
	for {
		t.blocked = blocked
		yieldCh <- struct{}{} // back to the explorer
		<-t.wake              // until resumed
		t.blocked = nil
		if blocked == nil || !blocked() {
			return
		}
	}
}

// RegisterGlobals is called from generated init functions with the addresses of package-level variables.
func RegisterGlobals(pkg string, m map[string]interface{}) {
	for k, v := range m {
		globals[pkg+"."+k] = v
	}
}

// GlobalsDigest renders the current values of all registered package-level variables.
func GlobalsDigest() string {
	var ks []string
	for k := range globals {
		ks = append(ks, k)
	}
	sort.Strings(ks)
	s := ""
	for _, k := range ks {
		s += fmt.Sprintf("%s=%#v;", k, reflect.ValueOf(globals[k]).Elem().Interface())
	}
	return s
}

// GlobalNames lists the registered package-level variables.
func GlobalNames() []string {
	var ks []string
	for k := range globals {
		ks = append(ks, k)
	}
	sort.Strings(ks)
	return ks
}

// SortedStringKeys returns the keys of a map with string keys in sorted order
// (the instrumenter rewrites `range m` over such maps to iterate in this order).
func SortedStringKeys(m interface{}) []string {
	v := reflect.ValueOf(m)
	ks := make([]string, 0, v.Len())
	for _, k := range v.MapKeys() {
		ks = append(ks, k.String())
	}
	sort.Strings(ks)
	return ks
}

// Point is a scheduling point. Decisions are numbered globally; a decision that the
// schedule resolves as "keep running the same thread" is taken right here without a
// hand-off (fast path), every other one yields to the explorer.
func Point() {
	if !active {
		return
	}
	if stepCounter != nextStop {
		stepCounter++
		return
	}
	t := cur
	yieldCh <- struct{}{} // back to the explorer
	<-t.wake              // until resumed
}

var stepCounter, nextStop int

// Switch is one non-default decision of a schedule: at decision At take alternative Choice (> 0).
type Switch struct {
	At         int
	Choice     int
	Preemption bool // the running thread was still enabled (filled in by the execution)
}

// Segment is a maximal run of decisions with the same running thread and the same set of live threads.
type Segment struct {
	From, To int // decisions [From, To)
	Running  int // -1 before the first thread starts / after the running thread finished
	Alive    []int
}

// Execution is one complete run under a schedule.
type Execution struct {
	Decisions   int
	Segments    []Segment
	Switches    []Switch
	Results     []string
	Panics      []interface{}
	HookFailure string
}

// enabledAt returns the canonical enabled list at decision i: the running thread first (if it is still enabled), then ascending ids.
func (x *Execution) enabledAt(i int) (en []int, runningStillEnabled bool) {
	for _, sg := range x.Segments {
		if i >= sg.From && i < sg.To {
			if sg.Running >= 0 {
				en = append(en, sg.Running)
				runningStillEnabled = true
			}
			for _, a := range sg.Alive {
				if a != sg.Running {
					en = append(en, a)
				}
			}
			return en, runningStillEnabled
		}
	}
	return nil, false
}

// Run executes the thread bodies under a schedule: decisions listed in switches take the given
// alternative, all others take the default (keep running the current thread, else the lowest id).
// hook, if non-nil, is called by the explorer at EVERY decision (all threads parked).
func Run(bodies []func() string, switches []Switch, hook func(step int, running int) string) (x *Execution, err error) {
	ts := make([]*thread, len(bodies))
	for i, b := range bodies {
		ts[i] = &thread{id: i, wake: make(chan struct{}), body: b}
	}
	x = &Execution{}
	active = true
	defer func() { active = false }()
	for _, t := range ts {
		t := t
		go func() {
			<-t.wake
			defer func() {
				if r := recover(); r != nil {
					t.pan = r
				}
				t.done = true
				yieldCh <- struct{}{}
			}()
			t.result = t.body()
		}()
	}
	running := -1
	step := 0
	si := 0 // next switch
	for {
		var en, alive, able []int
		canRun := func(t *thread) bool { return !t.done && (t.blocked == nil || !t.blocked()) }
		stillEnabled := running >= 0 && canRun(ts[running])
		if stillEnabled {
			en = append(en, running)
		}
		for _, t := range ts {
			if !t.done {
				alive = append(alive, t.id)
			}
			if canRun(t) {
				able = append(able, t.id)
				if !(stillEnabled && t.id == running) {
					en = append(en, t.id)
				}
			}
		}
		if len(alive) == 0 {
			break
		}
		if len(en) == 0 {
			// every live thread waits for a lock another one holds; the parked goroutines are abandoned
			x.HookFailure = fmt.Sprintf("deadlock at decision %d: threads %v are all blocked", step, alive)
			x.Decisions = step
			for _, t := range ts {
				x.Results = append(x.Results, t.result)
				x.Panics = append(x.Panics, t.pan)
			}
			return x, nil
		}
		alive = able // segments record who can be switched to
		choice := 0
		if si < len(switches) && switches[si].At == step {
			choice = switches[si].Choice
			if choice >= len(en) {
				return x, fmt.Errorf("replay divergence at decision %d: choice %d of %d enabled", step, choice, len(en))
			}
			x.Switches = append(x.Switches, Switch{At: step, Choice: choice, Preemption: stillEnabled})
			si++
		} else if si < len(switches) && switches[si].At < step {
			return x, fmt.Errorf("replay divergence: switch at decision %d was never reached (now at %d)", switches[si].At, step)
		}
		if hook != nil && x.HookFailure == "" {
			active = false // the hook may call into the instrumented library from the explorer goroutine
			f, _ := runHook(hook, step, running)
			active = true
			if f != "" {
				x.HookFailure = fmt.Sprintf("decision %d (after thread %d ran): %s", step, running, f)
			}
		}
		from := step
		prevRunning := running
		if !stillEnabled {
			prevRunning = -1
		}
		running = en[choice]
		// the chosen thread may run on its own until the next listed switch (or one decision when a hook wants every point)
		nextStop = int(^uint(0) >> 1)
		if hook != nil {
			nextStop = step + 1
		} else if si < len(switches) {
			nextStop = switches[si].At
		}
		stepCounter = step + 1
		cur = ts[running]
		cur.wake <- struct{}{}
		<-yieldCh
		// decision `from` was taken by the explorer with prevRunning; decisions (from, stepCounter) were taken by default inside the thread
		x.Segments = append(x.Segments, Segment{From: from, To: from + 1, Running: prevRunning, Alive: alive})
		if stepCounter > from+1 {
			x.Segments = append(x.Segments, Segment{From: from + 1, To: stepCounter, Running: running, Alive: alive})
		}
		step = stepCounter
	}
	x.Decisions = step
	if si < len(switches) {
		return x, fmt.Errorf("replay divergence: %d switches were not reached (execution had %d decisions)", len(switches)-si, step)
	}
	for _, t := range ts {
		x.Results = append(x.Results, t.result)
		x.Panics = append(x.Panics, t.pan)
	}
	return x, nil
}

// Explorer is the stateless DFS with a preemption bound.
type Explorer struct {
	Bodies    func() []func() string // fresh bodies (closures over fresh shared objects) per execution
	Bound     int
	Check     func(x *Execution) string // "" = ok
	Budget    int                       // max executions (0 = unlimited)
	Schedules int
	Steps     int
	Outcomes  map[string]int
	Failure   string
	FailSched []Switch
	CapHit    bool
}

// Explore runs the DFS from the empty schedule.
func (e *Explorer) Explore() error {
	e.Outcomes = map[string]int{}
	return e.explore(nil, 0)
}

// explore runs the schedule `switches` (decisions below fixed are decided) and branches on every later decision.
func (e *Explorer) explore(switches []Switch, fixed int) error {
	if e.Failure != "" || e.CapHit {
		return nil
	}
	if e.Budget > 0 && e.Schedules >= e.Budget {
		e.CapHit = true
		return nil
	}
	x, err := Run(e.Bodies(), switches, nil)
	if err != nil {
		return err
	}
	e.Schedules++
	e.Steps += x.Decisions
	e.Outcomes[fmt.Sprint(x.Results)]++
	f := x.HookFailure
	if f == "" {
		f = e.Check(x)
	}
	if f != "" {
		e.Failure = f
		e.FailSched = append([]Switch{}, x.Switches...)
		return nil
	}
	pre := 0
	for _, sw := range x.Switches {
		if sw.Preemption {
			pre++
		}
	}
	for _, sg := range x.Segments {
		for i := sg.From; i < sg.To; i++ {
			if i < fixed {
				continue
			}
			en, still := x.enabledAt(i)
			cost := pre
			if still {
				cost++
			}
			if cost > e.Bound || len(en) < 2 {
				continue
			}
			for alt := 1; alt < len(en); alt++ {
				ns := append(append([]Switch{}, x.Switches...), Switch{At: i, Choice: alt})
				if err := e.explore(ns, i+1); err != nil {
					return err
				}
			}
		}
	}
	return nil
}
