package vsched

func init() { StaticPoints = 1632 }
