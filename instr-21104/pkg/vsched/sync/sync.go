// Package sync is the scheduler-aware stand-in for the standard sync package: the instrumenter
// rewrites `import "sync"` in the library to this package (injected by `go build -overlay`, it does not
// exist in /repo). Under an exploration exactly one thread runs at a time, so a real mutex held by a
// parked thread would block the running one for ever; here a lock operation is a scheduling point at
// which the thread is simply not enabled while the lock is taken.
package sync

import (
	realsync "sync"

	"github.com/wolimst/lib-secs2-hsms-go/pkg/vsched"
)

// types without blocking behaviour are the real ones
type (
	Pool      = realsync.Pool
	Map       = realsync.Map
	WaitGroup = realsync.WaitGroup
	Locker    = realsync.Locker
)

// Mutex mirrors sync.Mutex.
type Mutex struct{ locked bool }

func (m *Mutex) Lock() {
	noteMutex(m)
	vsched.SyncPoint(func() bool { return m.locked })
	m.locked = true
	vsched.SyncPoint(nil) // who can run has changed: let the explorer see it before anything else happens
}

func (m *Mutex) TryLock() bool {
	noteMutex(m)
	vsched.SyncPoint(nil)
	if m.locked {
		return false
	}
	m.locked = true
	vsched.SyncPoint(nil)
	return true
}

func (m *Mutex) Unlock() {
	noteMutex(m)
	if !m.locked {
		panic("sync: unlock of unlocked mutex")
	}
	m.locked = false
	vsched.SyncPoint(nil)
}

// RWMutex mirrors sync.RWMutex (no writer preference: every interleaving the real one allows is allowed).
type RWMutex struct {
	writer  bool
	readers int
}

func (m *RWMutex) Lock() {
	noteRW(m)
	vsched.SyncPoint(func() bool { return m.writer || m.readers > 0 })
	m.writer = true
	vsched.SyncPoint(nil)
}

func (m *RWMutex) Unlock() {
	noteRW(m)
	if !m.writer {
		panic("sync: Unlock of unlocked RWMutex")
	}
	m.writer = false
	vsched.SyncPoint(nil)
}

func (m *RWMutex) RLock() {
	noteRW(m)
	vsched.SyncPoint(func() bool { return m.writer })
	m.readers++
	vsched.SyncPoint(nil)
}

func (m *RWMutex) RUnlock() {
	noteRW(m)
	if m.readers <= 0 {
		panic("sync: RUnlock of unlocked RWMutex")
	}
	m.readers--
	vsched.SyncPoint(nil)
}

func (m *RWMutex) TryLock() bool {
	noteRW(m)
	vsched.SyncPoint(nil)
	if m.writer || m.readers > 0 {
		return false
	}
	m.writer = true
	vsched.SyncPoint(nil)
	return true
}

func (m *RWMutex) TryRLock() bool {
	noteRW(m)
	vsched.SyncPoint(nil)
	if m.writer {
		return false
	}
	m.readers++
	vsched.SyncPoint(nil)
	return true
}

func (m *RWMutex) RLocker() Locker { return rlocker{m} }

type rlocker struct{ m *RWMutex }

func (r rlocker) Lock()   { r.m.RLock() }
func (r rlocker) Unlock() { r.m.RUnlock() }

// Once mirrors sync.Once: callers arriving while f runs wait for it.
type Once struct {
	done    bool
	running bool
}

func (o *Once) Do(f func()) {
	if !vsched.Active() {
		old := *o
		vsched.NoteInactiveTouch(o, func() { *o = old })
	}
	vsched.SyncPoint(func() bool { return o.running })
	if o.done {
		return
	}
	o.running = true
	vsched.SyncPoint(nil)
	defer func() {
		o.done, o.running = true, false
		vsched.SyncPoint(nil)
	}()
	f()
}

// OnceFunc mirrors sync.OnceFunc.
func OnceFunc(f func()) func() {
	var o Once
	return func() { o.Do(f) }
}

// Cond is the real one over a Locker of this package.
type Cond = realsync.Cond

func NewCond(l Locker) *Cond { return realsync.NewCond(l) }

func noteMutex(m *Mutex) {
	if !vsched.Active() {
		old := *m
		vsched.NoteInactiveTouch(m, func() { *m = old })
	}
}

func noteRW(m *RWMutex) {
	if !vsched.Active() {
		old := *m
		vsched.NoteInactiveTouch(m, func() { *m = old })
	}
}
