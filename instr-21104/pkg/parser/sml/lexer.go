package sml

import "github.com/wolimst/lib-secs2-hsms-go/pkg/vsched"

import (
	"fmt"
	"regexp"
	"strings"
	"unicode"
	"unicode/utf8"
)

// The design of this lexer is based on "Lexical Scanning in Go" by Rob Pike
// https://talks.golang.org/2011/lex.slide

// token represents a tokenized text string that a lexer identified.
type token struct {
	typ  tokenType // token type
	val  string    // tokenized text
	line int       // tokenized text's line number
	col  int       // tokenized text's column number
}

type tokenType int

const (
	tokenTypeEOF        tokenType = iota // EOF
	tokenTypeError                       // lexing error
	tokenTypeComment                     // starting with '//', ending with newline or EOF
	tokenTypeMessageEnd                  // '.'

	// Message header
	tokenTypeStreamFunction // 'S' [0-9]+ 'F' [0-9]+, case insensitive
	tokenTypeWaitBit        // 'W', '[W]', case insensitive
	tokenTypeDirection      // 'H->E', 'H<-E', 'H<->E', case insensitive
	tokenTypeMessageName    // Series of characters except whitespaces and comment delimiter

	// Message text
	tokenTypeLeftAngleBracket  // '<'
	tokenTypeRightAngleBracket // '>'
	tokenTypeDataItemType      // 'L', 'B', 'BOOLEAN', 'A', 'F4', 'F8', 'I1', 'I2', 'I4', 'I8', 'U1', 'U2', 'U4', 'U8', case insensitive
	tokenTypeDataItemSize      // '[' [0-9]+ ('..' [0-9]+)? ']'
	tokenTypeNumber            // decimal, hexadecimal, octal, binary, floating-point number including scientific notation, case insensitive
	tokenTypeBool              // 'T', 'F', case insensitive
	tokenTypeVariable          // [A-Za-z_] [A-Za-z0-9_]* ('[' [0-9]+ ']')?
	tokenTypeQuotedString      // string enclosed with double quotes, e.g. "quoted string"
	tokenTypeEllipsis          // '...'
)

// lexer represents the state of the lexical scanner.
type lexer struct {
	input     string     // input string being lexed
	lastState stateFn    // last lexing state function
	state     stateFn    // next lexing state function to enter
	pos       int        // current position in the input
	start     int        // start position of a token being lexed in input string
	width     int        // width of last rune read from input
	tokens    chan token // the channel to report scanned tokens
}

const eof rune = -1

// lex creates a new scanner for the input string.
func lex(input string) *lexer {
	vsched.Point()
	l := &lexer{
		input:  input,
		state:  lexMessageHeader,
		tokens: make(chan token, 2),
	}
	vsched.Point()
	return l
}

// next returns the next rune in the input.
func (l *lexer) next() (r rune) {
	vsched.Point()
	if l.pos >= len(l.input) {
		vsched.Point()
		l.width = 0
		vsched.Point()
		return eof
	}
	vsched.Point()
	r, l.width = utf8.DecodeRuneInString(l.input[l.pos:])
	vsched.Point()
	l.pos += l.width
	vsched.Point()
	return r
}

// ignore skips over the pending input before this point.
func (l *lexer) ignore() {
	vsched.Point()
	l.start = l.pos
}

// backup steps back one rune. Can be called only once per call of next.
func (l *lexer) backup() {
	vsched.Point()
	l.pos -= l.width
}

// peek returns but does not consume the next rune in the input.
func (l *lexer) peek() rune {
	vsched.Point()
	r := l.next()
	vsched.Point()
	l.backup()
	vsched.Point()
	return r
}

// emit passes a token to the client.
func (l *lexer) emit(t tokenType) {
	vsched.Point()
	line, col := l.lineColumn()
	vsched.Point()
	l.tokens <- token{typ: t, val: l.input[l.start:l.pos], line: line, col: col}
	vsched.Point()
	l.start = l.pos
}

// emitUppercase passes a token with a uppercase token value to the client.
func (l *lexer) emitUppercase(t tokenType) {
	vsched.Point()
	line, col := l.lineColumn()
	vsched.Point()
	l.tokens <- token{typ: t, val: strings.ToUpper(l.input[l.start:l.pos]), line: line, col: col}
	vsched.Point()
	l.start = l.pos
}

// emitSpaceRemoved passes a token to the client, with all spaces in token value removed.
func (l *lexer) emitSpaceRemoved(t tokenType) {
	vsched.Point()
	line, col := l.lineColumn()
	vsched.Point()
	val := make([]rune, 0, l.pos-l.start)
	vsched.Point()
	inComment := false
	vsched.Point()
	for i, r := range l.input[l.start:l.pos] {
		vsched.Point()
		if strings.HasPrefix(l.input[l.start+i:l.pos], "//") {
			vsched.Point()
			inComment = true // a line comment inside the token ends with its line
		} else if r == '\n' {
			vsched.Point()
			inComment = false
		}
		vsched.Point()
		if !unicode.IsSpace(r) && !inComment {
			vsched.Point()
			val = append(val, r)
		}
	}
	vsched.Point()
	l.tokens <- token{typ: t, val: string(val), line: line, col: col}
	vsched.Point()
	l.start = l.pos
}

// emitEOF passes a EOF token to the client.
func (l *lexer) emitEOF() {
	vsched.Point()
	line, col := l.lineColumn()
	vsched.Point()
	l.tokens <- token{typ: tokenTypeEOF, val: "EOF", line: line, col: col}
	vsched.Point()
	l.start = l.pos
}

// accept consumes the next rune if it's from the valid set.
func (l *lexer) accept(valid string) bool {
	vsched.Point()
	if strings.ContainsRune(valid, l.next()) {
		vsched.Point()
		return true
	}
	vsched.Point()
	l.backup()
	vsched.Point()
	return false
}

// acceptRun consumes a run of runes from the valid set.
func (l *lexer) acceptRun(valid string) {
	vsched.Point()
	for strings.ContainsRune(valid, l.next()) {
	}
	vsched.Point()
	l.backup()
}

// lineColumn returns line and column number of current start position.
func (l *lexer) lineColumn() (line, column int) {
	vsched.
		// Doing it this way means we don't have to worry about peek double counting
		Point()

	line = 1 + strings.Count(l.input[:l.start], "\n")
	vsched.Point()
	lineStart := 1 + strings.LastIndex(l.input[:l.start], "\n")
	vsched.Point()
	column = 1 + utf8.RuneCountInString(l.input[lineStart:l.start])
	vsched.Point()
	return line, column
}

// errorf returns an error token and terminates the running lexer.
func (l *lexer) errorf(format string, args ...interface{}) stateFn {
	vsched.Point()
	line, col := l.lineColumn()
	vsched.Point()
	l.tokens <- token{tokenTypeError, fmt.Sprintf(format, args...), line, col}
	vsched.Point()
	return l.terminate()
}

// nextToken returns the next token from the input.
// If lexer.tokens channel is closed, it will return EOF token.
func (l *lexer) nextToken() token {
	vsched.Point()
	for {
		vsched.Point()
		select {
		case tok, ok := <-l.tokens:
			vsched.Point()
			if !ok {
				vsched.Point()
				return token{typ: tokenTypeEOF}
			}
			vsched.Point()
			return tok
		default:
			vsched.Point()
			l.lastState, l.state = l.state, l.state(l)
		}
	}
	// should not reach here
}

// stateFn represents the state of the lexer as a function that returns the next state
type stateFn func(*lexer) stateFn

// terminate closes the l.tokens channel and terminates the scan by
// passing back a nil pointer as the next state function.
func (l *lexer) terminate() stateFn {
	vsched.Point()
	close(l.tokens)
	vsched.Point()
	return nil
}

// lexMessageHeader scans the elements that can appear in the message header.
func lexMessageHeader(l *lexer) stateFn {
	vsched.Point(

	// Handle a line comment
	)
	for {
		vsched.Point()

		if strings.HasPrefix(l.input[l.pos:], "//") {
			vsched.Point()
			return lexComment
		}
		vsched.

			// Handle stream function code
			Point()

		re := regexp.MustCompile(`^[Ss]\d+[Ff]\d+`)
		vsched.Point()
		if loc := re.FindStringIndex(l.input[l.pos:]); loc != nil {
			vsched.Point()
			l.pos += loc[1]
			vsched.Point()
			l.emitUppercase(tokenTypeStreamFunction)
			vsched.Point()
			return lexMessageHeader
		}
		vsched.

			// Handle wait bit
			Point()

		re = regexp.MustCompile(`^([Ww]|\[[Ww]\])`)
		vsched.Point()
		if loc := re.FindStringIndex(l.input[l.pos:]); loc != nil {
			vsched.Point()
			l.pos += loc[1]
			vsched.Point()
			l.emitUppercase(tokenTypeWaitBit)
			vsched.Point()
			return lexMessageHeader
		}
		vsched.

			// Handle message direction
			Point()

		re = regexp.MustCompile(`^[Hh](->|<->|<-)[Ee]`)
		vsched.Point()
		if loc := re.FindStringIndex(l.input[l.pos:]); loc != nil {
			vsched.Point()
			l.pos += loc[1]
			vsched.Point()
			l.emitUppercase(tokenTypeDirection)
			vsched.Point()
			return lexMessageHeader
		}
		vsched.Point()

		switch r := l.next(); r {
		case eof:
			vsched.Point()
			return lexEOF
		case ' ', '\t', '\r', '\n':
			vsched.Point()
			l.ignore()
		case '.':
			vsched.Point()
			l.emit(tokenTypeMessageEnd)
			vsched.Point()
			return lexMessageHeader
		case '<':
			vsched.Point()
			l.emit(tokenTypeLeftAngleBracket)
			vsched.Point()
			return lexMessageText
		default:
			vsched.Point()
			if unicode.IsSpace(r) {
				vsched.
					// any other Unicode whitespace separates header elements as well;
					// it must not become (part of) a message name
					Point()

				l.ignore()
				vsched.Point()
				continue
			}
			vsched.Point()
			for {
				vsched.Point()
				r := l.next()
				vsched.Point()
				if r == eof || unicode.IsSpace(r) || strings.HasPrefix(l.input[l.pos-1:], "//") {
					vsched.Point()
					l.backup()
					vsched.Point()
					break
				}
			}
			vsched.Point()
			l.emit(tokenTypeMessageName)
			vsched.Point()
			return lexMessageHeader
		}
	}
	// should not reach here
}

// lexMessageText scans the elements inside the message text.
func lexMessageText(l *lexer) stateFn {
	vsched.Point(

	// Handle a line comment
	)
	for {
		vsched.Point()

		if strings.HasPrefix(l.input[l.pos:], "//") {
			vsched.Point()
			return lexComment
		}
		vsched.Point()

		re := regexp.MustCompile(`^\.\.\.(\[\d+\])?`)
		vsched.Point()
		if loc := re.FindStringIndex(l.input[l.pos:]); loc != nil {
			vsched.Point()
			l.pos += loc[1]
			vsched.Point()
			l.emit(tokenTypeEllipsis)
			vsched.Point()
			return lexMessageText
		}
		vsched.

			// Handle data types or variables
			Point()

		re = regexp.MustCompile(`^[A-Za-z_]\w*`)
		vsched.Point()
		if loc := re.FindStringIndex(l.input[l.pos:]); loc != nil {
			vsched.Point()
			switch strings.ToUpper(l.input[l.pos : l.pos+loc[1]]) {
			case "L", "A", "B", "BOOLEAN", "F4", "F8",
				"I1", "I2", "I4", "I8", "U1", "U2", "U4", "U8":
				vsched.Point()
				l.pos += loc[1]
				vsched.Point()
				l.emitUppercase(tokenTypeDataItemType)
				vsched.Point()
				return lexMessageText
			case "T", "F":
				vsched.Point()
				l.pos += loc[1]
				vsched.Point()
				l.emitUppercase(tokenTypeBool)
				vsched.Point()
				return lexMessageText
			default:
				vsched.Point()
				l.pos += loc[1]
				vsched.
					// Handle optional array-like notation
					Point()

				re = regexp.MustCompile(`^(\[\d+\])+`)
				vsched.Point()
				if loc = re.FindStringIndex(l.input[l.pos:]); loc != nil {
					vsched.Point()
					l.pos += loc[1]
				}
				vsched.Point()
				l.emit(tokenTypeVariable)
				vsched.Point()
				return lexMessageText
			}
		}
		vsched.Point()

		r := l.next()
		vsched.
			// Handle number
			Point()

		if r == '+' || r == '-' || isDigit(r) || (r == '.' && isDigit(l.peek())) {
			vsched.Point()
			l.backup()
			vsched.Point()
			return lexNumber
		}
		vsched.Point()

		switch r {
		case eof:
			vsched.Point()
			return lexEOF
		case '<':
			vsched.Point()
			l.emit(tokenTypeLeftAngleBracket)
			vsched.Point()
			return lexMessageText
		case '>':
			vsched.Point()
			l.emit(tokenTypeRightAngleBracket)
			vsched.Point()
			return lexMessageText
		case '.':
			vsched.Point()
			l.emit(tokenTypeMessageEnd)
			vsched.Point()
			return lexMessageHeader
		case '[':
			vsched.Point()
			l.backup()
			vsched.Point()
			return lexDataItemSize
		case '"':
			vsched.Point()
			l.backup()
			vsched.Point()
			return lexQuotedString
		case ' ', '\t', '\r', '\n':
			vsched.Point()
			l.ignore()
		default:
			vsched.Point()
			return l.errorf("unexpected character in data item: %#U", r)
		}
	}
	// should not reach here
}

// lexEOF scans a EOF which is known to be present, and terminates the running lexer.
func lexEOF(l *lexer) stateFn {
	vsched.Point()
	l.emitEOF()
	vsched.Point()
	return l.terminate()
}

// lexComment scans a line comment.
// The line comment delimiter "//" is known to be present.
// Returns the previous state function which called lexComment.
func lexComment(l *lexer) stateFn {
	vsched.Point()
	i := strings.Index(l.input[l.pos:], "\n")
	vsched.Point()
	if i < 0 {
		vsched.Point()
		l.pos = len(l.input)
		vsched.Point()
		l.emit(tokenTypeComment)
		vsched.Point()
		return lexEOF
	}
	vsched.

		// trim trailing blanks byte-wise: a byte of a multi-byte character (e.g. 0x85, 0xA0) is not a space
		Point()

	for strings.IndexByte(" \t\r", l.input[l.pos+i-1]) >= 0 {
		vsched.Point()
		i -= 1
	}
	vsched.Point()
	l.pos += i
	vsched.Point()
	l.emit(tokenTypeComment)
	vsched.Point()
	return l.lastState
}

// skipSizeBlanks skips what may separate the parts of a data item's size: blanks,
// line breaks, and - because a line may end there - a line comment before a line break.
func (l *lexer) skipSizeBlanks() {
	vsched.Point()
	for {
		vsched.Point()
		l.acceptRun(" \t\r\n")
		vsched.Point()
		if !strings.HasPrefix(l.input[l.pos:], "//") {
			vsched.Point()
			return
		}
		vsched.Point()
		i := strings.Index(l.input[l.pos:], "\n")
		vsched.Point()
		if i < 0 {
			vsched.Point()
			l.pos = len(l.input)
			vsched.Point()
			return
		}
		vsched.Point()
		l.pos += i
	}
}

// lexDataItemSize scans a data item's size, e.g. [2] or [2..7].
// The left square bracket is known to be present.
func lexDataItemSize(l *lexer) stateFn {
	vsched.Point()
	numberFound := false
	vsched.Point()
	l.accept("[")
	vsched.Point()
	l.skipSizeBlanks()
	vsched.Point()
	if l.accept("0123456789") {
		vsched.Point()
		numberFound = true
		vsched.Point()
		l.acceptRun("0123456789")
		vsched.Point()
		l.skipSizeBlanks()
	}
	vsched.Point()
	if strings.HasPrefix(l.input[l.pos:], "..") {
		vsched.Point()
		l.pos += 2
		vsched.Point()
		l.skipSizeBlanks()
		vsched.Point()
		if l.accept("0123456789") {
			vsched.Point()
			numberFound = true
			vsched.Point()
			l.acceptRun("0123456789")
			vsched.Point()
			l.skipSizeBlanks()
		}
	}
	vsched.Point()
	if !(l.accept("]") && numberFound) {
		vsched.Point()
		return l.errorf("invalid data item size")
	}
	vsched.Point()
	l.emitSpaceRemoved(tokenTypeDataItemSize)
	vsched.Point()
	return lexMessageText
}

// lexQuotedString scans a string inside double quotes.
// The left double quote is known to be present.
func lexQuotedString(l *lexer) stateFn {
	vsched.Point()
	l.accept(`"`)
	vsched.Point()
	i := strings.Index(l.input[l.pos:], `"`)
	vsched.Point()
	j := strings.IndexAny(l.input[l.pos:], "\r\n")
	vsched.Point()
	if i < 0 || (j >= 0 && j < i) {
		vsched.Point()
		return l.errorf("unclosed quoted string")
	}
	vsched.Point()
	l.pos += i + 1
	vsched. // Include the double quote
		Point()
	l.emit(tokenTypeQuotedString)
	vsched.Point()
	return lexMessageText
}

// lexNumber scans a number, which is known to be present.
func lexNumber(l *lexer) stateFn {
	vsched.
		// Optional number sign
		Point()

	l.accept("+-")
	vsched.

		// Handle decimal, hexadecimal, binary number
		Point()

	digits := "0123456789"
	vsched. // default is decimal
		Point()
	if l.accept("0") {
		vsched.Point()
		if l.accept("xX") {
			vsched.Point()
			digits = "0123456789abcdefABCDEF"
		} else if l.accept("bB") {
			vsched.Point()
			digits = "01"
		} else if l.accept("oO") {
			vsched.Point()
			digits = "01234567"
		}
	}
	vsched.Point()
	l.acceptRun(digits)
	vsched.

		// Handle floating-point number
		Point()

	if l.accept(".") {
		vsched.Point()
		l.acceptRun(digits)
	}
	vsched.

		// Handle scientific notation
		Point()

	if l.accept("eE") {
		vsched.Point()
		l.accept("+-")
		vsched.Point()
		l.acceptRun("0123456789")
	}
	vsched.

		// Next thing must not be alphanumeric
		Point()

	if isAlphaNumeric(l.peek()) {
		vsched.Point()
		l.next()
		vsched.Point()
		return l.errorf("invalid number syntax: %q", l.input[l.start:l.pos])
	}
	vsched.
		// Nor a point or a sign: "1.2.3" and "1-2" are not two numbers
		Point()

	if r := l.peek(); r == '.' || r == '+' || r == '-' {
		vsched.Point()
		l.next()
		vsched.Point()
		return l.errorf("invalid number syntax: %q", l.input[l.start:l.pos])
	}
	vsched.Point()

	l.emit(tokenTypeNumber)
	vsched.Point()
	return lexMessageText
}

// Helper functions

// isAlphaNumeric reports whether r is an alphabetic, digit, or underscore.
func isAlphaNumeric(r rune) bool {
	vsched.Point()
	return r == '_' || unicode.IsLetter(r) || unicode.IsDigit(r)
}

// isDigit reports whether r is a digit.
func isDigit(r rune) bool {
	vsched.Point()
	return ('0' <= r && r <= '9')
}
