package sml

import "github.com/wolimst/lib-secs2-hsms-go/pkg/vsched"

func init() {
	vsched.RegisterGlobals("pkg/parser/sml", map[string]interface{}{
	})
}
