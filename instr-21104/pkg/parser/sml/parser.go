package sml

import "github.com/wolimst/lib-secs2-hsms-go/pkg/vsched"

import (
	"fmt"
	"strconv"
	"strings"
	"unicode"

	"github.com/wolimst/lib-secs2-hsms-go/pkg/ast"
)

// Parse parses the input string, and return parsed message nodes and parsing errors/warnings.
//
// input should have UTF-8 encoding.
//
// No messages is returned if error exist in the input.
// errors and warnings have format of "Ln x, Col y: error text".
func Parse(input string) (messages []*ast.DataMessage, errors, warnings []string) {
	vsched.Point()
	p := &parser{
		input:      input,
		lexer:      lex(input),
		tokenQueue: []token{},
		messages:   []*ast.DataMessage{},
		errors:     []parseError{},
		warnings:   []parseError{},
	}
	vsched.Point()

	for p.peek().typ != tokenTypeEOF {
		vsched.Point()
		if ok := p.parseMessage(); !ok {
			vsched.Point()
			break
		}
	}
	vsched.Point()

	errors = make([]string, 0, len(p.errors))
	vsched.Point()
	warnings = make([]string, 0, len(p.warnings))
	vsched.Point()
	for _, err := range p.errors {
		vsched.Point()
		errors = append(errors, err.string())
	}
	vsched.Point()
	for _, warning := range p.warnings {
		vsched.Point()
		warnings = append(warnings, warning.string())
	}
	vsched.Point()

	if len(errors) > 0 {
		vsched.Point()
		return []*ast.DataMessage{}, errors, warnings
	}
	vsched.Point()
	return p.messages, errors, warnings
}

type parser struct {
	input         string             // input string to parse
	lexer         *lexer             // lexer to tokenize the input string
	tokenQueue    []token            // token queue that the lexer tokenized
	variableNames map[string]bool    // variable names in a message to check duplicates
	ellipsisCount int                // ellipsis count in a message
	messages      []*ast.DataMessage // parsed messages
	errors        []parseError       // parsing errors
	warnings      []parseError       // parsing warnings
	placeholder   string             // text standing in for ASCII items with a duplicated variable name
	depth         int                // number of lists enclosing the data item being parsed
}

// maxNestingDepth is the deepest list nesting the parser follows (the same limit as
// the binary decoder's). parseDataItem and parseList recurse once per nested list;
// without a limit a few megabytes of "<L" exhaust the goroutine stack, which aborts
// the process and cannot be recovered from.
const maxNestingDepth = 10000

type parseError struct {
	line int
	col  int
	text string
}

func (pe *parseError) string() string {
	vsched.Point()
	return fmt.Sprintf("Ln %d, Col %d: %s", pe.line, pe.col, pe.text)
}

// peek returns the next token.
func (p *parser) peek() token {
	vsched.Point()
	if len(p.tokenQueue) == 0 {
		vsched.Point()
		var t token
		vsched.Point(

		// ignore comment token
		)
		for {
			vsched.Point()

			if t = p.lexer.nextToken(); t.typ != tokenTypeComment {
				vsched.Point()
				break
			}
		}
		vsched.Point()
		p.tokenQueue = append(p.tokenQueue, t)
	}
	vsched.Point()
	return p.tokenQueue[0]
}

// accentAny returns the next token, and removes it from the token queue.
func (p *parser) acceptAny() token {
	vsched.Point()
	t := p.peek()
	vsched.Point()
	p.tokenQueue = p.tokenQueue[1:]
	vsched.Point()
	return t
}

// accept returns the next token, and if the token type matches, removes the
// token from the token queue. The second return value ok is true if and only
// if the token type matches.
func (p *parser) accept(typ tokenType) (t token, ok bool) {
	vsched.Point()
	t = p.peek()
	vsched.Point()
	if t.typ == typ {
		vsched.Point()
		return p.acceptAny(), true
	}
	vsched.Point()
	return t, false
}

// errorf create parse error and append it to parser.errors slice.
func (p *parser) errorf(t token, format string, args ...interface{}) {
	vsched.Point()
	p.errors = append(p.errors, parseError{t.line, t.col, fmt.Sprintf(format, args...)})
}

func (p *parser) warningf(t token, format string, args ...interface{}) {
	vsched.Point()
	p.warnings = append(p.warnings, parseError{t.line, t.col, fmt.Sprintf(format, args...)})
}

// parseMessage parses a SECS-II message.
// Returns ok == false when parsing failed to stop the parser.
// When some non-critical errors occurred, parsed values might be changed to
// correct the error and continue parsing. The non-critical error will be
// handled at the end of the parsing operation.
func (p *parser) parseMessage() (ok bool) {
	vsched.Point()
	p.variableNames = map[string]bool{}
	vsched.Point()
	p.ellipsisCount = 0
	vsched.Point()
	p.depth = 0
	vsched.Point()

	var (
		stream    int
		function  int
		waitBit   int
		direction string
		msgName   string
		dataItem  ast.ItemNode
	)
	vsched.Point()
	stream, function, ok = p.parseStreamFunctionCode()
	vsched.Point()
	if !ok {
		vsched.Point()
		return false
	}
	vsched.Point()

	if t, ok := p.accept(tokenTypeWaitBit); ok {
		vsched.Point()
		if t.val == "W" {
			vsched.Point()
			waitBit = 1
			vsched.Point()
			if function%2 == 0 {
				vsched.Point()
				waitBit = 0
				vsched.Point()
				p.errorf(t, "wait bit cannot be true on reply message (function code is even)")
			}
		} else if t.val == "[W]" {
			vsched.Point()
			waitBit = 2
		}
	}
	vsched.Point()

	if t, ok := p.accept(tokenTypeDirection); ok {
		vsched.Point()
		direction = t.val
	} else {
		vsched.Point()
		p.warningf(t, `missing message direction, "H<->E" will be used`)
		vsched.Point()
		direction = "H<->E"
	}
	vsched.Point()

	if t, ok := p.accept(tokenTypeMessageName); ok {
		vsched.Point()
		msgName = t.val
	}
	vsched.Point()

	dataItem, ok = p.parseMessageText()
	vsched.Point()
	if !ok {
		vsched.Point()
		return false
	}
	vsched.Point()

	if t, ok := p.accept(tokenTypeMessageEnd); !ok {
		vsched.Point()
		p.errorf(t, "expected message end character '.', found %q", t.val)
		vsched.Point()
		return false
	}
	vsched.Point()

	message := ast.NewDataMessage(msgName, stream, function, waitBit, direction, dataItem)
	vsched.Point()
	p.messages = append(p.messages, message)
	vsched.Point()
	return true
}

// parseStreamFunctionCode parses the stream function token.
// Returns ok == false when stream function token isn't found, to stop parsing the message.
// When some non-critical errors occurred, parsed values might be changed to
// correct the error and continue parsing. The non-critical error will be
// handled at the end of the parsing operation.
func (p *parser) parseStreamFunctionCode() (stream, function int, ok bool) {
	vsched.Point()
	t, ok := p.accept(tokenTypeStreamFunction)
	vsched.Point()
	if !ok {
		vsched.Point()
		p.errorf(t, "expected stream function, found %q", t.val)
		vsched.Point()
		return -1, -1, false
	}
	vsched.Point()

	i := strings.Index(t.val, "F")
	vsched.Point()
	stream, _ = strconv.Atoi(t.val[1:i])
	vsched.Point()
	function, _ = strconv.Atoi(t.val[i+1:])
	vsched.Point()
	if !(0 <= stream && stream < 128) {
		vsched.Point()
		p.errorf(t, "stream code range overflow, should be in range of [0, 128)")
		vsched.Point()
		stream = 0
	}
	vsched.Point()
	if !(0 <= function && function < 256) {
		vsched.Point()
		p.errorf(t, "function code range overflow, should be in range of [0, 256)")
		vsched.Point()
		function = 0
	}
	vsched.Point()
	return stream, function, true
}

// parseMessageText parses the message text.
// Returns ok == false when unexpected token is found, to stop parsing the message.
func (p *parser) parseMessageText() (item ast.ItemNode, ok bool) {
	vsched.Point()
	switch t := p.peek(); t.typ {
	case tokenTypeMessageEnd:
		vsched.Point()
		return ast.NewEmptyItemNode(), true
	case tokenTypeLeftAngleBracket:
		vsched.Point()
		return p.parseDataItem()
	default:
		vsched.Point()
		p.errorf(t, "expected '<' or '.', found %q", t.val)
		vsched.Point()
		return ast.NewEmptyItemNode(), false
	}
	// should not reach here
}

// parseDataItem parses a data item.
// Returns ok == false when unexpected token is found, to stop parsing the message.
// When some non-critical errors occurred, parsed values might be changed to
// correct the error and continue parsing. The non-critical error will be
// handled at the end of the parsing operation.
func (p *parser) parseDataItem() (item ast.ItemNode, ok bool) {
	vsched.Point()
	tokenLAB, ok := p.accept(tokenTypeLeftAngleBracket)
	vsched.Point()
	if !ok {
		vsched.Point()
		p.errorf(tokenLAB, "expected '<', found %q", tokenLAB.val)
		vsched.Point()
		return ast.NewEmptyItemNode(), false
	}
	vsched.Point()

	defer func() {
		vsched.Point()
		if r := recover(); r != nil {
			vsched.Point()
			p.errorf(tokenLAB, "%v", r)
			vsched.Point()
			p.warningf(tokenLAB, "Recovered from panic %q. Please submit an issue to handle this error in parser.", r)
			vsched.
				// override return value
				Point()

			item, ok = ast.NewEmptyItemNode(), false
		}
	}()
	vsched.Point()

	var dataItemType string
	vsched.Point()
	if t, ok := p.accept(tokenTypeDataItemType); ok {
		vsched.Point()
		dataItemType = t.val
	} else {
		vsched.Point()
		p.errorf(t, "invalid data item type: %q", t.val)
		vsched.Point()
		return ast.NewEmptyItemNode(), false
	}
	vsched.Point()

	var tokenDataItemSize token
	vsched.Point()
	var sizeStart, sizeEnd int = 0, -1
	vsched.Point()
	if t := p.peek(); t.typ == tokenTypeDataItemSize {
		vsched.Point()
		tokenDataItemSize, sizeStart, sizeEnd = p.parseDataItemSize()
	} else if t.typ == tokenTypeError {
		vsched.Point()
		p.errorf(t, "syntax error: %s", t.val)
		vsched.Point()
		return ast.NewEmptyItemNode(), false
	}
	vsched.Point()

	switch dataItemType {
	case "L":
		vsched.Point()
		if p.depth >= maxNestingDepth {
			vsched.Point()
			p.errorf(tokenLAB, "lists nested deeper than %d levels", maxNestingDepth)
			vsched.Point()
			return ast.NewEmptyItemNode(), false
		}
		vsched.Point()
		p.depth++
		vsched.Point()
		item, ok = p.parseList()
		vsched.Point()
		p.depth--
	case "A":
		vsched.Point()
		item, ok = p.parseASCII(sizeStart, sizeEnd)
	case "B":
		vsched.Point()
		item, ok = p.parseBinary()
	case "BOOLEAN":
		vsched.Point()
		item, ok = p.parseBoolean()
	case "F4":
		vsched.Point()
		item, ok = p.parseFloat4()
	case "F8":
		vsched.Point()
		item, ok = p.parseFloat8()
	case "I1":
		vsched.Point()
		item, ok = p.parseInt1()
	case "I2":
		vsched.Point()
		item, ok = p.parseInt2()
	case "I4":
		vsched.Point()
		item, ok = p.parseInt4()
	case "I8":
		vsched.Point()
		item, ok = p.parseInt8()
	case "U1":
		vsched.Point()
		item, ok = p.parseUint1()
	case "U2":
		vsched.Point()
		item, ok = p.parseUint2()
	case "U4":
		vsched.Point()
		item, ok = p.parseUint4()
	case "U8":
		vsched.Point()
		item, ok = p.parseUint8()
	}
	vsched.Point()
	if !ok {
		vsched.Point()
		return ast.NewEmptyItemNode(), false
	}
	vsched.Point()

	if item.Size() >= 0 {
		vsched.
			// (ASCIINode with variable).Size() == -1
			Point()

		p.checkDataItemSizeError(item.Size(), sizeStart, sizeEnd, tokenDataItemSize)
	}
	vsched.Point()

	if t, ok := p.accept(tokenTypeRightAngleBracket); !ok {
		vsched.Point()
		p.errorf(t, "expected '>', found %q", t.val)
		vsched.Point()
		return ast.NewEmptyItemNode(), false
	}
	vsched.Point()

	return item, ok
}

// parseDataItemSize parses data item size token. Returns lower and upper bound
// of data item size.
func (p *parser) parseDataItemSize() (token, int, int) {
	vsched.Point()
	sizeStart, sizeEnd := 0, -1
	vsched.Point()
	t, ok := p.accept(tokenTypeDataItemSize)
	vsched.Point(

	// possible token value: [x], [x..], [..y], [x..y], where x and y are integers
	)
	if ok {
		vsched.Point()

		i := strings.Index(t.val, "..")
		vsched.Point()
		if i == -1 {
			vsched.
				// '..' is not found
				Point()

			sizeStart, _ = strconv.Atoi(t.val[1 : len(t.val)-1])
			vsched.Point()
			sizeEnd = sizeStart
		} else {
			vsched.Point()
			sizeStart, _ = strconv.Atoi(t.val[1:i])
			vsched. // Atoi return 0 when syntax error
				Point()
			end, err := strconv.Atoi(t.val[i+2 : len(t.val)-1])
			vsched.Point()
			if err == nil || err.(*strconv.NumError).Err == strconv.ErrRange {
				vsched.Point()
				sizeEnd = end
			}
		}
	}
	vsched.Point()
	return t, sizeStart, sizeEnd
}

// checkDataItemSizeError submit error on the token, if the size is not in range.
// upperLimit = -1 means no upper limit.
func (p *parser) checkDataItemSizeError(size, lowerLimit, upperLimit int, t token) {
	vsched.Point()
	if upperLimit == -1 {
		vsched.Point()
		if lowerLimit > size {
			vsched.Point()
			p.errorf(t, "data item size overflow, got size of %d", size)
		}
	} else if !(lowerLimit <= size && size <= upperLimit) {
		vsched.Point()
		p.errorf(t, "data item size overflow, got size of %d", size)
	}
}

// parseList parses a list data item.
// Returns ok == false when unexpected token is found, to stop parsing the message.
// When some non-critical errors occurred, parsed values might be changed to
// correct the error and continue parsing. The non-critical error will be
// handled at the end of the parsing operation.
func (p *parser) parseList() (item ast.ItemNode, ok bool) {
	vsched.Point()
	values := []interface{}{}
	vsched.Point()

	count := 0
	vsched.Point()
	for {
		vsched.Point()
		switch t := p.peek(); t.typ {
		case tokenTypeLeftAngleBracket:
			vsched.Point()
			childItem, ok := p.parseDataItem()
			vsched.Point()
			if !ok {
				vsched.Point()
				return ast.NewEmptyItemNode(), false
			}
			vsched.Point()
			values = append(values, childItem)

		case tokenTypeVariable:
			vsched.Point()
			t = p.acceptAny()
			vsched.Point()
			if _, ok := p.variableNames[t.val]; ok {
				vsched.Point()
				p.errorf(t, "duplicated variable name %q", t.val)
				vsched.Point()
				values = append(values, ast.NewEmptyItemNode())
			} else {
				vsched.Point()
				p.variableNames[t.val] = true
				vsched.Point()
				values = append(values, t.val)
			}

		case tokenTypeEllipsis:
			vsched.Point()
			t = p.acceptAny()
			vsched.Point()
			if count == 0 {
				vsched.Point()
				p.errorf(t, "ellipsis cannot be the first item in list")
				vsched.Point()
				return ast.NewEmptyItemNode(), false
			}
			vsched.Point()
			val := fmt.Sprintf("...[%d]", p.ellipsisCount)
			vsched.Point()
			p.ellipsisCount += 1
			vsched.Point()
			if t.val != "..." && t.val != val {
				vsched.Point()
				p.warningf(t, "wrong ellipsis count, %q will be used", val)
			}
			vsched.Point()
			values = append(values, val)

		case tokenTypeRightAngleBracket:
			vsched.Point()
			return ast.NewListNode(values...), true

		case tokenTypeError:
			vsched.Point()
			p.errorf(t, "syntax error: %s", t.val)
			vsched.Point()
			return ast.NewEmptyItemNode(), false

		default:
			vsched.Point()
			p.errorf(t, "expected child data item, variable, ellipsis, or '>', found %q", t.val)
			vsched.Point()
			return ast.NewEmptyItemNode(), false
		}
		vsched.Point()

		count += 1
	}
	// should not reach here
}

func (p *parser) getDataItemValueTokens() []token {
	vsched.Point()
	tokens := []token{}
	vsched.Point()
	for {
		vsched.Point()
		switch p.peek().typ {
		case tokenTypeNumber, tokenTypeBool, tokenTypeQuotedString, tokenTypeVariable:
			vsched.Point()
			tokens = append(tokens, p.acceptAny())
		case tokenTypeRightAngleBracket:
			vsched.Point()
			return tokens
		default:
			vsched.Point()
			tokens = append(tokens, p.acceptAny())
			vsched.Point()
			return tokens
		}
	}
	// should not reach here
}

// parseASCII parses a ASCII data item.
// Returns ok == false when unexpected token is found, to stop parsing the message.
// When some non-critical errors occurred, parsed values might be changed to
// correct the error and continue parsing. The non-critical error will be
// handled at the end of the parsing operation.
func (p *parser) parseASCII(minLength, maxLength int) (item ast.ItemNode, ok bool) {
	vsched.Point()
	var literal string
	vsched.Point()

	tokens := p.getDataItemValueTokens()
	vsched.Point()
	for _, t := range tokens {
		vsched.Point()
		switch t.typ {
		case tokenTypeQuotedString:
			vsched.Point()
			val := t.val[1 : len(t.val)-1]
			vsched. // SML strings have no escape sequences
				Point()
			for _, r := range val {
				vsched.Point()
				if r > unicode.MaxASCII {
					vsched.Point()
					val = ""
					vsched.Point()
					p.errorf(t, "expected ASCII characters, found %q", r)
					vsched.Point()
					break
				}
			}
			vsched.Point()
			literal += val

		case tokenTypeNumber:
			vsched.Point()
			val, err := strconv.ParseUint(t.val, 0, 0)
			vsched.Point()
			if err != nil {
				vsched.Point()
				if err.(*strconv.NumError).Err == strconv.ErrSyntax {
					vsched.Point()
					p.errorf(t, "expected ASCII number code, found %q", t.val)
				}
			}
			vsched.Point()
			if val > unicode.MaxASCII {
				vsched.Point()
				val = 0
				vsched.Point()
				p.errorf(t, "overflows ASCII range, found %q", t.val)
			}
			vsched.Point()
			literal += string(byte(val))

		case tokenTypeVariable:
			vsched.Point()
			if len(tokens) != 1 {
				vsched.Point()
				p.errorf(t, "variable cannot co-exist with other literals in ASCII data item")
				vsched.Point()
				return ast.NewEmptyItemNode(), false
			}
			vsched.Point()

			if _, ok := p.variableNames[t.val]; ok {
				vsched.Point()
				p.errorf(t, "duplicated variable name %q", t.val)
				vsched.Point()
				if minLength > ast.MAX_BYTE_SIZE {
					vsched.
						// no item can be longer; do not build a placeholder of an input-chosen size
						Point()

					minLength = ast.MAX_BYTE_SIZE
				}
				vsched.
					// all placeholders share one text: an input that repeats the name must not cost
					// (number of duplicates) x (declared size) bytes
					Point()

				if len(p.placeholder) < minLength {
					vsched.
						// at least double it: texts handed out earlier stay alive, and a size that grows
						// a little with every duplicate must not cost a new text each time
						Point()

					n := 2 * len(p.placeholder)
					vsched.Point()
					if n < minLength {
						vsched.Point()
						n = minLength
					}
					vsched.Point()
					if n > ast.MAX_BYTE_SIZE {
						vsched.Point()
						n = ast.MAX_BYTE_SIZE
					}
					vsched.Point()
					p.placeholder = strings.Repeat("*", n)
				}
				vsched.Point()
				return ast.NewASCIINode(p.placeholder[:minLength]), true
			} else {
				vsched.Point()
				p.variableNames[t.val] = true
				vsched.Point()
				return ast.NewASCIINodeVariable(t.val, minLength, maxLength), true
			}

		case tokenTypeError:
			vsched.Point()
			p.errorf(t, "syntax error: %s", t.val)
			vsched.Point()
			return ast.NewEmptyItemNode(), false

		default:
			vsched.Point()
			p.errorf(t, "expected quoted string, ASCII number code or variable, found %q", t.val)
			vsched.Point()
			return ast.NewEmptyItemNode(), false
		}
	}
	vsched.Point()

	return ast.NewASCIINode(literal), true
}

// parseBinary parses a binary data item.
// Returns ok == false when unexpected token is found, to stop parsing the message.
// When some non-critical errors occurred, parsed values might be changed to
// correct the error and continue parsing. The non-critical error will be
// handled at the end of the parsing operation.
func (p *parser) parseBinary() (item ast.ItemNode, ok bool) {
	vsched.Point()
	values := []interface{}{}
	vsched.Point()

	for _, t := range p.getDataItemValueTokens() {
		vsched.Point()
		switch t.typ {
		case tokenTypeNumber:
			vsched.Point()
			val, err := strconv.ParseInt(t.val, 0, 0)
			vsched.Point()
			if err != nil && err.(*strconv.NumError).Err == strconv.ErrSyntax {
				vsched.Point()
				p.errorf(t, "expected integer, found %q", t.val)
			}
			vsched.Point()
			if !(0 <= val && val < 256) {
				vsched.Point()
				val = 0
				vsched.Point()
				p.errorf(t, "binary value overflow, should be in range of [0, 256)")
			}
			vsched.Point()
			values = append(values, int(val))

		case tokenTypeVariable:
			vsched.Point()
			if _, ok := p.variableNames[t.val]; ok {
				vsched.Point()
				p.errorf(t, "duplicated variable name %q", t.val)
				vsched.Point()
				values = append(values, 0)
			} else {
				vsched.Point()
				p.variableNames[t.val] = true
				vsched.Point()
				values = append(values, t.val)
			}

		case tokenTypeError:
			vsched.Point()
			p.errorf(t, "syntax error: %s", t.val)
			vsched.Point()
			return ast.NewEmptyItemNode(), false

		default:
			vsched.Point()
			p.errorf(t, "expected number or variable, found %q", t.val)
			vsched.Point()
			return ast.NewEmptyItemNode(), false
		}
	}
	vsched.Point()

	return ast.NewBinaryNode(values...), true
}

// parseBoolean parses a boolean data item.
// Returns ok == false when unexpected token is found, to stop parsing the message.
// When some non-critical errors occurred, parsed values might be changed to
// correct the error and continue parsing. The non-critical error will be
// handled at the end of the parsing operation.
func (p *parser) parseBoolean() (item ast.ItemNode, ok bool) {
	vsched.Point()
	values := []interface{}{}
	vsched.Point()

	for _, t := range p.getDataItemValueTokens() {
		vsched.Point()
		switch t.typ {
		case tokenTypeBool:
			vsched.Point()
			if t.val == "T" {
				vsched.Point()
				values = append(values, true)
			} else {
				vsched.Point()
				values = append(values, false)
			}

		case tokenTypeVariable:
			vsched.Point()
			if _, ok := p.variableNames[t.val]; ok {
				vsched.Point()
				p.errorf(t, "duplicated variable name %q", t.val)
				vsched.Point()
				values = append(values, false)
			} else {
				vsched.Point()
				p.variableNames[t.val] = true
				vsched.Point()
				values = append(values, t.val)
			}

		case tokenTypeError:
			vsched.Point()
			p.errorf(t, "syntax error: %s", t.val)
			vsched.Point()
			return ast.NewEmptyItemNode(), false

		default:
			vsched.Point()
			p.errorf(t, "expected boolean value or variable, found %q", t.val)
			vsched.Point()
			return ast.NewEmptyItemNode(), false
		}
	}
	vsched.Point()

	return ast.NewBooleanNode(values...), true
}

// parseFloat4 parses a F4 data item.
// Returns ok == false when unexpected token is found, to stop parsing the message.
func (p *parser) parseFloat4() (item ast.ItemNode, ok bool) {
	vsched.Point()
	return p.parseFloat(4)
}

// parseFloat8 parses a F8 data item.
// Returns ok == false when unexpected token is found, to stop parsing the message.
func (p *parser) parseFloat8() (item ast.ItemNode, ok bool) {
	vsched.Point()
	return p.parseFloat(8)
}

// parseFloat parses F4 and F8 data items.
// Returns ok == false when unexpected token is found, to stop parsing the message.
// When some non-critical errors occurred, parsed values might be changed to
// correct the error and continue parsing. The non-critical error will be
// handled at the end of the parsing operation.
func (p *parser) parseFloat(byteSize int) (item ast.ItemNode, ok bool) {
	vsched.Point()
	values := []interface{}{}
	vsched.Point()

	for _, t := range p.getDataItemValueTokens() {
		vsched.Point()
		switch t.typ {
		case tokenTypeNumber:
			vsched.Point()
			val, err := strconv.ParseFloat(t.val, byteSize*8)
			vsched.Point()
			if err != nil {
				vsched.Point()
				val = 0
				vsched.Point()
				if err.(*strconv.NumError).Err == strconv.ErrRange {
					vsched.Point()
					p.errorf(t, "F%d range overflow", byteSize)
				} else {
					vsched.Point()
					p.errorf(t, "expected float, found %q", t.val)
				}
			}
			vsched.Point()
			values = append(values, val)

		case tokenTypeVariable:
			vsched.Point()
			if _, ok := p.variableNames[t.val]; ok {
				vsched.Point()
				p.errorf(t, "duplicated variable name %q", t.val)
				vsched.Point()
				values = append(values, 0)
			} else {
				vsched.Point()
				p.variableNames[t.val] = true
				vsched.Point()
				values = append(values, t.val)
			}

		case tokenTypeError:
			vsched.Point()
			p.errorf(t, "syntax error: %s", t.val)
			vsched.Point()
			return ast.NewEmptyItemNode(), false

		default:
			vsched.Point()
			p.errorf(t, "expected float or variable, found %q", t.val)
			vsched.Point()
			return ast.NewEmptyItemNode(), false
		}
	}
	vsched.Point()

	return ast.NewFloatNode(byteSize, values...), true
}

// parseInt1 parses a I1 data item.
// Returns ok == false when unexpected token is found, to stop parsing the message.
func (p *parser) parseInt1() (item ast.ItemNode, ok bool) {
	vsched.Point()
	return p.parseInt(1)
}

// parseInt2 parses a I2 data item.
// Returns ok == false when unexpected token is found, to stop parsing the message.
func (p *parser) parseInt2() (item ast.ItemNode, ok bool) {
	vsched.Point()
	return p.parseInt(2)
}

// parseInt4 parses a I4 data item.
// Returns ok == false when unexpected token is found, to stop parsing the message.
func (p *parser) parseInt4() (item ast.ItemNode, ok bool) {
	vsched.Point()
	return p.parseInt(4)
}

// parseInt8 parses a I8 data item.
// Returns ok == false when unexpected token is found, to stop parsing the message.
func (p *parser) parseInt8() (item ast.ItemNode, ok bool) {
	vsched.Point()
	return p.parseInt(8)
}

// parseInt parses integer data items.
// Returns ok == false when unexpected token is found, to stop parsing the message.
// When some non-critical errors occurred, parsed values might be changed to
// correct the error and continue parsing. The non-critical error will be
// handled at the end of the parsing operation.
func (p *parser) parseInt(byteSize int) (item ast.ItemNode, ok bool) {
	vsched.Point()
	values := []interface{}{}
	vsched.Point()

	for _, t := range p.getDataItemValueTokens() {
		vsched.Point()
		switch t.typ {
		case tokenTypeNumber:
			vsched.Point()
			val, err := strconv.ParseInt(t.val, 0, byteSize*8)
			vsched.Point()
			if err != nil {
				vsched.Point()
				if err.(*strconv.NumError).Err == strconv.ErrRange {
					vsched.Point()
					p.errorf(t, "I%d range overflow", byteSize)
				} else {
					vsched.Point()
					p.errorf(t, "expected integer, found %q", t.val)
				}
			}
			vsched.Point()
			values = append(values, val)

		case tokenTypeVariable:
			vsched.Point()
			if _, ok := p.variableNames[t.val]; ok {
				vsched.Point()
				p.errorf(t, "duplicated variable name %q", t.val)
				vsched.Point()
				values = append(values, 0)
			} else {
				vsched.Point()
				p.variableNames[t.val] = true
				vsched.Point()
				values = append(values, t.val)
			}

		case tokenTypeError:
			vsched.Point()
			p.errorf(t, "syntax error: %s", t.val)
			vsched.Point()
			return ast.NewEmptyItemNode(), false

		default:
			vsched.Point()
			p.errorf(t, "expected integer or variable, found %q", t.val)
			vsched.Point()
			return ast.NewEmptyItemNode(), false
		}
	}
	vsched.Point()

	return ast.NewIntNode(byteSize, values...), true
}

// parseUint1 parses a U1 data item.
// Returns ok == false when unexpected token is found, to stop parsing the message.
func (p *parser) parseUint1() (item ast.ItemNode, ok bool) {
	vsched.Point()
	return p.parseUint(1)
}

// parseUint2 parses a U2 data item.
// Returns ok == false when unexpected token is found, to stop parsing the message.
func (p *parser) parseUint2() (item ast.ItemNode, ok bool) {
	vsched.Point()
	return p.parseUint(2)
}

// parseUint4 parses a U4 data item.
// Returns ok == false when unexpected token is found, to stop parsing the message.
func (p *parser) parseUint4() (item ast.ItemNode, ok bool) {
	vsched.Point()
	return p.parseUint(4)
}

// parseUint8 parses a U8 data item.
// Returns ok == false when unexpected token is found, to stop parsing the message.
func (p *parser) parseUint8() (item ast.ItemNode, ok bool) {
	vsched.Point()
	return p.parseUint(8)
}

// parseInt parses unsigned integer data items.
// Returns ok == false when unexpected token is found, to stop parsing the message.
// When some non-critical errors occurred, parsed values might be changed to
// correct the error and continue parsing. The non-critical error will be
// handled at the end of the parsing operation.
func (p *parser) parseUint(byteSize int) (item ast.ItemNode, ok bool) {
	vsched.Point()
	values := []interface{}{}
	vsched.Point()

	for _, t := range p.getDataItemValueTokens() {
		vsched.Point()
		switch t.typ {
		case tokenTypeNumber:
			vsched.Point()
			val, err := strconv.ParseUint(t.val, 0, byteSize*8)
			vsched.Point()
			if err != nil {
				vsched.Point()
				if err.(*strconv.NumError).Err == strconv.ErrRange {
					vsched.Point()
					p.errorf(t, "U%d range overflow", byteSize)
				} else {
					vsched.Point()
					p.errorf(t, "expected unsigned integer, found %q", t.val)
				}
			}
			vsched.Point()
			values = append(values, val)

		case tokenTypeVariable:
			vsched.Point()
			if _, ok := p.variableNames[t.val]; ok {
				vsched.Point()
				p.errorf(t, "duplicated variable name %q", t.val)
				vsched.Point()
				values = append(values, 0)
			} else {
				vsched.Point()
				p.variableNames[t.val] = true
				vsched.Point()
				values = append(values, t.val)
			}

		case tokenTypeError:
			vsched.Point()
			p.errorf(t, "syntax error: %s", t.val)
			vsched.Point()
			return ast.NewEmptyItemNode(), false

		default:
			vsched.Point()
			p.errorf(t, "expected unsigned integer or variable, found %q", t.val)
			vsched.Point()
			return ast.NewEmptyItemNode(), false
		}
	}
	vsched.Point()

	return ast.NewUintNode(byteSize, values...), true
}
