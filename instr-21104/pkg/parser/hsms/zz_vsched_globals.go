package hsms

import "github.com/wolimst/lib-secs2-hsms-go/pkg/vsched"

func init() {
	vsched.RegisterGlobals("pkg/parser/hsms", map[string]interface{}{
		"valueBuf": &valueBuf,
	})
}
