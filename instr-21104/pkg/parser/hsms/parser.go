package hsms

import "github.com/wolimst/lib-secs2-hsms-go/pkg/vsched"

import (
	"encoding/binary"
	"math"

	"github.com/wolimst/lib-secs2-hsms-go/pkg/ast"
)

const (
	sTypeDataMessage = 0
	sTypeSelectReq   = 1
	sTypeSelectRsp   = 2
	sTypeDeselectReq = 3
	sTypeDeselectRsp = 4
	sTypeLinktestReq = 5
	sTypeLinktestRsp = 6
	sTypeRejectReq   = 7
	sTypeSeparateReq = 9

	formatCodeList    = 0o00
	formatCodeBinary  = 0o10
	formatCodeBoolean = 0o11
	formatCodeASCII   = 0o20
	formatCodeI8      = 0o30
	formatCodeI1      = 0o31
	formatCodeI2      = 0o32
	formatCodeI4      = 0o34
	formatCodeF8      = 0o40
	formatCodeF4      = 0o44
	formatCodeU8      = 0o50
	formatCodeU1      = 0o51
	formatCodeU2      = 0o52
	formatCodeU4      = 0o54

	// maxNestingDepth is the deepest list nesting the parser follows. The item
	// parser recurses once per nested list; without a limit a few megabytes of
	// list headers exhaust the goroutine stack, which aborts the process and
	// cannot be recovered from.
	maxNestingDepth = 10000
)

// Parse parses the input bytes that represent a HSMS message.
//
// input should contain only one HSMS message.
//
// If parsing fails, ok == false will be returned. A message whose lists are
// nested deeper than maxNestingDepth levels is refused as well.
func Parse(input []byte) (msg ast.HSMSMessage, ok bool) {
	vsched.
		// Handle panics on abstract syntax tree creation
		Point()

	defer func() {
		vsched.Point()
		if r := recover(); r != nil {
			vsched.Point()
			ok = false
		}
	}()
	vsched.

		// Limit the capacity to the length, so that a declared item length which
		// exceeds the input cannot be satisfied from the backing array beyond it.
		Point()

	p := &parser{input: input[:len(input):len(input)]}
	vsched.Point()
	if ok := p.parseMessageLength(); !ok {
		vsched.Point()
		return p.msg, false
	}
	vsched.Point()
	if ok := p.parseMessage(); !ok {
		vsched.Point()
		return p.msg, false
	}
	vsched.Point()
	return p.msg, true
}

// valueBuf stages the values of one non-list item on their way into the item
// constructor. Every constructor copies the values it is given into a typed
// slice of its own, so the boxed values are dead as soon as it returns; keeping
// one buffer saves a 16-bytes-per-element allocation for every item parsed.
// Lists do not use it: their children are parsed while the list is collected.
var valueBuf []interface{}

// stageValues returns the staging buffer with room for exactly n values.
func stageValues(n int) []interface{} {
	vsched.Point()
	if cap(valueBuf) < n {
		vsched.Point()
		valueBuf = make([]interface{}, n)
	}
	vsched.Point()
	return valueBuf[:n]
}

type parser struct {
	input     []byte          // a HSMS input message in bytes
	pos       int             // current position in input
	msgLength int             // message length (excluding length bytes)
	msg       ast.HSMSMessage // parsed HSMS message
	depth     int             // number of lists enclosing the item being parsed
}

// parseMessageLength parses the message length which is the first 4 bytes of
// HSMS byte input, and store the result in the parser struct.
func (p *parser) parseMessageLength() (ok bool) {
	vsched.Point()
	if len(p.input) < 14 {
		vsched. // length bytes + header bytes
			Point()
		return false
	}
	vsched.Point()

	lengthBytes := p.input[0:4]
	vsched.Point()
	p.pos += 4
	vsched.Point()

	p.msgLength = int(binary.BigEndian.Uint32(lengthBytes))
	vsched.Point()
	return len(p.input[p.pos:]) == p.msgLength
}

// parseMessage parses the message header and the message text, and store it
// in the parser struct.
func (p *parser) parseMessage() (ok bool) {
	vsched.Point()
	headerBytes := p.input[p.pos : p.pos+10]
	vsched.Point()
	p.pos += 10
	vsched.Point()

	if headerBytes[4] != 0 {
		vsched. // PType
			Point(
			// Not a SECS-II message
			)

		return false
	}
	vsched.Point()

	switch headerBytes[5] { // SType
	case sTypeDataMessage:
		vsched.Point()
		stream := int(headerBytes[2] & 0b01111111)
		vsched.Point()
		function := int(headerBytes[3])
		vsched.Point()
		waitBit := int(headerBytes[2] >> 7)
		vsched.Point()
		sessionID := int(binary.BigEndian.Uint16(headerBytes[:2]))
		vsched.Point()
		systemBytes := headerBytes[6:10]
		vsched.Point()
		dataItem, ok := p.parseMessageText()
		vsched.Point()
		if !ok {
			vsched.Point()
			return false
		}
		vsched.Point()
		if p.pos != len(p.input) {
			vsched.
				// bytes left over after the data item
				Point()

			return false
		}
		vsched.Point()
		p.msg = ast.NewHSMSDataMessage("", stream, function, waitBit, "H<->E", dataItem, sessionID, systemBytes)
		vsched.Point()
		return true

	case sTypeSelectReq, sTypeSelectRsp, sTypeDeselectReq, sTypeDeselectRsp,
		sTypeLinktestReq, sTypeLinktestRsp, sTypeRejectReq, sTypeSeparateReq:
		vsched.Point()
		if p.pos != len(p.input) {
			vsched.
				// a control message is its header; bytes after it would be dropped
				Point()

			return false
		}
		vsched.Point()
		p.msg = ast.NewHSMSControlMessage(headerBytes)
		vsched.Point()
		return true

	default:
		vsched.
			// Undefined SType
			Point()

		return false
	}
	// should not reach here
}

// parseMessageText creates ast.ItemNode from binary HSMS message text.
// Return empty item node and ok == false if the message cannot be parsed.
func (p *parser) parseMessageText() (dataItem ast.ItemNode, ok bool) {
	vsched.Point()
	if p.msgLength == 10 {
		vsched.Point()
		return ast.NewEmptyItemNode(), true
	}
	vsched.Point()

	formatCode := p.input[p.pos] >> 2
	vsched.Point()
	lengthBytesCount := int(p.input[p.pos] & 0b00000011)
	vsched.Point()
	if lengthBytesCount == 0 {
		vsched.Point()
		return ast.NewEmptyItemNode(), false
	}
	vsched.Point()
	p.pos += 1
	vsched.Point()

	lengthBytes := p.input[p.pos : p.pos+lengthBytesCount]
	vsched.Point()
	var length int
	vsched.Point()
	for i, b := range lengthBytes {
		vsched.Point()
		shift := (lengthBytesCount - i - 1) * 8
		vsched.Point()
		length += int(b) << shift
	}
	vsched.Point()
	p.pos += lengthBytesCount
	vsched.Point()

	if formatCode != formatCodeList && length > len(p.input)-p.pos {
		vsched.
			// declared length exceeds the remaining input; do not allocate for it
			Point()

		return ast.NewEmptyItemNode(), false
	}
	vsched.Point()

	switch formatCode {
	case formatCodeList:
		vsched.Point()
		if p.depth >= maxNestingDepth {
			vsched.Point()
			return ast.NewEmptyItemNode(), false
		}
		vsched.Point()
		p.depth++
		vsched.
			// grows with the items actually present, not with the declared count
			Point()

		values := make([]interface{}, 0)
		vsched.Point()
		for i := 0; i < length; i++ {
			vsched.Point()
			value, ok := p.parseMessageText()
			vsched.Point()
			if !ok {
				vsched.Point()
				return ast.NewEmptyItemNode(), false
			}
			vsched.Point()
			values = append(values, value)
		}
		vsched.Point()
		p.depth--
		vsched.Point()
		return ast.NewListNode(values...), true

	case formatCodeASCII:
		vsched.
			// bytes above 0x7F become invalid UTF-8 and are refused by NewASCIINode
			Point()

		str := string(p.input[p.pos : p.pos+length])
		vsched.Point()
		p.pos += length
		vsched.Point()
		return ast.NewASCIINode(str), true

	case formatCodeBinary:
		vsched.Point()
		values := stageValues(length)
		vsched.Point()
		for i, v := range p.input[p.pos : p.pos+length] {
			vsched.Point()
			values[i] = int(v)
		}
		vsched.Point()
		p.pos += length
		vsched.Point()
		return ast.NewBinaryNode(values...), true

	case formatCodeBoolean:
		vsched.Point()
		values := stageValues(length)
		vsched.Point()
		for i, v := range p.input[p.pos : p.pos+length] {
			vsched.Point()
			if v == 0 {
				vsched.Point()
				values[i] = false
			} else {
				vsched.Point()
				values[i] = true
			}
		}
		vsched.Point()
		p.pos += length
		vsched.Point()
		return ast.NewBooleanNode(values...), true

	case formatCodeF4:
		vsched.Point()
		return p.parseFloat(4, length)
	case formatCodeF8:
		vsched.Point()
		return p.parseFloat(8, length)

	case formatCodeI1:
		vsched.Point()
		return p.parseInt(1, length)
	case formatCodeI2:
		vsched.Point()
		return p.parseInt(2, length)
	case formatCodeI4:
		vsched.Point()
		return p.parseInt(4, length)
	case formatCodeI8:
		vsched.Point()
		return p.parseInt(8, length)

	case formatCodeU1:
		vsched.Point()
		return p.parseUint(1, length)
	case formatCodeU2:
		vsched.Point()
		return p.parseUint(2, length)
	case formatCodeU4:
		vsched.Point()
		return p.parseUint(4, length)
	case formatCodeU8:
		vsched.Point()
		return p.parseUint(8, length)

	default:
		vsched.Point()
		return ast.NewEmptyItemNode(), false
	}
	// should not reach here
}

func (p *parser) parseFloat(byteSize int, length int) (dataItem ast.ItemNode, ok bool) {
	vsched.Point()
	if length%byteSize != 0 {
		vsched.Point()
		return ast.NewEmptyItemNode(), false
	}
	vsched.Point()

	valueCounts := length / byteSize
	vsched.Point()
	values := stageValues(valueCounts)
	vsched.Point()
	for i := 0; i < valueCounts; i++ {
		vsched.Point()
		start, end := p.pos+byteSize*i, p.pos+byteSize*(i+1)
		vsched.Point()
		if byteSize == 4 {
			vsched.Point()
			bits := binary.BigEndian.Uint32(p.input[start:end])
			vsched.Point()
			values[i] = math.Float32frombits(bits)
		} else if byteSize == 8 {
			vsched.Point()
			bits := binary.BigEndian.Uint64(p.input[start:end])
			vsched.Point()
			values[i] = math.Float64frombits(bits)
		}
	}
	vsched.Point()
	p.pos += length
	vsched.Point()
	return ast.NewFloatNode(byteSize, values...), true
}

func (p *parser) parseInt(byteSize int, length int) (dataItem ast.ItemNode, ok bool) {
	vsched.Point()
	if length%byteSize != 0 {
		vsched.Point()
		return ast.NewEmptyItemNode(), false
	}
	vsched.Point()

	valueCounts := length / byteSize
	vsched.Point()
	values := stageValues(valueCounts)
	vsched.Point()
	for i := 0; i < valueCounts; i++ {
		vsched.Point()
		start, end := p.pos+byteSize*i, p.pos+byteSize*(i+1)
		vsched.Point()
		if byteSize == 1 {
			vsched.Point()
			values[i] = int8(p.input[p.pos+i])
		} else if byteSize == 2 {
			vsched.Point()
			bits := binary.BigEndian.Uint16(p.input[start:end])
			vsched.Point()
			values[i] = int16(bits)
		} else if byteSize == 4 {
			vsched.Point()
			bits := binary.BigEndian.Uint32(p.input[start:end])
			vsched.Point()
			values[i] = int32(bits)
		} else if byteSize == 8 {
			vsched.Point()
			bits := binary.BigEndian.Uint64(p.input[start:end])
			vsched.Point()
			values[i] = int64(bits)
		}
	}
	vsched.Point()
	p.pos += length
	vsched.Point()
	return ast.NewIntNode(byteSize, values...), true
}

func (p *parser) parseUint(byteSize int, length int) (dataItem ast.ItemNode, ok bool) {
	vsched.Point()
	if length%byteSize != 0 {
		vsched.Point()
		return ast.NewEmptyItemNode(), false
	}
	vsched.Point()

	valueCounts := length / byteSize
	vsched.Point()
	values := stageValues(valueCounts)
	vsched.Point()
	for i := 0; i < valueCounts; i++ {
		vsched.Point()
		start, end := p.pos+byteSize*i, p.pos+byteSize*(i+1)
		vsched.Point()
		if byteSize == 1 {
			vsched.Point()
			values[i] = uint8(p.input[p.pos+i])
		} else if byteSize == 2 {
			vsched.Point()
			values[i] = binary.BigEndian.Uint16(p.input[start:end])
		} else if byteSize == 4 {
			vsched.Point()
			values[i] = binary.BigEndian.Uint32(p.input[start:end])
		} else if byteSize == 8 {
			vsched.Point()
			values[i] = binary.BigEndian.Uint64(p.input[start:end])
		}
	}
	vsched.Point()
	p.pos += length
	vsched.Point()
	return ast.NewUintNode(byteSize, values...), true
}
func vschedReset0() {
	{
		var vschedZero []interface{}
		valueBuf = vschedZero
	}
}
func init() {
	vsched.RegisterReset(vschedReset0)
}
