package ast

import "github.com/wolimst/lib-secs2-hsms-go/pkg/vsched"

import (
	"fmt"
	"strings"
	"unicode"
)

// ASCIINode is a immutable data type that represents a ASCII string in a SECS-II message.
// Implements ItemNode.
//
// It contains either a string that consists of ASCII characters,
// or a variable which can be used to fill the string value later.
// ASCII data type is one of the special cases in the SECS-II data types;
// the size of ASCII data type is the length of the string, and therefore,
// there could be only one variable if exist.
type ASCIINode struct {
	value    string            // a string literal that consists of ASCII characters
	variable asciiNodeVariable // a struct that contains information on the variable
	isValue  bool              // a flag that represents which data is set; value or variable

	// Rep invariants
	// - If isValue == true, variable shouldn't be used and it should have zero-value
	//   else, value shouldn't be used and it should have zero-value
	// - value should consist of ASCII characters
	// - variable.name should adhere to the variable naming rule; refer to interface.go
	// - variable.minLength >= 0, variable.maxLength >= -1
	// - variable.minLength <= variable.maxLength, when variable.maxLength != -1
}

type asciiNodeVariable struct {
	name      string // variable name
	minLength int    // minimum length of the string value to be filled; -1 means no limit
	maxLength int    // maximum length of the string value to be filled; -1 means no limit
}

// Factory methods

// NewASCIINode creates a new ASCIINode that contains the input string.
//
// The input string should consist of ASCII chracters.
func NewASCIINode(str string) ItemNode {
	vsched.Point()
	if getDataByteLength("ascii", len(str)) > MAX_BYTE_SIZE {
		vsched.Point()
		panic("string length limit exceeded")
	}
	vsched.Point()

	node := &ASCIINode{value: str, isValue: true}
	vsched.Point()
	node.checkRep()
	vsched.Point()
	return node
}

// NewASCIINodeVariable creates a new ASCIINode that contains a variable.
//
// name should be a valid variable name as specified in the interface documentation.
// minLength and maxLength represents the length range of the string value to be filled.
//
// minLength and maxLength should meet following conditions.
// minLength >= 0, maxLength >= -1, where -1 means no limit.
// minLength <= maxLength, when maxLength != -1.
func NewASCIINodeVariable(name string, minLength, maxLength int) ItemNode {
	vsched.Point()
	node := &ASCIINode{
		variable: asciiNodeVariable{name, minLength, maxLength},
		isValue:  false,
	}
	vsched.Point()
	node.checkRep()
	vsched.Point()
	return node
}

// Public methods

// Size implements DataItemNode.Size().
//
// If the node have a variable, returns -1.
func (node *ASCIINode) Size() int {
	vsched.Point()
	if !node.isValue {
		vsched.Point()
		return -1
	}
	vsched.Point()
	return len(node.value)
}

// FillInStringLength returns the minimun and the maximum string length that can be
// filled into the variable of this ASCIINode.
//
// Return value of -1 means no limit.
// If the node doesn't have variable, it will return (-2, -2).
func (node *ASCIINode) FillInStringLength() (min int, max int) {
	vsched.Point()
	if node.isValue {
		vsched.Point()
		return -2, -2
	}
	vsched.Point()
	return node.variable.minLength, node.variable.maxLength
}

// Variables implements DataItemNode.Variables().
func (node *ASCIINode) Variables() []string {
	vsched.Point()
	if node.isValue {
		vsched.Point()
		return []string{}
	}
	vsched.Point()
	return []string{node.variable.name}
}

// FillVariables implements ItemNode.FillVariables().
//
// The fill-in value must be acceptable by the NewASCIINode factory method, and
// it should be in range of the fill-in string length.
func (node *ASCIINode) FillVariables(values map[string]interface{}) ItemNode {
	vsched.Point()
	if node.isValue {
		vsched.Point()
		return node
	}
	vsched.Point()

	if _, ok := values[node.variable.name]; !ok {
		vsched.Point()
		return node
	}
	vsched.Point()

	value, ok := values[node.variable.name].(string)
	vsched.Point()
	if !ok {
		vsched.Point()
		panic("fill-in value has invalid type for ASCIINode")
	}
	vsched.Point()

	if len(value) < node.variable.minLength {
		vsched.Point()
		panic("fill-in string length overflow")
	}
	vsched.Point()

	if node.variable.maxLength != -1 && node.variable.maxLength < len(value) {
		vsched.Point()
		panic("fill-in string length overflow")
	}
	vsched.Point()

	return NewASCIINode(value)
}

// ToBytes implements ItemNode.ToBytes()
func (node *ASCIINode) ToBytes() []byte {
	vsched.Point()
	if !node.isValue {
		vsched.Point()
		return []byte{}
	}
	vsched.Point()

	result, err := getHeaderBytes("ascii", node.Size())
	vsched.Point()
	if err != nil {
		vsched.Point()
		return []byte{}
	}
	vsched.Point()

	for _, ch := range node.value {
		vsched.Point()
		result = append(result, byte(ch))
	}
	vsched.Point()

	return result
}

// String returns the string representation of the node.
func (node *ASCIINode) String() string {
	vsched.Point()
	if !node.isValue {
		vsched.Point()
		var lengthStr string
		vsched.Point()
		min, max := node.variable.minLength, node.variable.maxLength
		vsched.Point()

		if min == 0 && max == -1 {
			// empty lengthStr
		} else if min == max {
			vsched.Point()
			lengthStr = fmt.Sprintf("[%d]", max)
		} else if max == -1 {
			vsched.Point()
			lengthStr = fmt.Sprintf("[%d..]", min)
		} else {
			vsched.Point()
			lengthStr = fmt.Sprintf("[%d..%d]", min, max)
		}
		vsched.Point()
		return fmt.Sprintf("<A%s %s>", lengthStr, node.variable.name)
	}
	vsched.Point()

	if node.value == "" {
		vsched.Point()
		return "<A[0]>"
	}
	vsched.Point()

	var sb strings.Builder
	vsched.Point()
	printableState := false
	vsched.Point()
	for _, ch := range node.value {
		vsched.Point()
		if ch < 32 || ch == 127 || ch == '"' {
			vsched.
				// ch is a non-printable control character, or the double quote,
				// which cannot be written inside a quoted string
				// 32: space, which is the first printable character, 127: del
				Point()

			if printableState {
				vsched.Point()
				printableState = false
				vsched.Point()
				sb.WriteString(`"`) // Close double quote
			}
			vsched.Point()
			fmt.Fprintf(&sb, " 0x%02X", ch) // 0xNN format
		} else {
			vsched.
				// c is a printable character
				Point()

			if !printableState {
				vsched.Point()
				printableState = true
				vsched.Point()
				sb.WriteString(` "`) // Open double quote
			}
			vsched.Point()
			sb.WriteRune(ch)
		}
	}
	vsched.
		// Close the double quote if in printable state
		Point()

	if printableState {
		vsched.Point()
		sb.WriteString(`"`)
	}
	vsched.Point()

	return fmt.Sprintf(`<A%s>`, sb.String())
}

// Private methods

func (node *ASCIINode) checkRep() {
	vsched.Point()
	if node.isValue {
		vsched.Point()
		if node.variable.name != "" || node.variable.minLength != 0 || node.variable.maxLength != 0 {
			vsched.Point()
			panic("value and variable should not be used at the same time")
		}
		vsched.Point()

		for _, ch := range node.value {
			vsched.Point()
			if ch > unicode.MaxASCII {
				vsched.Point()
				panic("encountered non-ASCII character")
			}
		}
	} else {
		vsched.Point()
		if node.value != "" {
			vsched.Point()
			panic("value and variable should not be used at the same time")
		}
		vsched.Point()

		if !isValidVarName(node.variable.name) {
			vsched.Point()
			panic("invalid variable name")
		}
		vsched.Point()

		if node.variable.minLength < 0 || node.variable.maxLength < -1 {
			vsched.Point()
			panic("invalid fill-in string length")
		}
		vsched.Point()

		if node.variable.maxLength != -1 {
			vsched.Point()
			if node.variable.minLength > node.variable.maxLength {
				vsched.Point()
				panic("invalid fill-in string length")
			}
		}
	}
}
