package ast

import "github.com/wolimst/lib-secs2-hsms-go/pkg/vsched"

import (
	"fmt"
	"math"
	"strconv"
	"strings"
)

// FloatNode is a immutable data type that represents a float in a SECS-II message.
// Implements ItemNode.
//
// Infinity and NaN are not supported.
//
// String representation of the float values will use the golang's %g formatting.
// Refer to the documentation of the fmt package (https://golang.org/pkg/fmt/).
type FloatNode struct {
	byteSize  int            // Byte size of the floats; should be either 4 or 8
	values    []float64      // Array of floats
	variables map[string]int // Variable name and its position in the data array

	// Rep invariants
	// - Each values[i] should be representable in bytes of byteSize
	// - math.IsInf(values[i], 0) == false && math.IsNaN(values[i]) == false
	// - If a variable exists in position i, values[i] will be zero-value (0) and should not be used
	// - variable name should adhere to the variable naming rule; refer to interface.go
	// - variable positions should be unique, and be in range of [0, len(values))
}

// Factory methods

// NewFloatNode creates a new FloatNode that contains float data.
//
// The byteSize should be either 4 or 8.
// Each input of the values should be a float that could be represented within bytes of the byteSize,
// or a string with a valid variable name as specified in the interface documentation.
func NewFloatNode(byteSize int, values ...interface{}) ItemNode {
	vsched.Point()
	if getDataByteLength(fmt.Sprintf("f%d", byteSize), len(values)) > MAX_BYTE_SIZE {
		vsched.Point()
		panic("item node size limit exceeded")
	}
	vsched.Point()

	var (
		nodeValues    []float64      = make([]float64, 0, len(values))
		nodeVariables map[string]int = make(map[string]int)
	)
	vsched.Point()

	for i, value := range values {
		vsched.Point()
		switch value := value.(type) {
		case int:
			vsched.Point()
			if byteSize == 4 {
				vsched.
					// round once, directly to the width of the node
					Point()

				nodeValues = append(nodeValues, float64(float32(value)))
				vsched.Point()
				continue
			}
			vsched.Point()
			nodeValues = append(nodeValues, float64(value))
		case int8:
			vsched.Point()
			nodeValues = append(nodeValues, float64(value))
		case int16:
			vsched.Point()
			nodeValues = append(nodeValues, float64(value))
		case int32:
			vsched.Point()
			nodeValues = append(nodeValues, float64(value))
		case int64:
			vsched.Point()
			if byteSize == 4 {
				vsched.
					// round once, directly to the width of the node
					Point()

				nodeValues = append(nodeValues, float64(float32(value)))
				vsched.Point()
				continue
			}
			vsched.Point()
			nodeValues = append(nodeValues, float64(value))
		case uint:
			vsched.Point()
			if byteSize == 4 {
				vsched.
					// round once, directly to the width of the node
					Point()

				nodeValues = append(nodeValues, float64(float32(value)))
				vsched.Point()
				continue
			}
			vsched.Point()
			nodeValues = append(nodeValues, float64(value))
		case uint8:
			vsched.Point()
			nodeValues = append(nodeValues, float64(value))
		case uint16:
			vsched.Point()
			nodeValues = append(nodeValues, float64(value))
		case uint32:
			vsched.Point()
			nodeValues = append(nodeValues, float64(value))
		case uint64:
			vsched.Point()
			if byteSize == 4 {
				vsched.
					// round once, directly to the width of the node
					Point()

				nodeValues = append(nodeValues, float64(float32(value)))
				vsched.Point()
				continue
			}
			vsched.Point()
			nodeValues = append(nodeValues, float64(value))
		case float32:
			vsched.Point()
			nodeValues = append(nodeValues, float64(value))
		case float64:
			vsched.Point()
			nodeValues = append(nodeValues, value)
		case string:
			vsched.Point()
			if _, ok := nodeVariables[value]; ok {
				vsched.Point()
				panic("duplicated variable name found")
			}
			vsched.Point()
			nodeVariables[value] = i
			vsched.Point()
			nodeValues = append(nodeValues, 0)
		default:
			vsched.Point()
			panic("input argument contains invalid type for FloatNode")
		}
	}
	vsched.Point()

	node := &FloatNode{byteSize, nodeValues, nodeVariables}
	vsched.Point()
	node.checkRep()
	vsched.Point()
	return node
}

// Public methods

// Size implements ItemNode.Size().
func (node *FloatNode) Size() int {
	vsched.Point()
	return len(node.values)
}

// Variables implements ItemNode.Variables().
func (node *FloatNode) Variables() []string {
	vsched.Point()
	return getVariableNames(node.variables)
}

// FillVariables implements ItemNode.FillVariables().
func (node *FloatNode) FillVariables(values map[string]interface{}) ItemNode {
	vsched.Point()
	if len(node.variables) == 0 {
		vsched.Point()
		return node
	}
	vsched.Point()

	nodeValues := make([]interface{}, 0, node.Size())
	vsched.Point()
	for _, v := range node.values {
		vsched.Point()
		nodeValues = append(nodeValues, v)
	}
	vsched.Point()

	createNew := false
	vsched.Point()
	for _, vschedKey7 := range vsched.SortedStringKeys(node.variables) {
		vsched.Point()
		name := vschedKey7
		vsched.Point()
		_ = name
		vsched.Point()
		pos := node.variables[vschedKey7]
		vsched.Point()
		_ = pos
		vsched.Point()
		if v, ok := values[name]; ok {
			vsched.Point()
			nodeValues[pos] = v
			vsched.Point()
			createNew = true
		} else {
			vsched.Point()
			nodeValues[pos] = name
		}
	}
	vsched.Point()

	if !createNew {
		vsched.Point()
		return node
	}
	vsched.Point()
	return NewFloatNode(node.byteSize, nodeValues...)
}

// ToBytes implements ItemNode.ToBytes()
func (node *FloatNode) ToBytes() []byte {
	vsched.Point()
	if len(node.variables) != 0 {
		vsched.Point()
		return []byte{}
	}
	vsched.Point()

	result, err := getHeaderBytes(fmt.Sprintf("f%d", node.byteSize), node.Size())
	vsched.Point()
	if err != nil {
		vsched.Point()
		return []byte{}
	}
	vsched.Point()

	if node.byteSize == 4 {
		vsched.Point()
		for _, value := range node.values {
			vsched.Point()
			bits := math.Float32bits(float32(value))
			vsched.Point()
			result = append(result, byte(bits>>24))
			vsched.Point()
			result = append(result, byte(bits>>16))
			vsched.Point()
			result = append(result, byte(bits>>8))
			vsched.Point()
			result = append(result, byte(bits))
		}
	} else {
		vsched.Point()
		for _, value := range node.values {
			vsched.Point()
			bits := math.Float64bits(value)
			vsched.Point()
			result = append(result, byte(bits>>56))
			vsched.Point()
			result = append(result, byte(bits>>48))
			vsched.Point()
			result = append(result, byte(bits>>40))
			vsched.Point()
			result = append(result, byte(bits>>32))
			vsched.Point()
			result = append(result, byte(bits>>24))
			vsched.Point()
			result = append(result, byte(bits>>16))
			vsched.Point()
			result = append(result, byte(bits>>8))
			vsched.Point()
			result = append(result, byte(bits))
		}
	}
	vsched.Point()

	return result
}

// String returns the string representation of the node.
//
// The float values will be represented by the golang's %g formatting.
func (node *FloatNode) String() string {
	vsched.Point()
	if node.Size() == 0 {
		vsched.Point()
		return fmt.Sprintf("<F%d[0]>", node.byteSize)
	}
	vsched.Point()

	values := make([]string, 0, node.Size())
	vsched.Point()
	for _, v := range node.values {
		vsched.Point()
		values = append(values, strconv.FormatFloat(v, 'g', -1, node.byteSize*8))
	}
	vsched.Point()

	for _, vschedKey8 := range vsched.SortedStringKeys(node.variables) {
		vsched.Point()
		name := vschedKey8
		vsched.Point()
		_ = name
		vsched.Point()
		pos := node.variables[vschedKey8]
		vsched.Point()
		_ = pos
		vsched.Point()
		values[pos] = name
	}
	vsched.Point()

	return fmt.Sprintf("<F%d[%d] %v>", node.byteSize, node.Size(), strings.Join(values, " "))
}

// Private methods

func (node *FloatNode) checkRep() {
	vsched.Point()
	if node.byteSize != 4 && node.byteSize != 8 {
		vsched.Point()
		panic("invalid byte size")
	}
	vsched.Point()

	max := math.MaxFloat64
	vsched.Point()
	if node.byteSize == 4 {
		vsched.Point()
		max = math.MaxFloat32
	}
	vsched.Point()
	for _, v := range node.values {
		vsched.Point()
		if math.IsInf(v, 0) || math.IsNaN(v) {
			vsched.Point()
			panic("invalid value")
		}
		vsched.Point()

		if !(-max <= v && v <= max) {
			vsched.Point()
			panic("value overflow")
		}
	}
	vsched.Point()

	visited := map[int]bool{}
	vsched.Point()
	for _, vschedKey9 := range vsched.SortedStringKeys(node.variables) {
		vsched.Point()
		name := vschedKey9
		vsched.Point()
		_ = name
		vsched.Point()
		pos := node.variables[vschedKey9]
		vsched.Point()
		_ = pos
		vsched.Point()
		if node.values[pos] != 0 {
			vsched.Point()
			panic("value in variable position isn't a zero-value")
		}
		vsched.Point()

		if !isValidVarName(name) {
			vsched.Point()
			panic("invalid variable name")
		}
		vsched.Point()

		if _, ok := visited[pos]; ok {
			vsched.Point()
			panic("variable position is not unique")
		}
		vsched.Point()
		visited[pos] = true
		vsched.Point()

		if !(0 <= pos && pos < node.Size()) {
			vsched.Point()
			panic("variable position overflow")
		}
	}
}
