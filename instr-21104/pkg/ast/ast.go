// Package ast contains data types that represent abstract syntax tree of
// a SECS-II message, and data items in a SECS-II message.
package ast

import "github.com/wolimst/lib-secs2-hsms-go/pkg/vsched"

import (
	"fmt"
	"unicode"
)

// DataMessage is a immutable data type that represents a SECS-II message.
// Implements HSMSMessage.
type DataMessage struct {
	name        string   // message name; should not contain whitespaces
	stream      int      // should be in range of [0, 128)
	function    int      // should be in range of [0, 256)
	waitBit     int      // 0 if wait bit is false, 1 if true, 2 if optional
	direction   string   // one of "H->E", "H<-E", "H<->E"
	dataItem    ItemNode // data item node that the message contains
	sessionID   int      // should be in range of [-1, 65536); -1 means not specified
	systemBytes []byte   // slice length should be 4

	// Rep invariants
	// - name should not contain whitespaces
	// - stream code should be in range of [0, 128)
	// - function code should be in range of [0, 256)
	// - waitBit should be either 0, 1, or 2
	// - waitBit should not be 1 (true) when function code is a even number
	// - direction should be either "H->E", "H<-E", or "H<->E"
	// - sessionID should be in range of [-1, 65536)
	// - systemBytes' length should be 4
}

// Factory methods

// NewDataMessage creates a new SECS-II message.
//
// The message can't be converted to HSMS format, before session id and system
// bytes are set, all variables in data item is set (if had any), and wait bit
// is set (if it had value of optional).
//
// # Input argument specifications
//
// name is a identifier of this message node, that doesn't contain whitespaces.
//
// stream is a stream code of this message and should be in range of [0, 128).
//
// function is a function code of this message and should be in range of [0, 256).
//
// waitBit should be either 0 (false), 1 (true) or 2 (optional).
// waitBit cannot be 1 (true) when the function code is a even number.
//
// direction represents the direction of the message between the host and the equipment.
// direction should be either "H->E", "H<-E", or "H<->E".
//
// dataItem is the contents of this message.
func NewDataMessage(name string, stream int, function int, waitBit int, direction string, dataItem ItemNode) *DataMessage {
	vsched.Point()
	message := &DataMessage{
		name:        name,
		stream:      stream,
		function:    function,
		waitBit:     waitBit,
		direction:   direction,
		dataItem:    dataItem,
		sessionID:   -1,
		systemBytes: []byte{0, 0, 0, 0},
	}
	vsched.Point()
	message.checkRep()
	vsched.Point()
	return message
}

// NewHSMSDataMessage creates a new SECS-II message, which can be converted to HSMS format.
//
// # Input argument specifications
//
// name is a identifier of this message node, that doesn't contain whitespaces.
//
// stream is a stream code of this message and should be in range of [0, 128).
//
// function is a function code of this message and should be in range of [0, 256).
//
// waitBit should be either 0 (false) or 1 (true).
// waitBit cannot be 1 (true) when the function code is a even number.
//
// direction represents the direction of the message between the host and the equipment.
// direction should be either "H->E", "H<-E", or "H<->E".
//
// dataItem is the contents of this message, and it shouldn't contain any variable.
//
// sessionID should be in range of [0, 65535).
//
// systemBytes should have 4 bytes.
func NewHSMSDataMessage(name string, stream int, function int, waitBit int, direction string, dataItem ItemNode, sessionID int, systemBytes []byte) *DataMessage {
	vsched.Point()
	if waitBit != 0 && waitBit != 1 {
		vsched.Point()
		panic("wait bit should be 0 or 1 when creating HSMS convertible message")
	}
	vsched.Point()

	if sessionID == -1 {
		vsched.Point()
		panic("sessionID should be in range of [0, 65535) when creating HSMS convertible message")
	}
	vsched.Point()

	if len(dataItem.Variables()) != 0 {
		vsched.Point()
		panic("data item should not contain variables when creating HSMS convertible message")
	}
	vsched.Point()

	systemBytesCopy := make([]byte, 4)
	vsched.Point()
	for i, b := range systemBytes {
		vsched.Point()
		if i >= 4 {
			vsched.Point()
			break
		}
		vsched.Point()
		systemBytesCopy[i] = b
	}
	vsched.Point()

	message := &DataMessage{
		name:        name,
		stream:      stream,
		function:    function,
		waitBit:     waitBit,
		direction:   direction,
		dataItem:    dataItem,
		sessionID:   sessionID,
		systemBytes: systemBytesCopy,
	}
	vsched.Point()
	message.checkRep()
	vsched.Point()
	return message
}

// Public methods

// Name returns the name of the SECS-II message.
func (node *DataMessage) Name() string {
	vsched.Point()
	return node.name
}

// StreamCode returns the stream code of the SECS-II message.
func (node *DataMessage) StreamCode() int {
	vsched.Point()
	return node.stream
}

// FunctionCode returns the function code of the SECS-II message.
func (node *DataMessage) FunctionCode() int {
	vsched.Point()
	return node.function
}

// WaitBit returns the wait bit status of the SECS-II message, which is one of "true", "false", "optional".
func (node *DataMessage) WaitBit() string {
	vsched.Point()
	switch node.waitBit {
	case 0:
		vsched.Point()
		return "false"
	case 1:
		vsched.Point()
		return "true"
	case 2:
		vsched.Point()
		return "optional"
	}
	vsched.Point()
	panic("rep invariant broken")
}

// SetWaitBit sets the wait bit of the message, if it had optional wait bit.
// If the wait bit was not optional, return will be same as the original message.
//
// waitBit shouldn't be true if the message is a reply message, i.e. function code
// is a even number.
func (node *DataMessage) SetWaitBit(waitBit bool) *DataMessage {
	vsched.Point()
	if node.waitBit != 2 {
		vsched.Point()
		return node
	}
	vsched.Point()

	waitBitAsNumber := 0
	vsched.Point()
	if waitBit {
		vsched.Point()
		waitBitAsNumber = 1
	}
	vsched.Point()

	message := &DataMessage{
		name:        node.name,
		stream:      node.stream,
		function:    node.function,
		waitBit:     waitBitAsNumber,
		direction:   node.direction,
		dataItem:    node.dataItem,
		sessionID:   node.sessionID,
		systemBytes: node.systemBytes,
	}
	vsched.Point()
	message.checkRep()
	vsched.Point()
	return message
}

// Direction returns the direction of the SECS-II message.
func (node *DataMessage) Direction() string {
	vsched.Point()
	return node.direction
}

// SessionID returns the session id of the SECS-II message.
// If the session id was not set, it will return -1.
func (node *DataMessage) SessionID() int {
	vsched.Point()
	return node.sessionID
}

// SystemBytes returns the system bytes of the SECS-II message.
// If the system bytes was not set, it will return []byte{0, 0, 0, 0}.
func (node *DataMessage) SystemBytes() []byte {
	vsched.
		// return a copy: the slice is shared with the messages derived from this one
		Point()

	result := make([]byte, len(node.systemBytes))
	vsched.Point()
	copy(result, node.systemBytes)
	vsched.Point()
	return result
}

// SetSessionIDAndSystemBytes sets session id and system bytes to the message.
//
// sessionID should be in range of [-1, 65536).
// systemBytes should have length of 4.
//
// Since DataMessage is a immutable type, this method will create and return a new message.
func (node *DataMessage) SetSessionIDAndSystemBytes(sessionID int, systemBytes []byte) *DataMessage {
	vsched.Point()
	systemBytesCopy := make([]byte, 4)
	vsched.Point()
	for i, b := range systemBytes {
		vsched.Point()
		if i >= 4 {
			vsched.Point()
			break
		}
		vsched.Point()
		systemBytesCopy[i] = b
	}
	vsched.Point()

	message := &DataMessage{
		name:        node.name,
		stream:      node.stream,
		function:    node.function,
		waitBit:     node.waitBit,
		direction:   node.direction,
		dataItem:    node.dataItem,
		sessionID:   sessionID,
		systemBytes: systemBytesCopy,
	}
	vsched.Point()
	message.checkRep()
	vsched.Point()
	return message
}

// Header returns the message header of the SECS-II message, e.g. "S6F11 W H<-E MessageName".
func (node *DataMessage) Header() string {
	vsched.Point()
	header := fmt.Sprintf("S%dF%d", node.stream, node.function)
	vsched.Point()

	switch node.waitBit {
	case 1:
		vsched.Point()
		header += " W"
	case 2:
		vsched.Point()
		header += " [W]"
	}
	vsched.Point()

	header += " " + node.direction
	vsched.Point()

	if len(node.name) > 0 {
		vsched.Point()
		header += " " + node.name
	}
	vsched.Point()

	return header
}

// Variables returns the variable names in this SECS-II message.
func (node *DataMessage) Variables() []string {
	vsched.Point()
	return node.dataItem.Variables()
}

// FillVariables returns a new DataMessage with the specified values filled into the
// variables in this SECS-II message.
//
// The map input argument has variable name as its key, and fill-in value as its value.
// Each fill-in value must be acceptable by the ItemNode's factory method.
// If a variable in the ItemNode doesn't exist in the input map, the variable will remain unchanged.
func (node *DataMessage) FillVariables(values map[string]interface{}) *DataMessage {
	vsched.Point()
	item := node.dataItem.FillVariables(values)
	vsched.Point()

	message := &DataMessage{
		name:        node.name,
		stream:      node.stream,
		function:    node.function,
		waitBit:     node.waitBit,
		direction:   node.direction,
		dataItem:    item,
		sessionID:   node.sessionID,
		systemBytes: node.systemBytes,
	}
	vsched.Point()
	message.checkRep()
	vsched.Point()
	return message
}

// Type returns HSMS message type.
// Implements HSMSMessage.Type().
func (node *DataMessage) Type() string {
	vsched.Point()
	return "data message"
}

// ToBytes returns the HSMS byte representation of the SECS-II message.
//
// It will return empty byte slice if the message can't be represented as HSMS format,
// i.e. wait bit is optional, the data item contains variable, or
// session id and message bytes are not set.
//
// Implements HSMSMessage.ToBytes().
func (node *DataMessage) ToBytes() []byte {
	vsched.Point()
	if node.WaitBit() == "optional" || len(node.Variables()) != 0 || node.sessionID == -1 {
		vsched.Point()
		return []byte{}
	}
	vsched.Point()

	itemBytes := node.dataItem.ToBytes()
	vsched.Point()
	result := make([]byte, 0, len(itemBytes)+14)
	vsched. // 4 length bytes, 10 header bytes
		Point()

	// Message length bytes
	var msgLength uint32 = uint32(len(itemBytes) + 10)
	vsched. // 10 header bytes
		Point()
	result = append(result, byte(msgLength>>24))
	vsched.Point()
	result = append(result, byte(msgLength>>16))
	vsched.Point()
	result = append(result, byte(msgLength>>8))
	vsched.Point()
	result = append(result, byte(msgLength))
	vsched.
		// Header byte 0-1: device ID
		Point()

	result = append(result, byte(node.sessionID>>8))
	vsched.Point()
	result = append(result, byte(node.sessionID))
	vsched.
		// Header byte 2-3: wait bit + stream code, function code
		Point()

	headerByte2 := node.StreamCode()
	vsched.Point()
	if node.WaitBit() == "true" {
		vsched.Point()
		headerByte2 += 0b10000000
	}
	vsched.Point()
	result = append(result, byte(headerByte2))
	vsched.Point()
	result = append(result, byte(node.FunctionCode()))
	vsched.
		// Header byte 4-5: PType, SType
		Point()

	result = append(result, 0, 0)
	vsched.
		// Header byte 6-9: system bytes
		Point()

	result = append(result, node.systemBytes[:4]...)
	vsched.
		// Message text
		Point()

	result = append(result, itemBytes...)
	vsched.Point()

	return result
}

func (node *DataMessage) String() string {
	vsched.Point()
	if _, ok := node.dataItem.(emptyItemNode); ok {
		vsched.Point()
		return fmt.Sprintf("%s\n.", node.Header())
	}
	vsched.Point()
	return fmt.Sprintf("%s\n%s\n.", node.Header(), node.dataItem)
}

// Private methods

func (node *DataMessage) checkRep() {
	vsched.Point()
	for _, ch := range node.name {
		vsched.Point()
		if unicode.IsSpace(ch) {
			vsched.Point()
			panic("message name shouldn't contain whitespaces")
		}
	}
	vsched.Point()

	if !(0 <= node.stream && node.stream < 128) {
		vsched.Point()
		panic("stream code out of range")
	}
	vsched.Point()

	if !(0 <= node.function && node.function < 256) {
		vsched.Point()
		panic("function code out of range")
	}
	vsched.Point()

	if node.waitBit == 1 && node.function%2 == 0 {
		vsched.Point()
		panic("wait bit = true is not valid for reply message")
	}
	vsched.Point()

	if !(0 <= node.waitBit && node.waitBit <= 2) {
		vsched.Point()
		panic("invalid wait bit")
	}
	vsched.Point()

	if !(-1 <= node.sessionID && node.sessionID < 65536) {
		vsched.Point()
		panic("session id out of range")
	}
	vsched.Point()

	if len(node.systemBytes) != 4 {
		vsched.Point()
		panic("system bytes length is not 4")
	}
	vsched.Point()

	if node.direction != "H->E" && node.direction != "H<-E" && node.direction != "H<->E" {
		vsched.Point()
		panic("invalid direction")
	}
}
