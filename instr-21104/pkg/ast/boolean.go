package ast

import "github.com/wolimst/lib-secs2-hsms-go/pkg/vsched"

import (
	"fmt"
	"strings"
)

// BinaryNode is a immutable data type that represents a binary data item in a SECS-II message.
// Implements ItemNode.
type BooleanNode struct {
	values    []bool         // Array of boolean values
	variables map[string]int // Variable name and its position in the data array

	// Rep invariants
	// - If a variable exists in position i, values[i] will be zero-value (false) and should not be used.
	// - variable name should adhere to the variable naming rule; refer to interface.go
	// - variable positions should be unique, and be in range of [0, len(values))
}

// Factory methods

// NewBooleanNode creates a new BooleanNode.
//
// Each input argument should be a bool, or a string with a valid variable name
// as specified in the interface documentation.
func NewBooleanNode(values ...interface{}) ItemNode {
	vsched.Point()
	if getDataByteLength("binary", len(values)) > MAX_BYTE_SIZE {
		vsched.Point()
		panic("item node size limit exceeded")
	}
	vsched.Point()

	var (
		nodeValues    []bool         = make([]bool, 0, len(values))
		nodeVariables map[string]int = make(map[string]int)
	)
	vsched.Point()

	for i, value := range values {
		vsched.Point()
		if v, ok := value.(bool); ok {
			vsched.
				// value is a bool
				Point()

			nodeValues = append(nodeValues, v)
		} else if v, ok := value.(string); ok {
			vsched.
				// value is a variable
				Point()

			if _, ok := nodeVariables[v]; ok {
				vsched.Point()
				panic("duplicated variable name found")
			}
			vsched.Point()
			nodeVariables[v] = i
			vsched.Point()
			nodeValues = append(nodeValues, false)
		} else {
			vsched.Point()
			panic("input argument contains invalid type for BooleanNode")
		}
	}
	vsched.Point()

	node := &BooleanNode{nodeValues, nodeVariables}
	vsched.Point()
	node.checkRep()
	vsched.Point()
	return node
}

// Public methods

// Size implements ItemNode.Size().
func (node *BooleanNode) Size() int {
	vsched.Point()
	return len(node.values)
}

// Variables implements ItemNode.Variables().
func (node *BooleanNode) Variables() []string {
	vsched.Point()
	return getVariableNames(node.variables)
}

// FillVariables implements ItemNode.FillVariables().
func (node *BooleanNode) FillVariables(values map[string]interface{}) ItemNode {
	vsched.Point()
	if len(node.variables) == 0 {
		vsched.Point()
		return node
	}
	vsched.Point()

	nodeValues := make([]interface{}, 0, node.Size())
	vsched.Point()
	for _, v := range node.values {
		vsched.Point()
		nodeValues = append(nodeValues, v)
	}
	vsched.Point()

	createNew := false
	vsched.Point()
	for _, vschedKey4 := range vsched.SortedStringKeys(node.variables) {
		vsched.Point()
		name := vschedKey4
		vsched.Point()
		_ = name
		vsched.Point()
		pos := node.variables[vschedKey4]
		vsched.Point()
		_ = pos
		vsched.Point()
		if v, ok := values[name]; ok {
			vsched.Point()
			nodeValues[pos] = v
			vsched.Point()
			createNew = true
		} else {
			vsched.Point()
			nodeValues[pos] = name
		}
	}
	vsched.Point()

	if !createNew {
		vsched.Point()
		return node
	}
	vsched.Point()
	return NewBooleanNode(nodeValues...)
}

// ToBytes implements ItemNode.ToBytes()
func (node *BooleanNode) ToBytes() []byte {
	vsched.Point()
	if len(node.variables) != 0 {
		vsched.Point()
		return []byte{}
	}
	vsched.Point()

	result, err := getHeaderBytes("boolean", node.Size())
	vsched.Point()
	if err != nil {
		vsched.Point()
		return []byte{}
	}
	vsched.Point()

	for _, value := range node.values {
		vsched.Point()
		if value {
			vsched.Point()
			result = append(result, 1)
		} else {
			vsched.Point()
			result = append(result, 0)
		}
	}
	vsched.Point()

	return result
}

// String returns the string representation of the node.
func (node *BooleanNode) String() string {
	vsched.Point()
	if node.Size() == 0 {
		vsched.Point()
		return "<BOOLEAN[0]>"
	}
	vsched.Point()

	values := make([]string, 0, node.Size())
	vsched.Point()
	for _, value := range node.values {
		vsched.Point()
		if value {
			vsched.Point()
			values = append(values, "T")
		} else {
			vsched.Point()
			values = append(values, "F")
		}
	}
	vsched.Point()

	for _, vschedKey5 := range vsched.SortedStringKeys(node.variables) {
		vsched.Point()
		name := vschedKey5
		vsched.Point()
		_ = name
		vsched.Point()
		pos := node.variables[vschedKey5]
		vsched.Point()
		_ = pos
		vsched.Point()
		values[pos] = name
	}
	vsched.Point()

	return fmt.Sprintf("<BOOLEAN[%d] %v>", node.Size(), strings.Join(values, " "))
}

// Private methods

func (node *BooleanNode) checkRep() {
	vsched.Point()
	visited := map[int]bool{}
	vsched.Point()
	for _, vschedKey6 := range vsched.SortedStringKeys(node.variables) {
		vsched.Point()
		name := vschedKey6
		vsched.Point()
		_ = name
		vsched.Point()
		pos := node.variables[vschedKey6]
		vsched.Point()
		_ = pos
		vsched.Point()
		if node.values[pos] {
			vsched.Point()
			panic("value in variable position isn't a zero-value")
		}
		vsched.Point()

		if !isValidVarName(name) {
			vsched.Point()
			panic("invalid variable name")
		}
		vsched.Point()

		if _, ok := visited[pos]; ok {
			vsched.Point()
			panic("variable position is not unique")
		}
		vsched.Point()
		visited[pos] = true
		vsched.Point()

		if !(0 <= pos && pos < node.Size()) {
			vsched.Point()
			panic("variable position overflow")
		}
	}
}
