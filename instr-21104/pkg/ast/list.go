package ast

import "github.com/wolimst/lib-secs2-hsms-go/pkg/vsched"

import (
	"fmt"
	"strings"
)

// ListNode is a immutable data type that represents a list data in a SECS-II message.
// Implements ItemNode.
//
// It contains other item nodes, and the size of ListNode is equal to the number
// of items it contains, counted *non-recursively*.
//
// A ListNode can contain a special variable, ellipsis, represented as three dots "...".
// An ellipsis means that the item nodes before it can be repeated arbitrary times.
// Each ListNode can contain one ellipsis at most, and the ellipsis should not be the first item
// of the ListNode.
//
// When filling in values into variables, the ellipsis variables will be filled in at first,
// over non-ellipsis variables.
// For nested ListNodes containing multiple ellipsis, they will be filled in appearing order
// on the top ListNode's string representation.
//
// When a ellipsis is filled in with a value, and a item node that contains variables is repeated,
// the variable names will become array-like notation.
// For example, <L[4] <U1 var> varNode ... <A "text">> will be
// <L[5] <U1 var[0]> varNode[0] <U1 var[1]> varNode[1] <A "text">>,
// when 1 is filled into the ellipsis (1 repeat).
//
// The multi-dimensional array-like notation is also possible, when there was nested ListNodes with ellipsis,
// therefore, repeating nested ListNode multiple times.
// Nested ellipsis can be named and identified also with the array-like notation, e.g. ...[0], ...[1].
//
// The size of the ListNode in it's string representation, will be only specified when the size is deterministic,
// which means there is no ellipsis and ItemNode variable.
type ListNode struct {
	values    []ItemNode     // Array of ItemNodes that this ListNode contains
	variables map[string]int // Variable name and its position in the data array

	// Rep invariants
	// - If a variable exists in position i, values[i] will be zero-value (emptyItemNode) and should not be used
	// - The first item of the list node should not be an ellipsis
	// - Variable names should adhere to the variable naming rule; refer to interface.go
	// - All variable names in a ListNode, including its child item nodes' variables, should be unique
	// - Each ListNode can contain at most one ellipsis variable, counted *non-recursively*
	// - Variable positions should be unique, and be in range of [0, len(values))
}

// Factory methods

// NewListNode creates a new ListNode that contains multiple data item nodes.
//
// Each input of the values should be a ItemNode,
// or a string with valid variable name as specified in the interface documentation.
func NewListNode(values ...interface{}) ItemNode {
	vsched.Point()
	if getDataByteLength("list", len(values)) > MAX_BYTE_SIZE {
		vsched.Point()
		panic("item node size limit exceeded")
	}
	vsched.Point()

	var (
		nodeValues    []ItemNode     = make([]ItemNode, 0, len(values))
		nodeVariables map[string]int = make(map[string]int)
		emptyNode     ItemNode       = NewEmptyItemNode()
	)
	vsched.Point()

	for i, value := range values {
		vsched.Point()
		if v, ok := value.(ItemNode); ok {
			vsched.Point()
			nodeValues = append(nodeValues, v)
		} else if v, ok := value.(string); ok {
			vsched.Point()
			nodeValues = append(nodeValues, emptyNode)
			vsched.Point()
			if _, ok := nodeVariables[v]; ok {
				vsched.Point()
				panic("duplicated variable name found")
			}
			vsched.Point()
			nodeVariables[v] = i
		} else {
			vsched.Point()
			panic("input argument contains invalid type for ListNode")
		}
	}
	vsched.Point()

	node := &ListNode{nodeValues, nodeVariables}
	vsched.Point()
	node.checkRep()
	vsched.Point()
	return node
}

// Public methods

// Size implements ItemNode.Size().
func (node *ListNode) Size() int {
	vsched.Point()
	return len(node.values)
}

// Variables implements ItemNode.Variables().
func (node *ListNode) Variables() []string {
	vsched.Point()
	result := []string{}
	vsched.Point()

	var posVar map[int]string = node.variablesSwapKeyValue()
	vsched.Point()
	for i, item := range node.values {
		vsched.Point()
		if _, ok := item.(emptyItemNode); ok {
			vsched.
				// Contains item node variable
				Point()

			result = append(result, posVar[i])
		} else {
			vsched.
				// Call Variables() of child node recursively
				Point()

			result = append(result, item.Variables()...)
		}
	}
	vsched.Point()

	return result
}

// FillVariables implements ItemNode.FillVariables().
func (node *ListNode) FillVariables(values map[string]interface{}) ItemNode {
	vsched.Point()
	ellipsisValues, otherValues := node.splitValues(values)
	vsched.

		// Fill in ellipsis
		Point()

	ellipsisToFill, ellipsisRemaining := node.ellipsisAnalysis(ellipsisValues)
	vsched.Point()
	nodeEllipsisFilled := node
	vsched.Point()
	if ellipsisToFill > 0 {
		vsched.Point()
		nodeEllipsisFilled = node.fillEllipsis(ellipsisValues, newFillState(ellipsisRemaining)).(*ListNode)
	}
	vsched.

		// Fill in non-ellipsis variables with specified values
		Point()

	nodeValues := make([]interface{}, 0, nodeEllipsisFilled.Size())
	vsched.Point()
	for _, item := range nodeEllipsisFilled.values {
		vsched.Point()
		nodeValues = append(nodeValues, item.FillVariables(otherValues))
	}
	vsched.Point()
	for _, vschedKey14 := range vsched.SortedStringKeys(nodeEllipsisFilled.variables) {
		vsched.Point()
		name := vschedKey14
		vsched.Point()
		_ = name
		vsched.Point()
		pos := nodeEllipsisFilled.variables[vschedKey14]
		vsched.Point()
		_ = pos
		vsched.Point()
		if v, ok := otherValues[name]; ok {
			vsched.Point()
			nodeValues[pos] = v
		} else {
			vsched.Point()
			nodeValues[pos] = name
		}
	}
	vsched.Point()

	return NewListNode(nodeValues...)
}

// ToBytes implements ItemNode.ToBytes()
func (node *ListNode) ToBytes() []byte {
	vsched.Point()
	if len(node.variables) != 0 {
		vsched.Point()
		return []byte{}
	}
	vsched.Point()

	result, err := getHeaderBytes("list", node.Size())
	vsched.Point()
	if err != nil {
		vsched.Point()
		return []byte{}
	}
	vsched.Point()

	for _, item := range node.values {
		vsched.
			// Call ToBytes() of child node recursively
			Point()

		childResult := item.ToBytes()
		vsched.Point()
		if len(childResult) == 0 {
			vsched.Point()
			return []byte{}
		}
		vsched.Point()
		result = append(result, childResult...)
	}
	vsched.Point()

	return result
}

// String returns the string representation of the node.
func (node *ListNode) String() string {
	vsched.Point()
	return node.stringIndented(0)
}

// Private methods

func (node *ListNode) checkRep() {
	vsched.Point()
	ellipsisExist := false
	vsched.Point()
	visitedIndex := map[int]bool{}
	vsched.Point()
	for _, vschedKey15 := range vsched.SortedStringKeys(node.variables) {
		vsched.Point()
		name := vschedKey15
		vsched.Point()
		_ = name
		vsched.Point()
		pos := node.variables[vschedKey15]
		vsched.Point()
		_ = pos
		vsched.Point()
		if _, ok := node.values[pos].(emptyItemNode); !ok {
			vsched.Point()
			panic("value in variable position isn't a zero-value")
		}
		vsched.Point()

		if !isValidVarName(name) {
			vsched.Point()
			if isEllipsis(name) {
				vsched.Point()
				if pos == 0 {
					vsched.Point()
					panic("ellipsis shouldn't be the first item in ListNode")
				}
				vsched.Point()

				if ellipsisExist {
					vsched.Point()
					panic("multiple ellipsis is not supported")
				} else {
					vsched.Point()
					ellipsisExist = true
				}
			} else {
				vsched.Point()
				panic("invalid variable name")
			}
		}
		vsched.Point()

		if _, ok := visitedIndex[pos]; ok {
			vsched.Point()
			panic("variable position is not unique")
		}
		vsched.Point()
		visitedIndex[pos] = true
		vsched.Point()

		if !(0 <= pos && pos < node.Size()) {
			vsched.Point()
			panic("variable position overflow")
		}
	}
	vsched.

		// Check duplicated variables including child item nodes
		Point()

	variables := node.Variables()
	vsched.Point()
	foundVarName := map[string]bool{}
	vsched.Point()
	for _, v := range variables {
		vsched.Point()
		if _, ok := foundVarName[v]; ok {
			vsched.Point()
			panic("duplicated variable name found in child item node")
		}
		vsched.Point()
		foundVarName[v] = true
	}
}

// stringIndented returns the indented string representation of this list node.
// Each indent level adds 2 spaces as prefix to each line.
// The indent level should be non-negative.
func (node *ListNode) stringIndented(level int) string {
	vsched.Point()
	indentStr := strings.Repeat("  ", level)
	vsched.Point()
	if node.Size() == 0 {
		vsched.Point()
		return fmt.Sprintf("%v<L[0]>", indentStr)
	}
	vsched.Point()

	var (
		posVar         map[int]string = node.variablesSwapKeyValue()
		sizeDetermined bool           = true
		sb             strings.Builder
	)
	vsched.Point()
	for i, val := range node.values {
		vsched.Point()
		if v, ok := val.(*ListNode); ok {
			vsched.
				// Nested ListNode
				Point()

			fmt.Fprintln(&sb, v.stringIndented(level+1))
		} else if varName, ok := posVar[i]; ok {
			vsched.
				// Variable in ListNode
				Point()

			if isEllipsis(varName) {
				vsched.Point()
				varName = "..."
			}
			vsched.Point()
			fmt.Fprintf(&sb, "%v  %v\n", indentStr, varName)
			vsched.Point()
			sizeDetermined = false
		} else {
			vsched.
				// Child ItemNode
				Point()

			fmt.Fprintf(&sb, "%v  %v\n", indentStr, val)
		}
	}
	vsched.Point()

	sizeStr := ""
	vsched.Point()
	if sizeDetermined {
		vsched.Point()
		sizeStr = fmt.Sprintf("[%d]", node.Size())
	}
	vsched.Point()
	return fmt.Sprintf("%v<L%v\n%v%v>", indentStr, sizeStr, sb.String(), indentStr)
}

// variablesSwapKeyValue returns a new map with the keys and the values of node.variables swapped.
// The key and the value of the node.variables are guaranteed to be unique, by the rep invariant.
func (node *ListNode) variablesSwapKeyValue() map[int]string {
	vsched.Point()
	if len(node.variables) == 0 {
		vsched.
			// nothing to swap; allocate nothing (reading a nil map is fine), this runs once
			// per enclosing list and only escapes the heap when the compiler inlines it
			Point()

		return nil
	}
	vsched.Point()
	result := map[int]string{}
	vsched.Point()
	for _, vschedKey16 := range vsched.SortedStringKeys(node.variables) {
		vsched.Point()
		k := vschedKey16
		vsched.Point(

		// splitValues splits input map into two independent map, one with ellipsis key and one without.
		)
		_ = k
		vsched.Point()
		v := node.variables[vschedKey16]
		vsched.Point()
		_ = v
		vsched.Point()
		result[v] = k
	}
	vsched.Point()
	return result
}

func (node *ListNode) splitValues(values map[string]interface{}) (ellipsisValues, otherValues map[string]interface{}) {
	vsched.Point()
	ellipsisValues = map[string]interface{}{}
	vsched.Point()
	otherValues = map[string]interface{}{}
	vsched.Point()
	for _, vschedKey17 := range vsched.SortedStringKeys(values) {
		vsched.Point()
		k := vschedKey17
		vsched.Point()
		_ = k
		vsched.Point()
		v := values[vschedKey17]
		vsched.Point()
		_ = v
		vsched.Point()
		if isEllipsis(k) {
			vsched.Point()
			ellipsisValues[k] = v
		} else {
			vsched.Point()
			otherValues[k] = v
		}
	}
	vsched.Point()
	return ellipsisValues, otherValues
}

// ellipsisAnalysis returns the number of ellipsis to be filled in, and the number
// of remaining ellipsis after filling in target ellipsis.
func (node *ListNode) ellipsisAnalysis(values map[string]interface{}) (int, int) {
	vsched.Point()
	var (
		ellipsisToFill    int
		ellipsisRemaining int
		ellipsisValue     int
	)
	vsched.Point()
	for _, vschedKey18 := range vsched.SortedStringKeys(node.variables) {
		vsched.Point()
		name := vschedKey18
		vsched.Point()
		_ = name
		vsched.Point()
		if isEllipsis(name) {
			vsched.Point()
			if v, ok := values[name]; ok {
				vsched.Point()
				ellipsisToFill = 1
				vsched.Point()
				ellipsisValue = v.(int)
				vsched.Point()
				if ellipsisValue < 0 || ellipsisValue > MAX_BYTE_SIZE {
					vsched.
						// no list can hold more elements; a count outside the range was silently
						// dropped (together with the other ellipses) or exhausted the memory
						Point()

					panic("ellipsis repeat count out of range")
				}
			} else {
				vsched.Point()
				ellipsisRemaining = 1
			}
		}
	}
	vsched.Point()
	for _, item := range node.values {
		vsched.Point()
		if listNode, ok := item.(*ListNode); ok {
			vsched.Point()
			ef, er := listNode.ellipsisAnalysis(values)
			vsched.Point()
			ellipsisToFill += (ellipsisValue + 1) * ef
			vsched.Point()
			ellipsisRemaining += (ellipsisValue + 1) * er
			vsched.
				// the callers only ask "any to fill?" and "none, one or several remaining?"; keep
				// the counters small, as products over the nesting levels they wrapped around
				Point()

			if ellipsisToFill > 1 {
				vsched.Point()
				ellipsisToFill = 1
			}
			vsched.Point()
			if ellipsisRemaining > 2 {
				vsched.Point()
				ellipsisRemaining = 2
			}
		}
	}
	vsched.Point()
	return ellipsisToFill, ellipsisRemaining
}

// fillEllipsis fills in ellipsis variables with specified number of repeated
// item nodes in the ListNode. Ellipsis will be filled in appearing order on
// the top ListNode's string representation.
func (node *ListNode) fillEllipsis(values map[string]interface{}, state *fillState) ItemNode {
	vsched.

		// Check whether this ListNode have a ellipsis to fill
		Point()

	var (
		ellipsisPosition int = -1
		ellipsisValue    int = 0
	)
	vsched.Point()
	for _, vschedKey19 := range vsched.SortedStringKeys(node.variables) {
		vsched.Point()
		name := vschedKey19
		vsched.Point()
		_ = name
		vsched.Point()
		pos := node.variables[vschedKey19]
		vsched.Point()
		_ = pos
		vsched.Point()
		if _, ok := values[name]; ok && isEllipsis(name) {
			vsched.Point()
			ellipsisPosition = pos
			vsched.Point()
			ellipsisValue = values[name].(int)
			vsched.Point()
			if ellipsisValue > 0 {
				vsched.Point()
				state.growDimension()
			}
			vsched.Point()
			break
		}
	}
	vsched.Point()

	nodeValues := []interface{}{}
	vsched.Point()
	posVar := node.variablesSwapKeyValue()
	vsched.Point()
	for i := 0; i < node.Size(); i++ {
		vsched.
			// Repeat handling
			Point()

		if i == ellipsisPosition {
			vsched.Point()
			if ellipsisValue == 0 {
				vsched.
					// No state change; use as is and leave as is
					Point()

				continue
			}
			vsched.Point()

			if state.getCurrentDimensionIndex() < ellipsisValue {
				vsched.
					// Repeat items before ellipsis
					Point()

				state.growIndex()
				vsched.Point()
				i = 0
			} else {
				vsched.
					// Repeat finished
					Point()

				state.exitDimension()
				vsched.Point()
				continue
			}
		}
		vsched.

			// Handle each item in the list node
			Point()

		item := node.values[i]
		vsched.Point()
		switch itemTyped := item.(type) {
		case *ListNode:
			vsched.Point()
			nodeValues = append(nodeValues, itemTyped.fillEllipsis(values, state))
		case *ASCIINode:
			vsched.Point()
			if len(item.Variables()) == 0 {
				vsched.Point()
				nodeValues = append(nodeValues, item)
			} else {
				vsched.Point()
				varName := state.getNewVariableName(item.Variables()[0])
				vsched.Point()
				minLength := itemTyped.variable.minLength
				vsched.Point()
				maxLength := itemTyped.variable.maxLength
				vsched.Point()
				nodeValues = append(nodeValues, NewASCIINodeVariable(varName, minLength, maxLength))
			}
		case emptyItemNode:
			vsched.Point()
			varName := state.getNewVariableName(posVar[i])
			vsched.Point()
			nodeValues = append(nodeValues, varName)
		default:
			vsched.Point()
			variables := item.Variables()
			vsched.Point()
			if len(variables) == 0 {
				vsched.Point()
				nodeValues = append(nodeValues, item)
			} else {
				vsched.Point()
				fill := map[string]interface{}{}
				vsched.Point()
				for _, v := range variables {
					vsched.Point()
					fill[v] = state.getNewVariableName(v)
				}
				vsched.Point()
				nodeValues = append(nodeValues, item.FillVariables(fill))
			}
		}
	}
	vsched.Point()
	return NewListNode(nodeValues...)
}

// fillState is a mutable data type that contains state information for ListNode.fillEllipsis().
// It should be created on ListNode.FillVariables(), should be used on fillEllipsis() method call
// inside FillVariables(), and should not be exposed to elsewhere.
type fillState struct {
	currentDimension int   // current dimension of indices, currentIndices[:currentDimension]
	currentIndices   []int // current indices which describe suffix of next variable name
	ellipsisCount    int   // Number of encountered ellipsis that is not filled in
	multipleEllipsis bool  // true if there will be multiple remaining ellipsis after fillEllipsis() call
}

func newFillState(remainingEllipsisCount int) *fillState {
	vsched.Point()
	multipleEllipsis := false
	vsched.Point()
	if remainingEllipsisCount > 1 {
		vsched.Point()
		multipleEllipsis = true
	}
	vsched.Point()
	return &fillState{0, []int{}, 0, multipleEllipsis}
}

func (state *fillState) growDimension() {
	vsched.Point()
	if state.currentDimension == len(state.currentIndices) {
		vsched.Point()
		state.currentIndices = append(state.currentIndices, 0)
	} else {
		vsched.Point()
		state.currentIndices[state.currentDimension] = 0
	}
	vsched.Point()
	state.currentDimension += 1
}

func (state *fillState) exitDimension() {
	vsched.Point()
	state.currentDimension -= 1
}

func (state *fillState) getCurrentDimensionIndex() int {
	vsched.Point()
	return state.currentIndices[state.currentDimension-1]
}

func (state *fillState) growIndex() {
	vsched.Point()
	state.currentIndices[state.currentDimension-1] += 1
}

func (state *fillState) getNewVariableName(name string) string {
	vsched.Point()
	if isEllipsis(name) {
		vsched.Point()
		if state.multipleEllipsis {
			vsched.Point()
			name = fmt.Sprintf("...[%d]", state.ellipsisCount)
			vsched.Point()
			state.ellipsisCount += 1
			vsched.Point()
			return name
		} else {
			vsched.Point()
			return "..."
		}
	}
	vsched.Point()

	for i := 0; i < state.currentDimension; i++ {
		vsched.Point()
		name += fmt.Sprintf("[%d]", state.currentIndices[i])
	}
	vsched.Point()
	return name
}
