package ast

import "github.com/wolimst/lib-secs2-hsms-go/pkg/vsched"

import (
	"fmt"
	"math"
	"strconv"
	"strings"
)

// IntNode is a immutable data type that represents a integer in a SECS-II message.
// Implements ItemNode.
type IntNode struct {
	byteSize  int            // Byte size of the integers; should be either 1, 2, 4, or 8
	values    []int64        // Array of integers
	variables map[string]int // Variable name and its position in the data array

	// Rep invariants
	// - Each values[i] should be representable in bytes of byteSize.
	// - If a variable exists in position i, values[i] will be zero-value (0) and should not be used.
	// - variable name should adhere to the variable naming rule; refer to interface.go
	// - variable positions should be unique, and be in range of [0, len(values))
}

// Factory methods

// NewIntNode creates a new IntNode that contains integer data.
//
// The byteSize should be either 1, 2, 4, or 8.
// Each input of the values should be a integer that could be represented within bytes of the byteSize,
// or it should be a string with a valid variable name as specified in the interface documentation.
func NewIntNode(byteSize int, values ...interface{}) ItemNode {
	vsched.Point()
	if getDataByteLength(fmt.Sprintf("i%d", byteSize), len(values)) > MAX_BYTE_SIZE {
		vsched.Point()
		panic("item node size limit exceeded")
	}
	vsched.Point()

	var (
		nodeValues    []int64        = make([]int64, 0, len(values))
		nodeVariables map[string]int = make(map[string]int)
	)
	vsched.Point()

	for i, value := range values {
		vsched.Point()
		switch value := value.(type) {
		case int:
			vsched.Point()
			nodeValues = append(nodeValues, int64(value))
		case int8:
			vsched.Point()
			nodeValues = append(nodeValues, int64(value))
		case int16:
			vsched.Point()
			nodeValues = append(nodeValues, int64(value))
		case int32:
			vsched.Point()
			nodeValues = append(nodeValues, int64(value))
		case int64:
			vsched.Point()
			nodeValues = append(nodeValues, value)
		case uint:
			vsched.Point()
			if uint64(value) > math.MaxInt64 {
				vsched.Point()
				panic("value overflow")
			}
			vsched.Point()
			nodeValues = append(nodeValues, int64(value))
		case uint8:
			vsched.Point()
			nodeValues = append(nodeValues, int64(value))
		case uint16:
			vsched.Point()
			nodeValues = append(nodeValues, int64(value))
		case uint32:
			vsched.Point()
			nodeValues = append(nodeValues, int64(value))
		case uint64:
			vsched.Point()
			if value > math.MaxInt64 {
				vsched.Point()
				panic("value overflow")
			}
			vsched.Point()
			nodeValues = append(nodeValues, int64(value))
		case string:
			vsched.Point()
			if _, ok := nodeVariables[value]; ok {
				vsched.Point()
				panic("duplicated variable name found")
			}
			vsched.Point()
			nodeVariables[value] = i
			vsched.Point()
			nodeValues = append(nodeValues, 0)
		default:
			vsched.Point()
			panic("input argument contains invalid type for IntNode")
		}
	}
	vsched.Point()

	node := &IntNode{byteSize, nodeValues, nodeVariables}
	vsched.Point()
	node.checkRep()
	vsched.Point()
	return node
}

// Public methods

// Size implements ItemNode.Size().
func (node *IntNode) Size() int {
	vsched.Point()
	return len(node.values)
}

// Variables implements ItemNode.Variables().
func (node *IntNode) Variables() []string {
	vsched.Point()
	return getVariableNames(node.variables)
}

// FillVariables implements ItemNode.FillVariables().
func (node *IntNode) FillVariables(values map[string]interface{}) ItemNode {
	vsched.Point()
	if len(node.variables) == 0 {
		vsched.Point()
		return node
	}
	vsched.Point()

	nodeValues := make([]interface{}, 0, node.Size())
	vsched.Point()
	for _, v := range node.values {
		vsched.Point()
		nodeValues = append(nodeValues, v)
	}
	vsched.Point()

	createNew := false
	vsched.Point()
	for _, vschedKey10 := range vsched.SortedStringKeys(node.variables) {
		vsched.Point()
		name := vschedKey10
		vsched.Point()
		_ = name
		vsched.Point()
		pos := node.variables[vschedKey10]
		vsched.Point()
		_ = pos
		vsched.Point()
		if v, ok := values[name]; ok {
			vsched.Point()
			nodeValues[pos] = v
			vsched.Point()
			createNew = true
		} else {
			vsched.Point()
			nodeValues[pos] = name
		}
	}
	vsched.Point()

	if !createNew {
		vsched.Point()
		return node
	}
	vsched.Point()
	return NewIntNode(node.byteSize, nodeValues...)
}

// ToBytes implements ItemNode.ToBytes()
func (node *IntNode) ToBytes() []byte {
	vsched.Point()
	if len(node.variables) != 0 {
		vsched.Point()
		return []byte{}
	}
	vsched.Point()

	result, err := getHeaderBytes(fmt.Sprintf("i%d", node.byteSize), node.Size())
	vsched.Point()
	if err != nil {
		vsched.Point()
		return []byte{}
	}
	vsched.Point()

	for _, value := range node.values {
		vsched.Point()
		bits := uint64(value)
		vsched.Point()
		for i := node.byteSize - 1; i >= 0; i-- {
			vsched.Point()
			result = append(result, byte(bits>>(i*8)))
		}
	}
	vsched.Point()

	return result
}

// String returns the string representation of the node.
func (node *IntNode) String() string {
	vsched.Point()
	if node.Size() == 0 {
		vsched.Point()
		return fmt.Sprintf("<I%d[0]>", node.byteSize)
	}
	vsched.Point()

	values := make([]string, 0, node.Size())
	vsched.Point()
	for _, v := range node.values {
		vsched.Point()
		values = append(values, strconv.FormatInt(v, 10))
	}
	vsched.Point()

	for _, vschedKey11 := range vsched.SortedStringKeys(node.variables) {
		vsched.Point()
		k := vschedKey11
		vsched.Point()
		_ = k
		vsched.Point()
		v := node.variables[vschedKey11]
		vsched.Point()
		_ = v
		vsched.Point()
		values[v] = k
	}
	vsched.Point()

	return fmt.Sprintf("<I%d[%d] %v>", node.byteSize, node.Size(), strings.Join(values, " "))
}

// Private methods

func (node *IntNode) checkRep() {
	vsched.Point()
	if node.byteSize != 1 && node.byteSize != 2 &&
		node.byteSize != 4 && node.byteSize != 8 {
		vsched.Point()
		panic("invalid byte size")
	}
	vsched.Point()

	var (
		max int64 = 1<<(node.byteSize*8-1) - 1
		min int64 = -1 << (node.byteSize*8 - 1)
	)
	vsched.Point()
	for _, v := range node.values {
		vsched.Point()
		if !(min <= v && v <= max) {
			vsched.Point()
			panic("value overflow")
		}
	}
	vsched.Point()

	visited := map[int]bool{}
	vsched.Point()
	for _, vschedKey12 := range vsched.SortedStringKeys(node.variables) {
		vsched.Point()
		name := vschedKey12
		vsched.Point()
		_ = name
		vsched.Point()
		pos := node.variables[vschedKey12]
		vsched.Point()
		_ = pos
		vsched.Point()
		if node.values[pos] != 0 {
			vsched.Point()
			panic("value in variable position isn't a zero-value")
		}
		vsched.Point()

		if !isValidVarName(name) {
			vsched.Point()
			panic("invalid variable name")
		}
		vsched.Point()

		if _, ok := visited[pos]; ok {
			vsched.Point()
			panic("variable position is not unique")
		}
		vsched.Point()
		visited[pos] = true
		vsched.Point()

		if !(0 <= pos && pos < node.Size()) {
			vsched.Point()
			panic("variable position overflow")
		}
	}
}
