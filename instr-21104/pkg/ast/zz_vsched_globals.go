package ast

import "github.com/wolimst/lib-secs2-hsms-go/pkg/vsched"

func init() {
	vsched.RegisterGlobals("pkg/ast", map[string]interface{}{
	})
}
