package ast

import "github.com/wolimst/lib-secs2-hsms-go/pkg/vsched"

import (
	"fmt"
	"regexp"
	"sort"
)

const MAX_BYTE_SIZE = 1<<24 - 1

// ItemNode is a interface of immutable data types, that represents a data item in a SECS-II message.
// It contains an array consists of data values or variables which can be used to fill the data values later.
// E.g., A boolean node should be able to represent a SECS-II data item of <BOOLEAN[3] T F varName>.
//
// A variable name could contain a string with alphanumerics and the underbar.
// Also, ellipsis literal "..." is a special variable name that can be only used in ListNode,
// which means repetition of elements in the ListNode before it.
// A number cannot be the first letter of the variable name.
// Each variable name in a data item node should be unique.
//
// A variable name also could contain characters that is like array index accessor
// in most programming languages, at the end of its name, e.g. varName[0], varName[1], etc.
// However, it doesn't mean that there's underlying array; in case of the example above,
// varName[0] it self is the name of the variable, and varName would not exist when not specified.
// It might be a source of some confusion, therefore, it is recommended to use
// variable names with this array-like notation, only in ListNodes, when there are repeating elements.
// ListNode containing variables with array-like notation would be created,
// when filling values into a ListNode containing variables and ellipsis,
// e.g. <L <A varName> ...> can be <L[2] <A varName[0]> <A varName[1]> >,
// when the ellipsis is filled in with 1 (1 repetition).
// For more detailed information, refer to the documentation of ListNode.
//
// There is a limit on the number of data values that a ItemNode can contain,
// as specified in the SEMI Standard.
// The limit is expressed as following equation; n * b <= 16,777,215 (3 bytes),
// where n is the number of the data values in a ItemNode, and b is bytes to
// represent a data value which is different for each ItemNode type.
type ItemNode interface {
	// Size returns the array size of the data item.
	Size() int

	// Variables returns the variable names in the node, in the insertion order.
	Variables() []string

	// FillVariables returns a new ItemNode with the specified values filled into the variables.
	// The map input argument has variable name as its key, and fill-in value as its value.
	// Each fill-in value must be acceptable by the ItemNode's factory method.
	// If a variable in the ItemNode doesn't exist in the input map, the variable will remain unchanged.
	FillVariables(map[string]interface{}) ItemNode

	// ToBytes returns the byte representation of the data item.
	ToBytes() []byte
}

// EmptyItemNode is a immutable data type that represents a empty data item node.
// It will be used mostly on error cases.
type emptyItemNode struct{}

// NewEmptyItemNode creates a new empty data item node.
func NewEmptyItemNode() ItemNode {
	vsched.Point()
	return emptyItemNode{}
}

// Size implements ItemNode.Size().
func (node emptyItemNode) Size() int {
	vsched.Point()
	return 0
}

// Variables implements ItemNode.Variables().
func (node emptyItemNode) Variables() []string {
	vsched.Point()
	return []string{}
}

// FillVariables implements ItemNode.FillVariables().
func (node emptyItemNode) FillVariables(values map[string]interface{}) ItemNode {
	vsched.Point()
	return node
}

// ToBytes implements ItemNode.ToBytes()
func (node emptyItemNode) ToBytes() []byte {
	vsched.Point()
	return []byte{}
}

// String returns the string representation of the node.
func (node emptyItemNode) String() string {
	vsched.Point()
	return ""
}

// Helper functions

// isValidVarName checks that the variable name is valid as specified in the interface document.
func isValidVarName(name string) bool {
	vsched.Point()
	re := regexp.MustCompile(`^[A-Za-z_]\w*(\[\d+\])*$`)
	vsched.Point()
	return re.MatchString(name)
}

// isEllipsis checks whether a variable is ellipsis or not.
func isEllipsis(name string) bool {
	vsched.Point()
	re := regexp.MustCompile(`^\.{3}(\[\d+\])?$`)
	vsched.Point()
	return re.MatchString(name)
}

// getVariableNames returns variable names sorted by their positions.
// The input argument's key is a variable name and its value is the variable's position.
func getVariableNames(variablePosition map[string]int) []string {
	vsched.Point()
	if len(variablePosition) == 0 {
		vsched.
			// nothing to sort; allocate nothing, this runs once per enclosing list
			Point()

		return []string{}
	}
	vsched.Point()
	result := make([]string, 0, len(variablePosition))
	vsched.Point()
	for _, vschedKey13 := range vsched.SortedStringKeys(variablePosition) {
		vsched.Point()
		name := vschedKey13
		vsched.Point()
		_ = name
		vsched.Point()
		result = append(result, name)
	}
	vsched.Point()
	sort.Slice(result, func(i, j int) bool {
		vsched.Point()
		return variablePosition[result[i]] < variablePosition[result[j]]
	})
	vsched.Point()
	return result
}

// getDataByteLength returns the number of bytes to represent a data with
// specified type and size.
//
// The input argument typ should be one of "list", "binary", "boolean", "ascii",
// "i8", "i1", "i2", "i4", "f8", "f4", "u8", "u1", "u2", or "u4".
// The input argument size means the number of values in a item node.
func getDataByteLength(typ string, size int) int {
	vsched.Point()
	bytePerValue := map[string]int{
		"list":    1,
		"binary":  1,
		"boolean": 1,
		"ascii":   1,
		"i8":      8,
		"i1":      1,
		"i2":      2,
		"i4":      4,
		"f8":      8,
		"f4":      4,
		"u8":      8,
		"u1":      1,
		"u2":      2,
		"u4":      4,
	}
	vsched.Point()
	return size * bytePerValue[typ]
}

// getHeaderBytes returns the header bytes, which consist of the format byte
// and the length bytes, of a SECS-II data item.
//
// The input argument typ should be one of "list", "binary", "boolean", "ascii",
// "i8", "i1", "i2", "i4", "f8", "f4", "u8", "u1", "u2", or "u4".
// The input argument size means the number of values in a item node.
// An error is returned when the header bytes cannot be created.
func getHeaderBytes(typ string, size int) ([]byte, error) {
	vsched.Point()
	formatCode := map[string]int{
		"list":    0o00,
		"binary":  0o10,
		"boolean": 0o11,
		"ascii":   0o20,
		"i8":      0o30,
		"i1":      0o31,
		"i2":      0o32,
		"i4":      0o34,
		"f8":      0o40,
		"f4":      0o44,
		"u8":      0o50,
		"u1":      0o51,
		"u2":      0o52,
		"u4":      0o54,
	}
	vsched.Point()

	dataByteLength := getDataByteLength(typ, size)
	vsched.Point()
	if dataByteLength > MAX_BYTE_SIZE {
		vsched.Point()
		return []byte{}, fmt.Errorf("size limit exceeded")
	}
	vsched.Point()

	lengthBytes := []byte{
		byte(dataByteLength >> 16),
		byte(dataByteLength >> 8),
		byte(dataByteLength),
	}
	vsched.Point()

	if lengthBytes[0] == 0 {
		vsched.Point()
		if lengthBytes[1] == 0 {
			vsched.Point()
			lengthBytes = lengthBytes[2:]
		} else {
			vsched.Point()
			lengthBytes = lengthBytes[1:]
		}
	}
	vsched.Point()

	result := []byte{}
	vsched.Point()
	result = append(result, byte(formatCode[typ]<<2+len(lengthBytes)))
	vsched.Point()
	result = append(result, lengthBytes...)
	vsched.Point()
	return result, nil
}
