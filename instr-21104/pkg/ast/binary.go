package ast

import "github.com/wolimst/lib-secs2-hsms-go/pkg/vsched"

import (
	"fmt"
	"strconv"
	"strings"
)

// BinaryNode is a immutable data type that represents a binary item in a SECS-II message.
// Implements ItemNode.
type BinaryNode struct {
	values    []int          // Array of binary values between [0, 255], represented as integers
	variables map[string]int // Variable name and its position in the data array

	// Rep invariants
	// - Each values[i] should be in range of [0, 255]
	// - If a variable exists in position i, values[i] will be zero-value (0) and should not be used.
	// - variable name should adhere to the variable naming rule; refer to interface.go
	// - variable positions should be unique, and be in range of [0, len(values))
}

// Factory methods

// NewBinaryNode creates a new BinaryNode.
//
// Each input argument should have one of following three forms.
// 1. An integer between [0, 255].
// 2. A string with binary format such as "0b1001" between [0, 255].
// 3. A string with a valid variable name as specified in the interface document.
func NewBinaryNode(values ...interface{}) ItemNode {
	vsched.Point()
	if getDataByteLength("binary", len(values)) > MAX_BYTE_SIZE {
		vsched.Point()
		panic("item node size limit exceeded")
	}
	vsched.Point()

	var (
		nodeValues    []int          = make([]int, 0, len(values))
		nodeVariables map[string]int = make(map[string]int)
	)
	vsched.Point()
	for i, value := range values {
		vsched.Point()
		if v, ok := value.(int); ok {
			vsched.
				// value is a int
				Point()

			nodeValues = append(nodeValues, v)
		} else if v, ok := value.(string); ok {
			vsched.Point()
			if strings.HasPrefix(v, "0b") {
				vsched.
					// value is a binary string
					Point()

				vAsInt64, err := strconv.ParseInt(v, 0, 0)
				vsched.Point()
				if err != nil {
					vsched.Point()
					panic("invalid binary string")
				}
				vsched.Point()
				nodeValues = append(nodeValues, int(vAsInt64))
			} else {
				vsched.
					// value is a variable
					Point()

				if _, ok := nodeVariables[v]; ok {
					vsched.Point()
					panic("duplicated variable name found")
				}
				vsched.Point()
				nodeVariables[v] = i
				vsched.Point()
				nodeValues = append(nodeValues, 0)
			}
		} else {
			vsched.Point()
			panic("input argument contains invalid type for BinaryNode")
		}
	}
	vsched.Point()

	node := &BinaryNode{nodeValues, nodeVariables}
	vsched.Point()
	node.checkRep()
	vsched.Point()
	return node
}

// Public methods

// Size implements ItemNode.Size().
func (node *BinaryNode) Size() int {
	vsched.Point()
	return len(node.values)
}

// Variables implements ItemNode.Variables().
func (node *BinaryNode) Variables() []string {
	vsched.Point()
	return getVariableNames(node.variables)
}

// FillVariables implements ItemNode.FillVariables().
func (node *BinaryNode) FillVariables(values map[string]interface{}) ItemNode {
	vsched.Point()
	if len(node.variables) == 0 {
		vsched.Point()
		return node
	}
	vsched.Point()

	nodeValues := make([]interface{}, 0, node.Size())
	vsched.Point()
	for _, v := range node.values {
		vsched.Point()
		nodeValues = append(nodeValues, v)
	}
	vsched.Point()

	createNew := false
	vsched.Point()
	for _, vschedKey1 := range vsched.SortedStringKeys(node.variables) {
		vsched.Point()
		name := vschedKey1
		vsched.Point()
		_ = name
		vsched.Point()
		pos := node.variables[vschedKey1]
		vsched.Point()
		_ = pos
		vsched.Point()
		if v, ok := values[name]; ok {
			vsched.Point()
			nodeValues[pos] = v
			vsched.Point()
			createNew = true
		} else {
			vsched.Point()
			nodeValues[pos] = name
		}
	}
	vsched.Point()

	if !createNew {
		vsched.Point()
		return node
	}
	vsched.Point()
	return NewBinaryNode(nodeValues...)
}

// ToBytes implements ItemNode.ToBytes()
func (node *BinaryNode) ToBytes() []byte {
	vsched.Point()
	if len(node.variables) != 0 {
		vsched.Point()
		return []byte{}
	}
	vsched.Point()

	result, err := getHeaderBytes("binary", node.Size())
	vsched.Point()
	if err != nil {
		vsched.Point()
		return []byte{}
	}
	vsched.Point()

	for _, value := range node.values {
		vsched.Point()
		result = append(result, byte(value))
	}
	vsched.Point()

	return result
}

// String returns the string representation of the node.
func (node *BinaryNode) String() string {
	vsched.Point()
	if node.Size() == 0 {
		vsched.Point()
		return "<B[0]>"
	}
	vsched.Point()

	values := make([]string, 0, node.Size())
	vsched.Point()
	for _, value := range node.values {
		vsched.Point()
		str := "0b" + strconv.FormatInt(int64(value), 2)
		vsched.Point()
		values = append(values, str)
	}
	vsched.Point()

	for _, vschedKey2 := range vsched.SortedStringKeys(node.variables) {
		vsched.Point()
		name := vschedKey2
		vsched.Point()
		_ = name
		vsched.Point()
		pos := node.variables[vschedKey2]
		vsched.Point()
		_ = pos
		vsched.Point()
		values[pos] = name
	}
	vsched.Point()

	return fmt.Sprintf("<B[%d] %v>", node.Size(), strings.Join(values, " "))
}

// Private methods

func (node *BinaryNode) checkRep() {
	vsched.Point()
	for _, v := range node.values {
		vsched.Point()
		if !(0 <= v && v < 256) {
			vsched.Point()
			panic("value overflow")
		}
	}
	vsched.Point()

	visited := map[int]bool{}
	vsched.Point()
	for _, vschedKey3 := range vsched.SortedStringKeys(node.variables) {
		vsched.Point()
		name := vschedKey3
		vsched.Point()
		_ = name
		vsched.Point()
		pos := node.variables[vschedKey3]
		vsched.Point()
		_ = pos
		vsched.Point()
		if node.values[pos] != 0 {
			vsched.Point()
			panic("value in variable position isn't a zero-value")
		}
		vsched.Point()

		if !isValidVarName(name) {
			vsched.Point()
			panic("invalid variable name")
		}
		vsched.Point()

		if _, ok := visited[pos]; ok {
			vsched.Point()
			panic("variable position is not unique")
		}
		vsched.Point()
		visited[pos] = true
		vsched.Point()

		if !(0 <= pos && pos < node.Size()) {
			vsched.Point()
			panic("variable position overflow")
		}
	}
}
