//go:build verif

package ast

import

// Verification hooks (build tag "verif" only): expose the unexported item
// header routines so that every size can be swept without materialising items.
"github.com/wolimst/lib-secs2-hsms-go/pkg/vsched"

// VerifHeaderBytes exposes getHeaderBytes.
func VerifHeaderBytes(typ string, size int) ([]byte, error) {
	vsched.Point()
	return getHeaderBytes(typ, size)
}

// VerifDataByteLength exposes getDataByteLength.
func VerifDataByteLength(typ string, size int) int {
	vsched.Point()
	return getDataByteLength(typ, size)
}
