package ast

import

// HSMS data message is defined in ast.go
"github.com/wolimst/lib-secs2-hsms-go/pkg/vsched"

const (
	sTypeSelectReq   = 1
	sTypeSelectRsp   = 2
	sTypeDeselectReq = 3
	sTypeDeselectRsp = 4
	sTypeLinktestReq = 5
	sTypeLinktestRsp = 6
	sTypeRejectReq   = 7
	sTypeSeparateReq = 9
)

// HSMSMessage is a interface of immutable data types that represents a HSMS message.
//
// HSMSMessage contains two implementations, DataMessage and ControlMessage.
//
// DataMessage represents a SECS-II data message. Note that, some DataMessage
// might not be converted to HSMS format, i.e. its wait bit is in optional state,
// it's data item contain variables, or session id and system bytes are not set.
// Only a complete DataMessage, i.e. wait bit is true or false, no variables in data item,
// session id and system bytes are set, can be converted to HSMS format, and thus
// can be sent to the recipient.
//
// ControlMessage can represent one of select.req, select.rsp, deselect.req, deselect.rsp,
// linktest.req, linktest.rsp, reject.req, separate.req, and undefined control message.
type HSMSMessage interface {
	// Type returns HSMS message type.
	// Return will be one of "data message", "select.req", "select.rsp", "deselect.req", "deselect.rsp",
	// "linktest.req", "linktest.rsp", "reject.req", "separate.req", "undefined".
	Type() string

	// ToBytes returns byte representation of the HSMS message.
	ToBytes() []byte
}

// ControlMessage is a immutable data type that represents a HSMS control message.
// Implements HSMSMessage.
type ControlMessage struct {
	header []byte
	// Rep invariants
	// - header should have length of 10
	//
	// Safety from rep exposure
	// - header should not be exposed
}

// NewHSMSControlMessage creates HSMS control message from header bytes.
// header bytes should have appropriate values as specified in HSMS specification.
func NewHSMSControlMessage(header []byte) HSMSMessage {
	vsched.Point()
	headerCopy := make([]byte, 10)
	vsched.Point()
	for i, b := range header {
		vsched.Point()
		if i > 10 {
			vsched.Point()
			break
		}
		vsched.Point()
		headerCopy[i] = b
	}
	vsched.Point()
	return &ControlMessage{headerCopy}
}

// NewHSMSMessageSelectReq creates HSMS Select.req control message.
// systemBytes should have length of 4.
func NewHSMSMessageSelectReq(sessionID uint16, systemBytes []byte) HSMSMessage {
	vsched.Point()
	header := make([]byte, 10)
	vsched.Point()
	header[0] = byte(sessionID >> 8)
	vsched.Point()
	header[1] = byte(sessionID)
	vsched.Point()
	header[5] = sTypeSelectReq
	vsched.Point()
	header[6] = systemBytes[0]
	vsched.Point()
	header[7] = systemBytes[1]
	vsched.Point()
	header[8] = systemBytes[2]
	vsched.Point()
	header[9] = systemBytes[3]
	vsched.Point()

	return &ControlMessage{header}
}

// NewHSMSMessageSelectRsp creates HSMS Select.rsp control message from Select.req message.
// selectStatus 0 means that communication is successfully established,
// 1 means that communication is already active,
// 2 means that communication is not ready,
// 3 means that connection that TCP/IP port is exhausted,
// 4-255 are reserved failure reason codes.
func NewHSMSMessageSelectRsp(selectReq HSMSMessage, selectStatus byte) HSMSMessage {
	vsched.Point()
	if selectReq.Type() != "select.req" {
		vsched.Point()
		panic("expected select.req message")
	}
	vsched.Point()

	header := make([]byte, 10)
	vsched.Point()
	msg, _ := selectReq.(*ControlMessage)
	vsched.Point()
	header[0] = msg.header[0]
	vsched.Point()
	header[1] = msg.header[1]
	vsched.Point()
	header[3] = selectStatus
	vsched.Point()
	header[5] = sTypeSelectRsp
	vsched.Point()
	header[6] = msg.header[6]
	vsched.Point()
	header[7] = msg.header[7]
	vsched.Point()
	header[8] = msg.header[8]
	vsched.Point()
	header[9] = msg.header[9]
	vsched.Point()

	return &ControlMessage{header}
}

// NewHSMSMessageDeselectReq creates HSMS Deselect.req control message.
// systemBytes should have length of 4.
func NewHSMSMessageDeselectReq(sessionID uint16, systemBytes []byte) HSMSMessage {
	vsched.Point()
	header := make([]byte, 10)
	vsched.Point()
	header[0] = byte(sessionID >> 8)
	vsched.Point()
	header[1] = byte(sessionID)
	vsched.Point()
	header[5] = sTypeDeselectReq
	vsched.Point()
	header[6] = systemBytes[0]
	vsched.Point()
	header[7] = systemBytes[1]
	vsched.Point()
	header[8] = systemBytes[2]
	vsched.Point()
	header[9] = systemBytes[3]
	vsched.Point()

	return &ControlMessage{header}
}

// NewHSMSMessageDeselectRsp creates HSMS Deselect.rsp control message from Deselect.req message.
// deselectStatus 0 means that the connection is successfully ended,
// 1 means that communication is not yet established,
// 2 means that communication is busy and cannot yet be relinquished,
// 3-255 are reserved failure reason codes.
func NewHSMSMessageDeselectRsp(deselectReq HSMSMessage, deselectStatus byte) HSMSMessage {
	vsched.Point()
	if deselectReq.Type() != "deselect.req" {
		vsched.Point()
		panic("expected deselect.req message")
	}
	vsched.Point()

	header := make([]byte, 10)
	vsched.Point()
	msg, _ := deselectReq.(*ControlMessage)
	vsched.Point()
	header[0] = msg.header[0]
	vsched.Point()
	header[1] = msg.header[1]
	vsched.Point()
	header[3] = deselectStatus
	vsched.Point()
	header[5] = sTypeDeselectRsp
	vsched.Point()
	header[6] = msg.header[6]
	vsched.Point()
	header[7] = msg.header[7]
	vsched.Point()
	header[8] = msg.header[8]
	vsched.Point()
	header[9] = msg.header[9]
	vsched.Point()

	return &ControlMessage{header}
}

// NewHSMSMessageLinktestReq creates HSMS Linktest.req control message.
// systemBytes should have length of 4.
func NewHSMSMessageLinktestReq(systemBytes []byte) HSMSMessage {
	vsched.Point()
	header := make([]byte, 10)
	vsched.Point()
	header[0] = 0xFF
	vsched.Point()
	header[1] = 0xFF
	vsched.Point()
	header[5] = sTypeLinktestReq
	vsched.Point()
	header[6] = systemBytes[0]
	vsched.Point()
	header[7] = systemBytes[1]
	vsched.Point()
	header[8] = systemBytes[2]
	vsched.Point()
	header[9] = systemBytes[3]
	vsched.Point()

	return &ControlMessage{header}
}

// NewHSMSMessageLinktestRsp creates HSMS Linktest.rsp control message from Linktest.req message.
func NewHSMSMessageLinktestRsp(linktestReq HSMSMessage) HSMSMessage {
	vsched.Point()
	if linktestReq.Type() != "linktest.req" {
		vsched.Point()
		panic("expected linktest.req message")
	}
	vsched.Point()

	header := make([]byte, 10)
	vsched.Point()
	msg, _ := linktestReq.(*ControlMessage)
	vsched.Point()
	header[0] = 0xFF
	vsched.Point()
	header[1] = 0xFF
	vsched.Point()
	header[5] = sTypeLinktestRsp
	vsched.Point()
	header[6] = msg.header[6]
	vsched.Point()
	header[7] = msg.header[7]
	vsched.Point()
	header[8] = msg.header[8]
	vsched.Point()
	header[9] = msg.header[9]
	vsched.Point()

	return &ControlMessage{header}
}

// NewHSMSMessageRejectReq creates HSMS Reject.req control message.
//
// sessionID, pType, sType, and systemBytes should be same as the HSMS message being rejected.
// systemBytes should have length of 4.
//
// reasonCode should be non-zero,
// 1 means that received message's sType is not supported,
// 2 means that received message's pType is not supported,
// 3 means that transaction is not open, i.e. response message was received without request,
// 4 means that data message is received in non-SELECTED state,
// 5-255 are reserved reason codes.
func NewHSMSMessageRejectReq(sessionID uint16, pType, sType byte, systemBytes []byte, reasonCode byte) HSMSMessage {
	vsched.Point()
	header := make([]byte, 10)
	vsched.Point()
	header[0] = byte(sessionID >> 8)
	vsched.Point()
	header[1] = byte(sessionID)
	vsched.Point()
	if reasonCode == 2 {
		vsched.Point()
		header[2] = pType
	} else {
		vsched.Point()
		header[2] = sType
	}
	vsched.Point()
	header[3] = reasonCode
	vsched.Point()
	header[5] = sTypeRejectReq
	vsched.Point()
	header[6] = systemBytes[0]
	vsched.Point()
	header[7] = systemBytes[1]
	vsched.Point()
	header[8] = systemBytes[2]
	vsched.Point()
	header[9] = systemBytes[3]
	vsched.Point()

	return &ControlMessage{header}
}

// NewHSMSMessageSeparateReq creates HSMS Separate.req control message.
// systemBytes should have length of 4.
func NewHSMSMessageSeparateReq(sessionID uint16, systemBytes []byte) HSMSMessage {
	vsched.Point()
	header := make([]byte, 10)
	vsched.Point()
	header[0] = byte(sessionID >> 8)
	vsched.Point()
	header[1] = byte(sessionID)
	vsched.Point()
	header[5] = sTypeSeparateReq
	vsched.Point()
	header[6] = systemBytes[0]
	vsched.Point()
	header[7] = systemBytes[1]
	vsched.Point()
	header[8] = systemBytes[2]
	vsched.Point()
	header[9] = systemBytes[3]
	vsched.Point()

	return &ControlMessage{header}
}

// Type returns the message type of the HSMS control message.
// Return will be one of "select.req", "select.rsp", "deselect.req", "deselect.rsp",
// "linktest.req", "linktest.rsp", "reject.req", "separate.req", "undefined".
func (msg *ControlMessage) Type() string {
	vsched.Point()
	if msg.header[4] != 0 {
		vsched.Point()
		return "undefined"
	}
	vsched.Point()

	switch msg.header[5] {
	case 1:
		vsched.Point()
		return "select.req"
	case 2:
		vsched.Point()
		return "select.rsp"
	case 3:
		vsched.Point()
		return "deselect.req"
	case 4:
		vsched.Point()
		return "deselect.rsp"
	case 5:
		vsched.Point()
		return "linktest.req"
	case 6:
		vsched.Point()
		return "linktest.rsp"
	case 7:
		vsched.Point()
		return "reject.req"
	case 9:
		vsched.Point()
		return "separate.req"
	default:
		vsched.Point()
		return "undefined"
	}
}

// ToBytes returns the HSMS byte representation of the control message.
func (msg *ControlMessage) ToBytes() []byte {
	vsched.Point()
	result := make([]byte, 0, 14)
	vsched.Point()
	result = append(result, 0, 0, 0, 10)
	vsched.Point()
	result = append(result, msg.header...)
	vsched.Point()
	return result
}
