// Package harness is the shared exploration runner: a check is a list of
// finite, index-addressable spaces; the runner executes EVERY index of every
// space on the real library inside isolated worker subprocesses, merges the
// counts, confirms violations by re-execution, matches them against the
// committed known-findings file and writes the evidence file.
package harness

import (
	"crypto/sha256"
	"encoding/binary"
	"encoding/hex"
	"encoding/json"
	"fmt"
	"hash/fnv"
	"os"
	"path/filepath"
	"regexp"
	"sort"
	"strings"
)

// Root is the /verif directory (overridable for tests).
var Root = envOr("VERIF_ROOT", "/verif")

func envOr(k, d string) string {
	if v := os.Getenv(k); v != "" {
		return v
	}
	return d
}

// Violation is one concrete failing case.
type Violation struct {
	Property string  `json:"property"`
	Tier     string  `json:"tier"`
	Seed     int64   `json:"seed"`
	Space    string  `json:"space"`
	Index    uint64  `json:"index"`
	From     *uint64 `json:"from,omitempty"` // when set: the cases From..Index run in ONE process (the failure needs the earlier ones)
	Class    string  `json:"class"`          // stable classification, used for known-finding matching
	Input    string  `json:"input"`          // the concrete input / history, human readable
	Detail   string  `json:"detail"`         // expected vs observed
	GoTest   string  `json:"go_test,omitempty"`
	Confirm  string  `json:"confirmed,omitempty"`
}

// Space is one finite enumeration; case i is regenerated from its index.
type Space struct {
	Name  string
	Count uint64
	// Run executes case i on the real library and reports through c.
	Run func(c *Ctx, i uint64)
	// Describe renders case i for the evidence samples (no execution needed).
	Describe func(i uint64) interface{}
	// Serial spaces are executed by one worker as one chunk (Count is then the
	// number of top-level roots; the space reports its own states/transitions).
	Serial bool
	// ChunkHint overrides the chunk size (cases per work unit).
	ChunkHint uint64
	// Exhaustive=false marks a space that is knowingly a capped part of something larger.
	NotExhaustive string
}

// Check is everything registered for one property.
type Check struct {
	ID          string
	Build       func(tier string, seed int64) []Space
	Rule        string
	Assumptions []string
	MemLimitGiB int // RLIMIT_AS for workers; 0 = default 4
	Workers     int // 0 = default 16
	// WatchdogSec: no progress on one case for this long = hang (confirmed afterwards).
	WatchdogSec int
	// SchedulerStyle: states = schedules explored, transitions = scheduling steps (Ops), traces = schedules.
	SchedulerStyle bool
	// Extra is merged into coverage.
	Extra func(tier string) map[string]interface{}
}

var registry = map[string]*Check{}

// Register adds a check.
func Register(c *Check) { registry[c.ID] = c }

// Lookup finds a check.
func Lookup(id string) *Check { return registry[id] }

// IDs lists registered checks.
func IDs() []string {
	var r []string
	for k := range registry {
		r = append(r, k)
	}
	sort.Strings(r)
	return r
}

// Ctx is the per-worker accumulator handed to Space.Run.
type Ctx struct {
	Tier string
	Seed int64

	Evals       uint64
	Nontrivial  uint64
	Transitions uint64
	States      uint64 // extra states reported by serial spaces (BFS)
	Outcomes    map[string]uint64
	Viols       []Violation
	ViolCount   uint64
	Notes       map[string]uint64 // named counters (caps hit, bounds completed, ...)
	Info        map[string]string // free-form facts from serial spaces
	ClassCounts map[string]uint64 // violations per class in this chunk

	property string
	space    string
	index    uint64
	seen     *u64set
	classes  map[string]int
	progress []byte // mmap'd
}

// u64set is a fixed-capacity open-addressing set of non-zero digests; when it
// is half full further digests are not recorded (and not counted as distinct:
// the distinct count is then a conservative under-count).
type u64set struct {
	slots []uint64
	mask  uint64
	n     int
}

func newU64set(bits uint) *u64set { return &u64set{mask: 1<<bits - 1} }

func (s *u64set) add(d uint64) bool {
	if s.slots == nil {
		s.slots = make([]uint64, s.mask+1)
	}
	i := (d * 0x9E3779B97F4A7C15) >> 17 & s.mask
	for {
		switch s.slots[i] {
		case d:
			return false
		case 0:
			if s.n >= len(s.slots)/2 {
				return false
			}
			s.slots[i] = d
			s.n++
			return true
		}
		i = (i + 1) & s.mask
	}
}

// NewCtx makes a fresh accumulator.
func NewCtx(property, tier string, seed int64) *Ctx {
	return &Ctx{Tier: tier, Seed: seed, property: property, Outcomes: map[string]uint64{},
		Notes: map[string]uint64{}, Info: map[string]string{}, seen: newU64set(23), classes: map[string]int{}}
}

// Case counts one executed case. digest identifies the concrete input (0 =
// distinct by construction); nontrivial says whether the oracle compared
// something non-empty; outcome is a coarse class of what was observed.
func (c *Ctx) Case(digest uint64, nontrivial bool, outcome string) {
	c.Evals++
	if len(c.progress) >= 24 {
		// a space whose one case is a whole search (BFS shard) shows that it is alive through its sub-cases
		binary.LittleEndian.PutUint64(c.progress[16:24], binary.LittleEndian.Uint64(c.progress[16:24])+1)
	}
	if nontrivial {
		if digest == 0 {
			c.Nontrivial++
		} else if c.seen.add(digest) {
			c.Nontrivial++
		}
	}
	if len(c.Outcomes) < 400 || c.Outcomes[outcome] > 0 {
		c.Outcomes[outcome]++
	}
}

// Ops counts operations executed on the implementation.
func (c *Ctx) Ops(n int) { c.Transitions += uint64(n) }

// Note bumps a named counter.
func (c *Ctx) Note(k string, n uint64) { c.Notes[k] += n }

// Fail records a violation of the property for the current case.
func (c *Ctx) Fail(class, input, detail string) {
	c.ViolCount++
	if c.ClassCounts == nil {
		c.ClassCounts = map[string]uint64{}
	}
	if len(c.ClassCounts) < 300 || c.ClassCounts[class] > 0 {
		c.ClassCounts[class]++
	}
	n := c.classes[class]
	c.classes[class] = n + 1
	if n >= 2 || len(c.Viols) >= 200 {
		return // keep the first two of each class (simplest-first enumeration => minimal)
	}
	if len(input) > 4000 {
		input = input[:4000] + fmt.Sprintf("...(+%d bytes)", len(input)-4000)
	}
	if len(detail) > 4000 {
		detail = detail[:4000] + "..."
	}
	c.Viols = append(c.Viols, Violation{Property: c.property, Tier: c.Tier, Seed: c.Seed,
		Space: c.space, Index: c.index, Class: class, Input: input, Detail: detail})
}

// Digest hashes strings/bytes to a non-zero 64-bit value.
func Digest(parts ...[]byte) uint64 {
	h := fnv.New64a()
	for _, p := range parts {
		h.Write(p)
		h.Write([]byte{0xfe})
	}
	v := h.Sum64()
	if v == 0 {
		v = 1
	}
	return v
}

// DigestS is Digest for strings.
func DigestS(parts ...string) uint64 {
	h := fnv.New64a()
	for _, p := range parts {
		h.Write([]byte(p))
		h.Write([]byte{0xfe})
	}
	v := h.Sum64()
	if v == 0 {
		v = 1
	}
	return v
}

// chunkResult is what a worker reports for one chunk.
type chunkResult struct {
	Space       int               `json:"space"`
	Lo          uint64            `json:"lo"`
	Hi          uint64            `json:"hi"`
	Evals       uint64            `json:"evals"`
	Nontrivial  uint64            `json:"nontrivial"`
	Transitions uint64            `json:"transitions"`
	States      uint64            `json:"states"`
	Outcomes    map[string]uint64 `json:"outcomes"`
	Notes       map[string]uint64 `json:"notes"`
	Info        map[string]string `json:"info"`
	Viols       []Violation       `json:"viols"`
	ViolCount   uint64            `json:"viol_count"`
	ClassCounts map[string]uint64 `json:"class_counts"`
	Panic       string            `json:"panic,omitempty"`
	PanicIndex  uint64            `json:"panic_index,omitempty"`
	SlowNs      int64             `json:"slow_ns"`
	SlowIdx     uint64            `json:"slow_idx"`
}

// ---------- known findings ----------

// Finding is one entry of known_findings.json.
type Finding struct {
	Status     string `json:"status"` // "open" | "fixed"
	Property   string `json:"property"`
	ClassRegex string `json:"class_regex,omitempty"`
	InputRegex string `json:"input_regex,omitempty"`
	Commit     string `json:"commit,omitempty"`
	What       string `json:"what"`
}

// LoadFindings reads the committed known-findings file (never written at run time).
func LoadFindings() []Finding {
	b, err := os.ReadFile(filepath.Join(Root, "known_findings.json"))
	if err != nil {
		return nil
	}
	var f struct {
		Findings []Finding `json:"findings"`
	}
	if err := json.Unmarshal(b, &f); err != nil {
		fmt.Fprintf(os.Stderr, "known_findings.json: %v\n", err)
		os.Exit(2)
	}
	return f.Findings
}

// MatchFinding returns the open finding that lists this violation, if any.
func MatchFinding(fs []Finding, v Violation) *Finding {
	for i := range fs {
		f := &fs[i]
		if f.Status != "open" || f.Property != v.Property {
			continue
		}
		if f.ClassRegex == "" && f.InputRegex == "" {
			continue // a finding must name a specific case
		}
		if f.ClassRegex != "" && !regexp.MustCompile(f.ClassRegex).MatchString(v.Class) {
			continue
		}
		if f.InputRegex != "" && !regexp.MustCompile(f.InputRegex).MatchString(v.Input) {
			continue
		}
		return f
	}
	return nil
}

// WriteReplay stores a violation as a replayable artefact and returns its path.
func WriteReplay(v Violation) string {
	b, _ := json.MarshalIndent(v, "", " ")
	s := sha256.Sum256([]byte(v.Property + v.Space + fmt.Sprint(v.Index) + v.Class + v.Input))
	dir := filepath.Join(Root, "replays")
	os.MkdirAll(dir, 0o755)
	p := filepath.Join(dir, fmt.Sprintf("%s-%s.json", v.Property, hex.EncodeToString(s[:4])))
	os.WriteFile(p, b, 0o644)
	return p
}

// Hex renders bytes for inputs.
func Hex(b []byte) string {
	if len(b) > 600 {
		return fmt.Sprintf("%s...(%d bytes total)...%s", hex.EncodeToString(b[:300]), len(b), hex.EncodeToString(b[len(b)-64:]))
	}
	return hex.EncodeToString(b)
}

// Trunc shortens long strings for messages.
func Trunc(s string, n int) string {
	if len(s) <= n {
		return s
	}
	return s[:n] + fmt.Sprintf("...(+%d)", len(s)-n)
}

// JoinNonEmpty joins non-empty strings.
func JoinNonEmpty(sep string, parts ...string) string {
	var r []string
	for _, p := range parts {
		if p != "" {
			r = append(r, p)
		}
	}
	return strings.Join(r, sep)
}
