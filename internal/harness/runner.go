package harness

import (
	"bufio"
	"encoding/binary"
	"encoding/json"
	"fmt"
	"math/rand"
	"os"
	"os/exec"
	"path/filepath"
	"runtime/debug"
	"runtime/pprof"
	"sort"
	"strconv"
	"strings"
	"sync"
	"sync/atomic"
	"syscall"
	"time"
)

// ---------------- worker side ----------------

// WorkerMain serves chunk requests on stdin: "<space> <lo> <hi>\n" -> one JSON line.
func WorkerMain(id, tier string, seed int64, progressPath string) {
	ck := Lookup(id)
	if ck == nil {
		fmt.Fprintln(os.Stderr, "unknown check", id)
		os.Exit(2)
	}
	lim := ck.MemLimitGiB
	if lim == 0 {
		lim = 4
	}
	if os.Getenv("VERIF_NO_RLIMIT") == "" && lim > 0 {
		v := uint64(lim) << 30
		syscall.Setrlimit(syscall.RLIMIT_AS, &syscall.Rlimit{Cur: v, Max: v})
	}
	var prog []byte
	if progressPath != "" {
		f, err := os.OpenFile(progressPath, os.O_RDWR|os.O_CREATE, 0o644)
		if err == nil {
			f.Truncate(64)
			prog, _ = syscall.Mmap(int(f.Fd()), 0, 64, syscall.PROT_READ|syscall.PROT_WRITE, syscall.MAP_SHARED)
		}
	}
	spaces := ck.Build(tier, seed)
	if pf := os.Getenv("VERIF_CPUPROFILE"); pf != "" {
		f, _ := os.Create(pf)
		pprof.StartCPUProfile(f)
		defer pprof.StopCPUProfile()
	}
	in := bufio.NewReader(os.Stdin)
	out := bufio.NewWriter(os.Stdout)
	c := NewCtx(id, tier, seed)
	c.progress = prog
	for {
		line, err := in.ReadString('\n')
		if err != nil {
			return
		}
		f := strings.Fields(line)
		if len(f) != 3 {
			continue
		}
		si, _ := strconv.Atoi(f[0])
		lo, _ := strconv.ParseUint(f[1], 10, 64)
		hi, _ := strconv.ParseUint(f[2], 10, 64)
		res := runChunk(c, spaces, si, lo, hi)
		b, _ := json.Marshal(res)
		out.Write(b)
		out.WriteByte('\n')
		out.Flush()
	}
}

func runChunk(c *Ctx, spaces []Space, si int, lo, hi uint64) (res chunkResult) {
	// reset the per-chunk counters, keep the dedupe set
	c.Evals, c.Nontrivial, c.Transitions, c.States, c.ViolCount = 0, 0, 0, 0, 0
	c.Outcomes = map[string]uint64{}
	c.Notes = map[string]uint64{}
	c.Info = map[string]string{}
	c.Viols = nil
	c.ClassCounts = nil
	sp := spaces[si]
	c.space = sp.Name
	res.Space, res.Lo, res.Hi = si, lo, hi
	i := lo
	var slowDur time.Duration
	var slowIdx uint64
	func() {
		// A panic that reaches here escaped the check's own handling: the check
		// functions recover around library calls where a panic is an allowed
		// outcome, so this is a harness-level failure of the case, reported.
		defer func() {
			if r := recover(); r != nil {
				res.Panic = fmt.Sprintf("%v\n%s", r, Trunc(string(debug.Stack()), 3000))
				res.PanicIndex = i
			}
		}()
		for ; i < hi; i++ {
			c.index = i
			if c.progress != nil {
				binary.LittleEndian.PutUint64(c.progress[0:8], uint64(si))
				binary.LittleEndian.PutUint64(c.progress[8:16], i)
				binary.LittleEndian.PutUint64(c.progress[16:24], binary.LittleEndian.Uint64(c.progress[16:24])+1)
			}
			t0 := time.Now()
			sp.Run(c, i)
			if d := time.Since(t0); d > slowDur {
				slowDur, slowIdx = d, i
			}
		}
	}()
	res.SlowNs, res.SlowIdx = int64(slowDur), slowIdx
	res.Evals, res.Nontrivial, res.Transitions, res.States = c.Evals, c.Nontrivial, c.Transitions, c.States
	res.Outcomes, res.Notes, res.Info, res.Viols, res.ViolCount = c.Outcomes, c.Notes, c.Info, c.Viols, c.ViolCount
	res.ClassCounts = c.ClassCounts
	return res
}

// SingleMain runs exactly one case in this process (used for confirmation and replay).
// Exit 0 = no violation, 1 = violation reproduced, other = crash.
func SingleMain(id, tier string, seed int64, space string, index uint64, verbose bool) int {
	ck := Lookup(id)
	if ck == nil {
		fmt.Fprintln(os.Stderr, "unknown check", id)
		return 2
	}
	lim := ck.MemLimitGiB
	if lim == 0 {
		lim = 4
	}
	if os.Getenv("VERIF_NO_RLIMIT") == "" && lim > 0 {
		v := uint64(lim) << 30
		syscall.Setrlimit(syscall.RLIMIT_AS, &syscall.Rlimit{Cur: v, Max: v})
	}
	spaces := ck.Build(tier, seed)
	for si, sp := range spaces {
		if sp.Name != space {
			continue
		}
		c := NewCtx(id, tier, seed)
		from := index
		if f := os.Getenv("VERIF_SINGLE_FROM"); f != "" {
			// the cases from..index in this one process: a failure that needs what earlier cases left behind
			if v, err := strconv.ParseUint(f, 10, 64); err == nil && v <= index {
				from = v
			}
		}
		res := runChunk(c, spaces, si, from, index+1)
		if res.Panic != "" {
			fmt.Printf("HARNESS-PANIC %s\n", res.Panic)
			return 3
		}
		if verbose {
			if sp.Describe != nil {
				b, _ := json.Marshal(sp.Describe(index))
				fmt.Printf("case %s[%d] = %s\n", space, index, b)
			}
			for _, v := range res.Viols {
				fmt.Printf("violation class=%s\n input=%s\n detail=%s\n", v.Class, v.Input, v.Detail)
			}
		}
		if res.ViolCount > 0 {
			return 1
		}
		return 0
	}
	fmt.Fprintln(os.Stderr, "unknown space", space)
	return 2
}

// ---------------- parent side ----------------

type chunk struct {
	space  int
	lo, hi uint64
}

type crash struct {
	space int
	lo    uint64 // first case the dead worker had run in this process
	index uint64
	kind  string // "died" | "hang"
	info  string
}

type worker struct {
	cmd      *exec.Cmd
	stdin    *bufio.Writer
	stdout   *bufio.Reader
	progPath string
	prog     []byte
	stderr   *tailBuf
}

type tailBuf struct {
	mu  sync.Mutex
	buf []byte
}

func (t *tailBuf) Write(p []byte) (int, error) {
	t.mu.Lock()
	defer t.mu.Unlock()
	t.buf = append(t.buf, p...)
	if len(t.buf) > 8000 {
		// keep the head (fatal error line comes first) and the tail
		t.buf = append(t.buf[:3000:3000], t.buf[len(t.buf)-3000:]...)
	}
	return len(p), nil
}
func (t *tailBuf) String() string { t.mu.Lock(); defer t.mu.Unlock(); return string(t.buf) }

func startWorker(id, tier string, seed int64, n int) (*worker, error) {
	exe, _ := os.Executable()
	work := filepath.Join(Root, ".work")
	os.MkdirAll(work, 0o755)
	pp := filepath.Join(work, fmt.Sprintf("progress-%s-%d-%d", id, os.Getpid(), n))
	os.WriteFile(pp, make([]byte, 64), 0o644)
	cmd := exec.Command(exe, "worker", id, tier, strconv.FormatInt(seed, 10), pp)
	cmd.Env = append(os.Environ(), "GOMAXPROCS=1", "GOTRACEBACK=single")
	in, _ := cmd.StdinPipe()
	out, _ := cmd.StdoutPipe()
	tb := &tailBuf{}
	cmd.Stderr = tb
	if err := cmd.Start(); err != nil {
		return nil, err
	}
	w := &worker{cmd: cmd, stdin: bufio.NewWriter(in), stdout: bufio.NewReaderSize(out, 1<<20), progPath: pp, stderr: tb}
	if f, err := os.OpenFile(pp, os.O_RDWR, 0o644); err == nil {
		w.prog, _ = syscall.Mmap(int(f.Fd()), 0, 64, syscall.PROT_READ, syscall.MAP_SHARED)
		f.Close()
	}
	return w, nil
}

func (w *worker) stop() {
	if w.cmd.Process != nil {
		w.cmd.Process.Kill()
	}
	w.cmd.Wait()
	if w.prog != nil {
		syscall.Munmap(w.prog)
	}
	os.Remove(w.progPath)
}

// Result is the merged outcome of a run.
type Result struct {
	Evals, Nontrivial, Transitions, States uint64
	Outcomes                               map[string]uint64
	Notes                                  map[string]uint64
	Info                                   map[string]string
	Viols                                  []Violation
	ViolCount                              uint64
	ClassCounts                            map[string]uint64
	PerSpace                               []map[string]interface{}
	Exhaustive                             bool
	Caps                                   []string
}

// RunCheck executes every case of every space of a check; returns process exit code.
func RunCheck(id, tier string, seed int64) int {
	ck := Lookup(id)
	if ck == nil {
		fmt.Fprintln(os.Stderr, "unknown check", id)
		return 2
	}
	t0 := time.Now()
	spaces := ck.Build(tier, seed)
	nw := ck.Workers
	if nw == 0 {
		nw = 16
	}
	if v, err := strconv.Atoi(os.Getenv("VERIF_WORKERS")); err == nil && v > 0 {
		nw = v
	}
	wd := ck.WatchdogSec
	if wd == 0 {
		wd = 120
	}
	// budget: an engine-level wall-clock budget ends the run with exit 0, exhaustive:false
	budget := time.Duration(0)
	if v, err := strconv.Atoi(os.Getenv("VERIF_BUDGET_SEC")); err == nil && v > 0 {
		budget = time.Duration(v) * time.Second
	}

	// chunk queue
	var queue []chunk
	var total uint64
	for si, sp := range spaces {
		total += sp.Count
		if sp.Count == 0 {
			continue
		}
		if sp.Serial {
			queue = append(queue, chunk{si, 0, sp.Count})
			continue
		}
		cs := sp.ChunkHint
		if cs == 0 {
			cs = sp.Count/uint64(nw*12) + 1
			if cs > 2_000_000 {
				cs = 2_000_000
			}
		}
		for lo := uint64(0); lo < sp.Count; lo += cs {
			hi := lo + cs
			if hi > sp.Count {
				hi = sp.Count
			}
			queue = append(queue, chunk{si, lo, hi})
		}
	}
	// big chunks first for serial spaces (they take longest)
	sort.SliceStable(queue, func(i, j int) bool { return spaces[queue[i].space].Serial && !spaces[queue[j].space].Serial })

	var mu sync.Mutex
	res := Result{Outcomes: map[string]uint64{}, Notes: map[string]uint64{}, Info: map[string]string{}, Exhaustive: true}
	perSpace := make([]struct{ evals, nontrivial, trans, states uint64 }, len(spaces))
	var crashes []crash
	slow := make([]struct {
		ns  int64
		idx uint64
	}, len(spaces))
	var harnessPanics []string
	next := 0
	var outOfBudget, tooManyLosses atomic.Bool
	take := func() (chunk, bool) {
		mu.Lock()
		defer mu.Unlock()
		if budget > 0 && time.Since(t0) > budget {
			outOfBudget.Store(true)
			return chunk{}, false
		}
		if next >= len(queue) {
			return chunk{}, false
		}
		if len(crashes) >= 12 {
			// only the first 12 worker losses are examined: a sweep in which every worker generation is lost after a
			// full watchdog period gains nothing by going on (the run is reported as not exhaustive)
			tooManyLosses.Store(true)
			return chunk{}, false
		}
		c := queue[next]
		next++
		return c, true
	}
	requeue := func(c chunk) {
		mu.Lock()
		queue = append(queue, c)
		mu.Unlock()
	}
	merge := func(r chunkResult) {
		mu.Lock()
		defer mu.Unlock()
		res.Evals += r.Evals
		res.Nontrivial += r.Nontrivial
		res.Transitions += r.Transitions
		res.States += r.States
		res.ViolCount += r.ViolCount
		for k, v := range r.Outcomes {
			res.Outcomes[k] += v
		}
		for k, v := range r.Notes {
			res.Notes[k] += v
		}
		for k, v := range r.Info {
			res.Info[k] = v
		}
		res.Viols = append(res.Viols, r.Viols...)
		for k, v := range r.ClassCounts {
			if res.ClassCounts == nil {
				res.ClassCounts = map[string]uint64{}
			}
			res.ClassCounts[k] += v
		}
		ps := &perSpace[r.Space]
		ps.evals += r.Evals
		ps.nontrivial += r.Nontrivial
		ps.trans += r.Transitions
		ps.states += r.States
		if r.SlowNs > slow[r.Space].ns {
			slow[r.Space].ns, slow[r.Space].idx = r.SlowNs, r.SlowIdx
		}
		if r.Panic != "" {
			harnessPanics = append(harnessPanics, fmt.Sprintf("%s[%d]: %s", spaces[r.Space].Name, r.PanicIndex, r.Panic))
		}
	}

	if nw > len(queue) {
		nw = len(queue)
	}
	var wg sync.WaitGroup
	for n := 0; n < nw; n++ {
		wg.Add(1)
		go func(n int) {
			defer wg.Done()
			var w *worker
			defer func() {
				if w != nil {
					w.stop()
				}
			}()
			for {
				c, ok := take()
				if !ok {
					return
				}
				if w == nil {
					var err error
					w, err = startWorker(id, tier, seed, n)
					if err != nil {
						fmt.Fprintln(os.Stderr, "cannot start worker:", err)
						os.Exit(2)
					}
				}
				fmt.Fprintf(w.stdin, "%d %d %d\n", c.space, c.lo, c.hi)
				w.stdin.Flush()
				type rd struct {
					line string
					err  error
				}
				ch := make(chan rd, 1)
				go func() {
					l, err := w.stdout.ReadString('\n')
					ch <- rd{l, err}
				}()
				var got rd
				lastTick := uint64(0)
				lastChange := time.Now()
				hung := false
			wait:
				for {
					select {
					case got = <-ch:
						break wait
					case <-time.After(500 * time.Millisecond):
						if w.prog != nil {
							tick := binary.LittleEndian.Uint64(w.prog[16:24])
							if tick != lastTick {
								lastTick = tick
								lastChange = time.Now()
							} else if !spaces[c.space].Serial && time.Since(lastChange) > time.Duration(wd)*time.Second {
								hung = true
								break wait
							}
						}
					}
				}
				if hung || got.err != nil {
					// worker died or hangs: the mmap'd progress cell names the exact case
					idx := c.lo
					if w.prog != nil {
						idx = binary.LittleEndian.Uint64(w.prog[8:16])
					}
					kind := "died"
					if hung {
						kind = "hang"
					}
					info := ""
					w.cmd.Process.Kill()
					w.cmd.Wait()
					info = firstLines(w.stderr.String(), 6)
					w.stop()
					w = nil
					mu.Lock()
					crashes = append(crashes, crash{c.space, c.lo, idx, kind, info})
					mu.Unlock()
					if spaces[c.space].Serial {
						continue
					}
					// the cases before idx of this chunk are lost with the worker's
					// counters: re-run them, and continue after the fatal case.
					if idx > c.lo {
						requeueFront(&mu, &queue, &next, chunk{c.space, c.lo, idx})
					}
					if idx+1 < c.hi {
						requeueFront(&mu, &queue, &next, chunk{c.space, idx + 1, c.hi})
					}
					_ = requeue
					continue
				}
				var r chunkResult
				if err := json.Unmarshal([]byte(got.line), &r); err != nil {
					fmt.Fprintf(os.Stderr, "bad worker reply: %v: %s\n", err, Trunc(got.line, 300))
					os.Exit(2)
				}
				merge(r)
			}
		}(n)
	}
	wg.Wait()

	if len(harnessPanics) > 0 {
		for _, p := range harnessPanics {
			fmt.Fprintf(os.Stderr, "HARNESS ERROR (check bug, not a verdict): %s\n", p)
		}
		return 2
	}

	// crashes become violations after confirmation (5 fresh executions)
	sort.Slice(crashes, func(i, j int) bool {
		if crashes[i].space != crashes[j].space {
			return crashes[i].space < crashes[j].space
		}
		return crashes[i].index < crashes[j].index
	})
	if len(crashes) > 12 {
		res.Caps = append(res.Caps, fmt.Sprintf("%d worker losses; only the first 12 were examined", len(crashes)))
		crashes = crashes[:12]
	}
	if len(crashes) > 0 {
		// cases a dead worker had finished are re-run, but the run is not a clean sweep any more: say so
		res.Exhaustive = false
		res.Caps = append(res.Caps, fmt.Sprintf("%d worker process(es) died or hung during the run", len(crashes)))
	}
	confirmedLosses := 0
	for _, cr := range crashes {
		if confirmedLosses >= 3 {
			res.Caps = append(res.Caps, "3 worker losses confirmed and reported; the others were not examined")
			break
		}
		sp := spaces[cr.space]
		v := Violation{Property: id, Tier: tier, Seed: seed, Space: sp.Name, Index: cr.index,
			Class: "process-" + cr.kind, Detail: cr.info}
		if sp.Describe != nil {
			b, _ := json.Marshal(sp.Describe(cr.index))
			v.Input = string(b)
		}
		okc := 0
		const tries = 5
		// the five fresh single-case processes are independent of each other: a hang costs one watchdog period, not five.
		// Cases of checks that raise the memory limit are still confirmed one after the other.
		codes := make([]int, tries)
		if ck.MemLimitGiB > 4 {
			for k := 0; k < tries; k++ {
				codes[k], _ = runSingle(id, tier, seed, sp.Name, cr.index, noPrefix, time.Duration(wd)*time.Second)
			}
		} else {
			var wg sync.WaitGroup
			for k := 0; k < tries; k++ {
				wg.Add(1)
				go func(k int) {
					defer wg.Done()
					codes[k], _ = runSingle(id, tier, seed, sp.Name, cr.index, noPrefix, time.Duration(wd)*time.Second)
				}(k)
			}
			wg.Wait()
		}
		for _, code := range codes {
			if code != 0 && code != 1 {
				okc++
			}
		}
		v.Confirm = fmt.Sprintf("%d/%d fresh executions died or hung", okc, tries)
		if okc == tries {
			res.Viols = append(res.Viols, v)
			res.ViolCount++
			confirmedLosses++
		} else if okc > 0 {
			v.Class += "-unstable"
			res.Viols = append(res.Viols, v)
			res.ViolCount++
			confirmedLosses++
		} else if pre := prefixLoss(id, tier, seed, sp.Name, cr.lo, cr.index, time.Duration(wd)*time.Second); pre == 3 {
			// alone the case is fine: what kills the process is state left behind by the cases the worker had
			// run before it. Re-running exactly those cases and this one in a fresh process shows it every time.
			lo := cr.lo
			v.From = &lo
			v.Class += "-after-earlier-cases"
			v.Confirm = fmt.Sprintf("0/%d alone, 3/3 when the cases %d..%d run in one fresh process", tries, cr.lo, cr.index)
			v.Input = fmt.Sprintf("cases %d..%d of this space in one process; the last one is %s", cr.lo, cr.index, v.Input)
			res.Viols = append(res.Viols, v)
			res.ViolCount++
			confirmedLosses++
		} else {
			fmt.Fprintf(os.Stderr, "note: worker loss at %s[%d] (%s) did not reproduce in 5 isolated executions; not a verdict\n", sp.Name, cr.index, cr.kind)
			res.Caps = append(res.Caps, fmt.Sprintf("worker loss at %s[%d] not reproduced", sp.Name, cr.index))
		}
	}

	if tooManyLosses.Load() {
		res.Exhaustive = false
		res.Caps = append(res.Caps, fmt.Sprintf("12 worker losses on record: the sweep was stopped after %d of %d chunks", next, len(queue)))
	}
	if outOfBudget.Load() {
		res.Exhaustive = false
		res.Caps = append(res.Caps, fmt.Sprintf("wall-clock budget %v reached after %d of %d chunks", budget, next, len(queue)))
	}
	for _, sp := range spaces {
		if sp.NotExhaustive != "" {
			res.Caps = append(res.Caps, sp.Name+": "+sp.NotExhaustive)
		}
	}
	for k, v := range res.Notes {
		if strings.HasPrefix(k, "cap:") && v > 0 {
			res.Exhaustive = false
			res.Caps = append(res.Caps, fmt.Sprintf("%s hit %d times", k, v))
		}
	}
	sort.Strings(res.Caps)

	// known findings / reporting
	findings := LoadFindings()
	sort.SliceStable(res.Viols, func(i, j int) bool {
		if res.Viols[i].Space != res.Viols[j].Space {
			return res.Viols[i].Space < res.Viols[j].Space
		}
		return res.Viols[i].Index < res.Viols[j].Index
	})
	// show variety first: one violation per class prefix (text before the first ':'), then the rest
	{
		seenP := map[string]bool{}
		var first, rest []Violation
		for _, v := range res.Viols {
			p := v.Class
			if i := strings.IndexByte(p, ':'); i > 0 {
				p = p[:i]
			}
			if !seenP[p] {
				seenP[p] = true
				first = append(first, v)
			} else {
				rest = append(rest, v)
			}
		}
		res.Viols = append(first, rest...)
	}
	exit := 0
	knownPrinted := map[string]bool{}
	classSeen := map[string]int{}
	newViol := 0
	for i := range res.Viols {
		v := &res.Viols[i]
		if f := MatchFinding(findings, *v); f != nil {
			if !knownPrinted[f.What] {
				fmt.Printf("KNOWN-FINDING: property=%s %s\n", id, f.What)
				knownPrinted[f.What] = true
			}
			continue
		}
		newViol++
		classSeen[v.Class]++
		if classSeen[v.Class] > 1 || len(classSeen) > 12 {
			continue
		}
		if !strings.HasPrefix(v.Class, "process-") {
			// re-execute to make sure the same case fails every time
			okc := 0
			for k := 0; k < 3; k++ {
				code, _ := runSingle(id, tier, seed, v.Space, v.Index, noPrefix, time.Duration(wd)*time.Second)
				if code == 1 {
					okc++
				}
			}
			v.Confirm = fmt.Sprintf("%d/3 isolated re-executions reproduced it", okc)
		}
		p := WriteReplay(*v)
		fmt.Printf("VIOLATION property=%s replay=%s\n", id, p)
		fmt.Printf("  class=%s space=%s index=%d %s\n  input=%s\n  detail=%s\n", v.Class, v.Space, v.Index, v.Confirm, Trunc(v.Input, 600), Trunc(v.Detail, 900))
		exit = 1
	}
	if newViol > 0 {
		exit = 1
	}
	if os.Getenv("VERIF_CLASSES") != "" {
		for si, sp := range spaces {
			fmt.Printf("  space %-50s cases=%d executed=%d slowest case [%d] %.2fs\n", sp.Name, sp.Count, perSpace[si].evals, slow[si].idx, float64(slow[si].ns)/1e9)
		}
	}
	if len(res.ClassCounts) > 0 && os.Getenv("VERIF_CLASSES") != "" {
		var ks []string
		for k := range res.ClassCounts {
			ks = append(ks, k)
		}
		sort.Strings(ks)
		for _, k := range ks {
			fmt.Printf("  class-count %8d %s\n", res.ClassCounts[k], k)
		}
	}

	// evidence
	wall := time.Since(t0).Seconds()
	for si, sp := range spaces {
		ps := perSpace[si]
		res.PerSpace = append(res.PerSpace, map[string]interface{}{"space": sp.Name, "cases_in_space": sp.Count,
			"executed": ps.evals, "nontrivial": ps.nontrivial, "operations": ps.trans, "bfs_states": ps.states})
	}
	writeEvidence(ck, tier, seed, spaces, &res, total, wall, newViol)
	fmt.Printf("%s %s: spaces=%d cases=%d executed=%d nontrivial=%d ops=%d outcomes=%d violations=%d known=%d exhaustive=%v wall=%.1fs\n",
		id, tier, len(spaces), total, res.Evals, res.Nontrivial, res.Transitions, len(res.Outcomes), newViol, len(knownPrinted), res.Exhaustive, wall)
	return exit
}

func requeueFront(mu *sync.Mutex, q *[]chunk, next *int, c chunk) {
	mu.Lock()
	defer mu.Unlock()
	*q = append(*q, c)
}

func firstLines(s string, n int) string {
	l := strings.Split(s, "\n")
	if len(l) > n {
		l = l[:n]
	}
	return strings.Join(l, " | ")
}

const noPrefix = ^uint64(0)

// prefixLoss re-runs the cases lo..index in one fresh process three times; returns how often it died or hung.
func prefixLoss(id, tier string, seed int64, space string, lo, index uint64, timeout time.Duration) int {
	if lo >= index {
		return 0
	}
	n := 0
	for k := 0; k < 3; k++ {
		code, _ := runSingle(id, tier, seed, space, index, lo, timeout)
		if code != 0 && code != 1 {
			n++
		}
	}
	return n
}

func runSingle(id, tier string, seed int64, space string, index uint64, from uint64, timeout time.Duration) (int, string) {
	exe, _ := os.Executable()
	cmd := exec.Command(exe, "single", id, tier, strconv.FormatInt(seed, 10), space, strconv.FormatUint(index, 10))
	cmd.Env = append(os.Environ(), "GOMAXPROCS=1", "GOTRACEBACK=single")
	if from != noPrefix {
		cmd.Env = append(cmd.Env, "VERIF_SINGLE_FROM="+strconv.FormatUint(from, 10))
	}
	var tb tailBuf
	cmd.Stdout = &tb
	cmd.Stderr = &tb
	if err := cmd.Start(); err != nil {
		return 2, err.Error()
	}
	done := make(chan error, 1)
	go func() { done <- cmd.Wait() }()
	select {
	case err := <-done:
		if err == nil {
			return 0, tb.String()
		}
		if ee, ok := err.(*exec.ExitError); ok {
			return ee.ExitCode(), tb.String()
		}
		return 2, err.Error()
	case <-time.After(timeout):
		cmd.Process.Kill()
		<-done
		return 124, "timeout"
	}
}

func writeEvidence(ck *Check, tier string, seed int64, spaces []Space, res *Result, total uint64, wall float64, viol int) {
	rng := rand.New(rand.NewSource(seed))
	var samples []interface{}
	for _, sp := range spaces {
		if sp.Describe == nil || sp.Count == 0 {
			continue
		}
		idx := []uint64{0, sp.Count - 1}
		for k := 0; k < 2 && sp.Count > 2; k++ {
			idx = append(idx, uint64(rng.Int63n(int64(sp.Count))))
		}
		seen := map[uint64]bool{}
		for _, i := range idx {
			if seen[i] {
				continue
			}
			seen[i] = true
			samples = append(samples, map[string]interface{}{"space": sp.Name, "index": i, "case": sp.Describe(i)})
		}
	}
	if len(samples) == 0 {
		samples = append(samples, "no describable cases")
	}
	if len(samples) > 60 {
		samples = samples[:60]
	}
	states := res.Nontrivial
	trans := res.Transitions
	if res.States > 0 {
		// explicit-state searches report their own distinct states; a transition is one executed case
		states, trans = res.States, res.Evals
	}
	traces := res.Evals
	if ck.SchedulerStyle {
		states, trans, traces = res.States, res.Transitions, res.States
	}
	if states == 0 {
		states = res.Evals
	}
	if trans == 0 {
		trans = res.Evals
	}
	cov := map[string]interface{}{
		"states":                        states,
		"transitions":                   trans,
		"traces_validated_against_impl": traces,
		"evaluations":                   res.Evals,
		"distinct_nontrivial":           states,
		"operations_on_implementation":  res.Transitions,
		"rule":                          ck.Rule,
		"samples":                       samples,
		"exhaustive":                    res.Exhaustive && res.Evals >= total,
		"cases_in_spaces":               total,
		"distinct_outcomes":             len(res.Outcomes),
		"outcome_histogram":             topOutcomes(res.Outcomes, 40),
		"spaces":                        res.PerSpace,
		"caps_hit":                      res.Caps,
		"counters":                      res.Notes,
		"facts":                         res.Info,
	}
	if ck.Extra != nil {
		for k, v := range ck.Extra(tier) {
			cov[k] = v
		}
	}
	ev := map[string]interface{}{
		"property_id": ck.ID,
		"tier":        tier,
		"seed":        seed,
		"level":       "model_checking",
		"coverage":    cov,
		"assumptions": append([]string{"Go toolchain/runtime, math/big, unicode/utf8 are correct", "bounded-exhaustive: the verdict covers exactly the enumerated spaces"}, ck.Assumptions...),
		"wall_s":      wall,
		"violations":  viol,
	}
	b, _ := json.MarshalIndent(ev, "", " ")
	dir := filepath.Join(Root, "evidence")
	os.MkdirAll(dir, 0o755)
	os.WriteFile(filepath.Join(dir, ck.ID+".json"), append(b, '\n'), 0o644)
}

func topOutcomes(m map[string]uint64, n int) map[string]uint64 {
	type kv struct {
		k string
		v uint64
	}
	var l []kv
	for k, v := range m {
		l = append(l, kv{k, v})
	}
	sort.Slice(l, func(i, j int) bool { return l[i].v > l[j].v })
	if len(l) > n {
		l = l[:n]
	}
	r := map[string]uint64{}
	for _, e := range l {
		r[e.k] = e.v
	}
	return r
}

// ReplayMain re-executes a stored violation without the explorer.
func ReplayMain(path string) int {
	b, err := os.ReadFile(path)
	if err != nil {
		fmt.Fprintln(os.Stderr, err)
		return 2
	}
	var v Violation
	if err := json.Unmarshal(b, &v); err != nil {
		fmt.Fprintln(os.Stderr, err)
		return 2
	}
	fmt.Printf("replaying %s %s[%d] class=%s\n", v.Property, v.Space, v.Index, v.Class)
	if v.From != nil {
		os.Setenv("VERIF_SINGLE_FROM", strconv.FormatUint(*v.From, 10))
		fmt.Printf("(the cases %d..%d run in one process)\n", *v.From, v.Index)
	}
	code, out := runSingleVerbose(v.Property, v.Tier, v.Seed, v.Space, v.Index)
	fmt.Print(out)
	switch code {
	case 0:
		fmt.Println("REPLAY: no violation on this tree")
		return 0
	case 1:
		fmt.Printf("VIOLATION property=%s replay=%s\n", v.Property, path)
		return 1
	default:
		fmt.Printf("REPLAY: process ended abnormally (exit %d)\nVIOLATION property=%s replay=%s\n", code, v.Property, path)
		return 1
	}
}

func runSingleVerbose(id, tier string, seed int64, space string, index uint64) (int, string) {
	exe, _ := os.Executable()
	cmd := exec.Command(exe, "single", "-v", id, tier, strconv.FormatInt(seed, 10), space, strconv.FormatUint(index, 10))
	cmd.Env = append(os.Environ(), "GOMAXPROCS=1", "GOTRACEBACK=single")
	out, err := cmd.CombinedOutput()
	if err == nil {
		return 0, string(out)
	}
	if ee, ok := err.(*exec.ExitError); ok {
		return ee.ExitCode(), string(out)
	}
	return 2, err.Error()
}
