// Package ref holds the reference models (oracles). Nothing here imports the
// library under test: the models are compared with it, not built on it.
package ref

import (
	"fmt"
	"math"
	"math/big"
	"strconv"
	"strings"
)

// Kind is a SECS-II item format.
type Kind int

const (
	L Kind = iota
	B
	BOOLEAN
	A
	I8
	I1
	I2
	I4
	F8
	F4
	U8
	U1
	U2
	U4
	// template-only kinds (list children)
	VAR      // list-level item variable
	ELLIPSIS // "..." / "...[k]"
)

// Kinds lists the 14 data formats.
var Kinds = []Kind{L, B, BOOLEAN, A, I8, I1, I2, I4, F8, F4, U8, U1, U2, U4}

// ScalarKinds are the 13 non-list formats.
var ScalarKinds = []Kind{B, BOOLEAN, A, I8, I1, I2, I4, F8, F4, U8, U1, U2, U4}

var kindName = map[Kind]string{L: "L", B: "B", BOOLEAN: "BOOLEAN", A: "A", I8: "I8", I1: "I1", I2: "I2", I4: "I4",
	F8: "F8", F4: "F4", U8: "U8", U1: "U1", U2: "U2", U4: "U4", VAR: "VAR", ELLIPSIS: "ELLIPSIS"}

// libName is the type name used by the library's header routine.
var libName = map[Kind]string{L: "list", B: "binary", BOOLEAN: "boolean", A: "ascii", I8: "i8", I1: "i1", I2: "i2", I4: "i4",
	F8: "f8", F4: "f4", U8: "u8", U1: "u1", U2: "u2", U4: "u4"}

func (k Kind) String() string { return kindName[k] }

// LibName returns the library's internal type name ("list", "i2", ...).
func (k Kind) LibName() string { return libName[k] }

// Code is the SEMI E5 format code (octal in the standard).
func (k Kind) Code() byte {
	switch k {
	case L:
		return 0o00
	case B:
		return 0o10
	case BOOLEAN:
		return 0o11
	case A:
		return 0o20
	case I8:
		return 0o30
	case I1:
		return 0o31
	case I2:
		return 0o32
	case I4:
		return 0o34
	case F8:
		return 0o40
	case F4:
		return 0o44
	case U8:
		return 0o50
	case U1:
		return 0o51
	case U2:
		return 0o52
	case U4:
		return 0o54
	}
	panic("no code")
}

// KindOfCode maps a format code back; ok=false for undefined codes.
func KindOfCode(c byte) (Kind, bool) {
	for _, k := range Kinds {
		if k.Code() == c {
			return k, true
		}
	}
	return 0, false
}

// Width is bytes per element (1 for list = per child count unit).
func (k Kind) Width() int {
	switch k {
	case I8, F8, U8:
		return 8
	case I4, F4, U4:
		return 4
	case I2, U2:
		return 2
	}
	return 1
}

// IsInt / IsUint / IsFloat classify.
func (k Kind) IsInt() bool   { return k == I1 || k == I2 || k == I4 || k == I8 }
func (k Kind) IsUint() bool  { return k == U1 || k == U2 || k == U4 || k == U8 }
func (k Kind) IsFloat() bool { return k == F4 || k == F8 }

// MaxBytes is the SECS-II item payload limit.
const MaxBytes = 1<<24 - 1

// Elem is one array element: a value or a variable name.
type Elem struct {
	Var string  // non-empty => variable
	I   int64   // I*
	U   uint64  // U*, B (0..255)
	F   float64 // F4 (exactly representable in float32 unless the test wants otherwise), F8
	T   bool    // BOOLEAN
	Raw byte    // BOOLEAN as decoded byte (non 0/1 normalise to true)
}

// AVar is an ASCII variable with its length bounds (max -1 = unbounded).
type AVar struct {
	Name     string
	Min, Max int
}

// Node is a value tree or a template.
type Node struct {
	Kind     Kind
	Children []*Node // L
	Elems    []Elem  // scalar arrays except A
	Str      string  // A literal (bytes 0..127)
	AVar     *AVar   // A variable
	Name     string  // VAR / ELLIPSIS name
}

// Size is the element count (-1 for an unfilled ASCII variable).
func (n *Node) Size() int {
	switch n.Kind {
	case L:
		return len(n.Children)
	case A:
		if n.AVar != nil {
			return -1
		}
		return len(n.Str)
	}
	return len(n.Elems)
}

// Variables lists variable names in textual order.
func (n *Node) Variables() []string {
	r := []string{}
	switch n.Kind {
	case L:
		for _, c := range n.Children {
			r = append(r, c.Variables()...)
		}
	case VAR, ELLIPSIS:
		r = append(r, n.Name)
	case A:
		if n.AVar != nil {
			r = append(r, n.AVar.Name)
		}
	default:
		for _, e := range n.Elems {
			if e.Var != "" {
				r = append(r, e.Var)
			}
		}
	}
	return r
}

// Complete reports whether the tree has no variables.
func (n *Node) Complete() bool { return len(n.Variables()) == 0 }

// Count returns the number of nodes.
func (n *Node) Count() int {
	c := 1
	for _, ch := range n.Children {
		c += ch.Count()
	}
	return c
}

// ---------- constructors for tests ----------

func List(ch ...*Node) *Node { return &Node{Kind: L, Children: ch} }
func Ascii(s string) *Node   { return &Node{Kind: A, Str: s} }
func AsciiVar(name string, min, max int) *Node {
	return &Node{Kind: A, AVar: &AVar{name, min, max}}
}
func Var(name string) *Node { return &Node{Kind: VAR, Name: name} }
func Ell(name string) *Node { return &Node{Kind: ELLIPSIS, Name: name} }
func Ints(k Kind, v ...int64) *Node {
	n := &Node{Kind: k, Elems: []Elem{}}
	for _, x := range v {
		n.Elems = append(n.Elems, Elem{I: x})
	}
	return n
}
func Uints(k Kind, v ...uint64) *Node {
	n := &Node{Kind: k, Elems: []Elem{}}
	for _, x := range v {
		n.Elems = append(n.Elems, Elem{U: x})
	}
	return n
}
func Floats(k Kind, v ...float64) *Node {
	n := &Node{Kind: k, Elems: []Elem{}}
	for _, x := range v {
		n.Elems = append(n.Elems, Elem{F: x})
	}
	return n
}
func Bools(v ...bool) *Node {
	n := &Node{Kind: BOOLEAN, Elems: []Elem{}}
	for _, x := range v {
		n.Elems = append(n.Elems, Elem{T: x})
	}
	return n
}
func Bin(v ...byte) *Node {
	n := &Node{Kind: B, Elems: []Elem{}}
	for _, x := range v {
		n.Elems = append(n.Elems, Elem{U: uint64(x)})
	}
	return n
}

// Clone deep-copies.
func (n *Node) Clone() *Node {
	if n == nil {
		return nil
	}
	m := *n
	if n.Children != nil {
		m.Children = make([]*Node, len(n.Children))
		for i, c := range n.Children {
			m.Children[i] = c.Clone()
		}
	}
	if n.Elems != nil {
		m.Elems = append([]Elem{}, n.Elems...)
	}
	if n.AVar != nil {
		v := *n.AVar
		m.AVar = &v
	}
	return &m
}

// ---------- R-enc ----------

// ItemHeader is format byte + nLen length bytes (nLen 0 = minimal).
func ItemHeader(k Kind, payloadLen int, nLen int) []byte {
	if nLen == 0 {
		switch {
		case payloadLen <= 0xFF:
			nLen = 1
		case payloadLen <= 0xFFFF:
			nLen = 2
		default:
			nLen = 3
		}
	}
	h := []byte{k.Code()<<2 | byte(nLen)}
	for i := nLen - 1; i >= 0; i-- {
		h = append(h, byte(payloadLen>>(8*uint(i))))
	}
	return h
}

// F32Bits converts a float64 to IEEE-754 binary32 bits with round-to-nearest-even,
// via math/big (independent of the hardware float32() conversion the library uses).
func F32Bits(v float64) uint32 {
	if v == 0 {
		if math.Signbit(v) {
			return 0x80000000
		}
		return 0
	}
	f, _ := new(big.Float).SetFloat64(v).Float32()
	return math.Float32bits(f)
}

// Encode returns the SECS-II bytes of a variable-free tree, nil if it has variables.
func Encode(n *Node) []byte { return EncodeLen(n, nil) }

// EncodeLen encodes with a chosen number of length bytes per item (pre-order;
// missing or 0 entries = minimal). Returns nil if a choice cannot hold the length.
func EncodeLen(n *Node, choice []int) []byte {
	pos := 0
	out, ok := encodeRec(n, choice, &pos)
	if !ok {
		return nil
	}
	return out
}

func encodeRec(n *Node, choice []int, pos *int) ([]byte, bool) {
	nl := 0
	if *pos < len(choice) {
		nl = choice[*pos]
	}
	*pos++
	fits := func(l int) bool { return nl == 0 || l < 1<<(8*uint(nl)) }
	switch n.Kind {
	case L:
		if !fits(len(n.Children)) {
			return nil, false
		}
		out := ItemHeader(L, len(n.Children), nl)
		for _, c := range n.Children {
			b, ok := encodeRec(c, choice, pos)
			if !ok {
				return nil, false
			}
			out = append(out, b...)
		}
		return out, true
	case VAR, ELLIPSIS:
		return nil, false
	case A:
		if n.AVar != nil || !fits(len(n.Str)) {
			return nil, false
		}
		return append(ItemHeader(A, len(n.Str), nl), n.Str...), true
	}
	w := n.Kind.Width()
	if !fits(len(n.Elems) * w) {
		return nil, false
	}
	out := ItemHeader(n.Kind, len(n.Elems)*w, nl)
	for _, e := range n.Elems {
		if e.Var != "" {
			return nil, false
		}
		var bits uint64
		switch {
		case n.Kind.IsInt():
			bits = uint64(e.I)
		case n.Kind.IsUint(), n.Kind == B:
			bits = e.U
		case n.Kind == BOOLEAN:
			if e.T {
				bits = 1
			}
		case n.Kind == F4:
			bits = uint64(F32Bits(e.F))
		case n.Kind == F8:
			bits = math.Float64bits(e.F)
		}
		for i := w - 1; i >= 0; i-- {
			out = append(out, byte(bits>>(8*uint(i))))
		}
	}
	return out, true
}

// Msg is the reference record of an HSMS message.
type Msg struct {
	Session  int // 0..65535 (-1 unset for SML-only messages)
	Stream   int
	Function int
	W        int // 0,1,2(optional)
	PType    byte
	SType    byte
	System   [4]byte
	Item     *Node // nil = no text
	Name     string
	Dir      string
	Hdr23    [2]byte // control messages: header bytes 2,3
}

// EncodeMsg frames a complete data message: 4-byte length, 10-byte header, item.
func EncodeMsg(m *Msg) []byte { return EncodeMsgLen(m, nil) }

// EncodeMsgLen is EncodeMsg with a length-byte choice for the items.
func EncodeMsgLen(m *Msg, choice []int) []byte {
	var text []byte
	if m.Item != nil {
		text = EncodeLen(m.Item, choice)
		if text == nil {
			return nil
		}
	}
	n := len(text) + 10
	out := []byte{byte(n >> 24), byte(n >> 16), byte(n >> 8), byte(n)}
	out = append(out, byte(m.Session>>8), byte(m.Session))
	b2 := byte(m.Stream)
	if m.W == 1 {
		b2 |= 0x80
	}
	out = append(out, b2, byte(m.Function), 0, 0)
	out = append(out, m.System[:]...)
	return append(out, text...)
}

// ---------- R-dec ----------

// Verdict of the reference decoder.
type Verdict int

const (
	Reject Verdict = iota
	Accept
	Either // a data message nested deeper than the documented limit
)

// STypeName is the HSMS control table ("" = undefined).
func STypeName(p, s byte) string {
	if p != 0 {
		return "undefined"
	}
	switch s {
	case 1:
		return "select.req"
	case 2:
		return "select.rsp"
	case 3:
		return "deselect.req"
	case 4:
		return "deselect.rsp"
	case 5:
		return "linktest.req"
	case 6:
		return "linktest.rsp"
	case 7:
		return "reject.req"
	case 9:
		return "separate.req"
	}
	return "undefined"
}

// Decode is the strict reference decoder.
func Decode(b []byte) (*Msg, Verdict, string) {
	if len(b) < 14 {
		return nil, Reject, "shorter than 14 bytes"
	}
	n := int(b[0])<<24 | int(b[1])<<16 | int(b[2])<<8 | int(b[3])
	if n != len(b)-4 {
		return nil, Reject, "message length mismatch"
	}
	h := b[4:14]
	m := &Msg{Session: int(h[0])<<8 | int(h[1]), PType: h[4], SType: h[5]}
	copy(m.System[:], h[6:10])
	m.Hdr23 = [2]byte{h[2], h[3]}
	if h[4] != 0 {
		return nil, Reject, "PType != 0"
	}
	if h[5] != 0 {
		if STypeName(0, h[5]) == "undefined" {
			return nil, Reject, "undefined SType"
		}
		if n > 10 {
			// a control message is its header (HSMS: length 10); a message object cannot carry the extra bytes, so
			// an accepted one could never "denote exactly those bytes": the only answer that satisfies C03 is refusal
			return nil, Reject, "control message followed by text"
		}
		return m, Accept, ""
	}
	m.Stream = int(h[2] & 0x7f)
	m.Function = int(h[3])
	m.W = int(h[2] >> 7)
	m.Dir = "H<->E"
	if m.W == 1 && m.Function%2 == 0 {
		return nil, Reject, "W-bit on even function"
	}
	text := b[14:]
	if len(text) == 0 {
		return m, Accept, ""
	}
	deepest := 0
	it, used, why := decodeItem(text, 1, &deepest)
	if it == nil {
		return nil, Reject, why
	}
	if used != len(text) {
		return nil, Reject, "trailing bytes after the item"
	}
	m.Item = it
	if deepest > NestingLimit {
		// the decoder documents a nesting limit (it cannot recurse without bound); beyond it either answer is taken
		return m, Either, "lists nested deeper than the decoder's documented limit"
	}
	return m, Accept, ""
}

// NestingLimit is the list nesting depth up to which a well-formed message must be accepted.
const NestingLimit = 10000

func decodeItem(b []byte, depth int, deepest *int) (*Node, int, string) {
	if len(b) < 1 {
		return nil, 0, "missing item"
	}
	k, ok := KindOfCode(b[0] >> 2)
	if !ok {
		return nil, 0, "undefined format code"
	}
	nl := int(b[0] & 3)
	if nl == 0 {
		return nil, 0, "zero length bytes"
	}
	if len(b) < 1+nl {
		return nil, 0, "truncated length"
	}
	length := 0
	for i := 0; i < nl; i++ {
		length = length<<8 | int(b[1+i])
	}
	pos := 1 + nl
	if k == L {
		if depth > *deepest {
			*deepest = depth
		}
		n := &Node{Kind: L, Children: []*Node{}}
		if length > len(b)-pos { // every child needs at least 2 bytes; cheap early bound
			return nil, 0, "list longer than input"
		}
		for i := 0; i < length; i++ {
			c, used, why := decodeItem(b[pos:], depth+1, deepest)
			if c == nil {
				return nil, 0, why
			}
			n.Children = append(n.Children, c)
			pos += used
		}
		return n, pos, ""
	}
	if length > len(b)-pos {
		return nil, 0, "payload truncated"
	}
	p := b[pos : pos+length]
	w := k.Width()
	if length%w != 0 {
		return nil, 0, "length not a multiple of the element width"
	}
	n := &Node{Kind: k, Elems: []Elem{}}
	switch k {
	case A:
		for _, c := range p {
			if c >= 0x80 {
				return nil, 0, "non-ASCII byte"
			}
		}
		return &Node{Kind: A, Str: string(p)}, pos + length, ""
	case B:
		for _, c := range p {
			n.Elems = append(n.Elems, Elem{U: uint64(c)})
		}
	case BOOLEAN:
		for _, c := range p {
			n.Elems = append(n.Elems, Elem{T: c != 0, Raw: c})
		}
	default:
		for i := 0; i < length; i += w {
			var bits uint64
			for j := 0; j < w; j++ {
				bits = bits<<8 | uint64(p[i+j])
			}
			switch {
			case k.IsUint():
				n.Elems = append(n.Elems, Elem{U: bits})
			case k.IsInt():
				sh := uint(64 - 8*w)
				n.Elems = append(n.Elems, Elem{I: int64(bits<<sh) >> sh})
			case k == F4:
				f := float64(math.Float32frombits(uint32(bits)))
				if math.IsNaN(f) || math.IsInf(f, 0) {
					return nil, 0, "non-finite float"
				}
				n.Elems = append(n.Elems, Elem{F: f})
			case k == F8:
				f := math.Float64frombits(bits)
				if math.IsNaN(f) || math.IsInf(f, 0) {
					return nil, 0, "non-finite float"
				}
				n.Elems = append(n.Elems, Elem{F: f})
			}
		}
	}
	return n, pos + length, ""
}

// ---------- R-sml printer ----------

// Print renders a tree/template the way the documented SML output looks.
func Print(n *Node) string { return printIndent(n, 0) }

func printIndent(n *Node, level int) string {
	ind := strings.Repeat("  ", level)
	switch n.Kind {
	case L:
		if len(n.Children) == 0 {
			return ind + "<L[0]>"
		}
		var sb strings.Builder
		det := true
		for _, c := range n.Children {
			switch c.Kind {
			case L:
				sb.WriteString(printIndent(c, level+1) + "\n")
			case VAR:
				sb.WriteString(ind + "  " + c.Name + "\n")
				det = false
			case ELLIPSIS:
				sb.WriteString(ind + "  ...\n")
				det = false
			default:
				sb.WriteString(ind + "  " + printIndent(c, 0) + "\n")
			}
		}
		sz := ""
		if det {
			sz = fmt.Sprintf("[%d]", len(n.Children))
		}
		return ind + "<L" + sz + "\n" + sb.String() + ind + ">"
	case VAR:
		return ind + n.Name
	case ELLIPSIS:
		return ind + "..."
	case A:
		if n.AVar != nil {
			ls := ""
			mn, mx := n.AVar.Min, n.AVar.Max
			switch {
			case mn == 0 && mx == -1:
			case mn == mx:
				ls = fmt.Sprintf("[%d]", mx)
			case mx == -1:
				ls = fmt.Sprintf("[%d..]", mn)
			default:
				ls = fmt.Sprintf("[%d..%d]", mn, mx)
			}
			return ind + "<A" + ls + " " + n.AVar.Name + ">"
		}
		return ind + PrintASCII(n.Str)
	}
	if len(n.Elems) == 0 {
		return ind + "<" + n.Kind.String() + "[0]>"
	}
	parts := make([]string, len(n.Elems))
	for i, e := range n.Elems {
		parts[i] = ElemText(n.Kind, e)
	}
	return fmt.Sprintf("%s<%s[%d] %s>", ind, n.Kind, len(n.Elems), strings.Join(parts, " "))
}

// ElemText prints one element.
func ElemText(k Kind, e Elem) string {
	if e.Var != "" {
		return e.Var
	}
	switch {
	case k.IsInt():
		return strconv.FormatInt(e.I, 10)
	case k.IsUint():
		return strconv.FormatUint(e.U, 10)
	case k == B:
		return "0b" + strconv.FormatUint(e.U, 2)
	case k == BOOLEAN:
		if e.T {
			return "T"
		}
		return "F"
	case k == F4:
		return strconv.FormatFloat(e.F, 'g', -1, 32)
	case k == F8:
		return strconv.FormatFloat(e.F, 'g', -1, 64)
	}
	panic("elem")
}

// PrintASCII: printable runs in quotes, other bytes as 0xNN codes. The quote
// character itself cannot appear inside a quoted run (SML has no escapes), so
// the reference prints it as a character code.
func PrintASCII(s string) string {
	if s == "" {
		return "<A[0]>"
	}
	var sb strings.Builder
	in := false
	for i := 0; i < len(s); i++ {
		c := s[i]
		if c < 32 || c == 127 || c == '"' {
			if in {
				sb.WriteByte('"')
				in = false
			}
			fmt.Fprintf(&sb, " 0x%02X", c)
		} else {
			if !in {
				sb.WriteString(` "`)
				in = true
			}
			sb.WriteByte(c)
		}
	}
	if in {
		sb.WriteByte('"')
	}
	return "<A" + sb.String() + ">"
}

// Header prints the SML message header.
func Header(m *Msg) string {
	h := fmt.Sprintf("S%dF%d", m.Stream, m.Function)
	switch m.W {
	case 1:
		h += " W"
	case 2:
		h += " [W]"
	}
	h += " " + m.Dir
	if m.Name != "" {
		h += " " + m.Name
	}
	return h
}

// PrintMsg prints a whole SML message.
func PrintMsg(m *Msg) string {
	if m.Item == nil {
		return Header(m) + "\n."
	}
	return Header(m) + "\n" + Print(m.Item) + "\n."
}

// WaitBitName maps 0/1/2.
func WaitBitName(w int) string { return [...]string{"false", "true", "optional"}[w] }

// LineCol is R-pos: 1-based line and rune column of byte offset off in s.
func LineCol(s string, off int) (int, int) {
	line := 1 + strings.Count(s[:off], "\n")
	ls := strings.LastIndex(s[:off], "\n") + 1
	col := 1
	for range s[ls:off] {
		col++
	}
	return line, col
}

// Span locates one item header inside a well-formed message text.
type Span struct {
	Off    int // offset of the format byte
	NLen   int // number of length bytes
	Kind   Kind
	Length int // declared length
}

// Spans lists the item headers of a well-formed text in pre-order.
func Spans(text []byte) []Span {
	var out []Span
	var rec func(pos int) int
	rec = func(pos int) int {
		k, _ := KindOfCode(text[pos] >> 2)
		nl := int(text[pos] & 3)
		l := 0
		for i := 0; i < nl; i++ {
			l = l<<8 | int(text[pos+1+i])
		}
		out = append(out, Span{pos, nl, k, l})
		p := pos + 1 + nl
		if k == L {
			for i := 0; i < l; i++ {
				p = rec(p)
			}
			return p
		}
		return p + l
	}
	if len(text) > 0 {
		rec(0)
	}
	return out
}
