// Package conc defines the C17 scenario alphabet: shared objects and the
// operations that harness threads run on them concurrently. It is compiled
// three ways: plain (sequential reference results), with -race (free-running
// race matrix) and with the statement-level instrumentation overlay (scheduler).
package conc

import (
	"fmt"
	"sort"
	"strings"
	"sync"

	"github.com/wolimst/lib-secs2-hsms-go/pkg/ast"
	"github.com/wolimst/lib-secs2-hsms-go/pkg/parser/hsms"
	"github.com/wolimst/lib-secs2-hsms-go/pkg/parser/sml"
)

// Shared is the set of objects that all threads of one execution share.
type Shared struct {
	Tmpl    ast.ItemNode     // nested list template: two ellipses, four variables
	IntNode ast.ItemNode     // IntNode with two variables
	AVar    ast.ItemNode     // ASCII variable
	Child   ast.ItemNode     // variable-free children for NewListNode
	Incompl *ast.DataMessage // incomplete message over Tmpl
	Compl   *ast.DataMessage // complete message
	Ctl     ast.HSMSMessage  // select.req
	Text    string           // shared SML text
	Text2   string
	Bytes   []byte // shared HSMS bytes (read-only)
	Big     []byte // shared HSMS bytes of a message with 2048-element arrays (read-only)
	Deep    []byte // shared HSMS bytes of a message nested 140 lists deep (read-only)
	Fill    map[string]interface{}
	EllFill map[string]interface{}
	Scal    ast.ItemNode // one item of every remaining kind with variables: F8, F4, BOOLEAN, B, U8
	ScalA   map[string]interface{}
	ScalB   map[string]interface{} // other values for the same variables
}

// NewShared builds a fresh set of shared objects. It must not call any observer
// (String, ToBytes, Variables, ...) on an object it shares: the first use of every
// object has to be able to happen concurrently (lazily built state inside objects).
func NewShared() *Shared {
	s := &Shared{}
	s.Tmpl = ast.NewListNode(
		ast.NewListNode(ast.NewUintNode(1, "a"), "b", "...[0]"),
		ast.NewASCIINodeVariable("c", 0, 8),
		"...[1]",
		ast.NewIntNode(2, 5, "d"),
	)
	s.IntNode = ast.NewIntNode(4, "x", 3, "y")
	s.AVar = ast.NewASCIINodeVariable("s", 1, 5)
	s.Child = ast.NewListNode(ast.NewBinaryNode(1, 2), ast.NewFloatNode(8, 0.5), ast.NewIntNode(8, -2, 258), ast.NewUintNode(4, 65537), ast.NewBooleanNode(true))
	s.Incompl = ast.NewDataMessage("tmpl", 5, 1, 2, "H<-E", s.Tmpl) // single-digit codes: the shortest header prefix
	mk := func() *ast.DataMessage {
		return ast.NewHSMSDataMessage("done", 1, 13, 1, "H->E", ast.NewListNode(ast.NewListNode(ast.NewBinaryNode(1, 2), ast.NewFloatNode(8, 0.5), ast.NewIntNode(8, -2, 258), ast.NewUintNode(4, 65537), ast.NewBooleanNode(true)), ast.NewASCIINode("MDLN")), 258, []byte{1, 2, 3, 4})
	}
	s.Compl = ast.NewHSMSDataMessage("done", 1, 13, 1, "H->E", ast.NewListNode(s.Child, ast.NewASCIINode("MDLN")), 258, []byte{1, 2, 3, 4})
	s.Ctl = ast.NewHSMSMessageSelectReq(7, []byte{9, 8, 7, 6})
	s.Text = "S1F13 W\n<L <A x> <B 1>>\n."
	s.Text2 = "S6F11 [W] n // c\n<L <U4 1 v> <A[..4] w> ...>\n."
	s.Bytes = mk().ToBytes() // the bytes of an equal twin: s.Compl itself stays untouched
	s.Big, s.Deep = bigInputs()
	s.Fill = map[string]interface{}{"a": 9, "c": "text", "d": -4, "x": 1, "y": 2, "s": "abc", "b": ast.NewBooleanNode(true)}
	s.EllFill = map[string]interface{}{"...[0]": 1, "...[1]": 1}
	s.Scal = ast.NewListNode(ast.NewFloatNode(8, 1.5, "f"), ast.NewFloatNode(4, "g", "h"), ast.NewBooleanNode("t", true), ast.NewBinaryNode("bin", 3), ast.NewUintNode(8, "u", 7))
	s.ScalA = map[string]interface{}{"f": 2.5, "g": 0.25, "h": -1.0, "t": false, "bin": 200, "u": 18446744073709551615.0 / 2, "unknown": 1}
	s.ScalB = map[string]interface{}{"f": -7.0, "g": 1e10, "h": 3.0, "t": true, "bin": 0, "u": 1, "other": "x"}
	delete(s.ScalA, "u")
	s.ScalA["u"] = uint64(1) << 63
	return s
}

var (
	inputsOnce          sync.Once
	bigBytes, deepBytes []byte
)

// bigInputs builds the two large read-only inputs once (they are expensive to build and never written).
func bigInputs() ([]byte, []byte) {
	inputsOnce.Do(func() {
		bigVals := make([]interface{}, 2048)
		for i := range bigVals {
			bigVals[i] = i
		}
		bigBytes = ast.NewHSMSDataMessage("", 2, 1, 0, "H->E", ast.NewListNode(ast.NewUintNode(2, bigVals...), ast.NewIntNode(4, bigVals...)), 1, []byte{0, 0, 0, 1}).ToBytes()
		var deep ast.ItemNode = ast.NewUintNode(1, 7)
		for i := 0; i < 140; i++ {
			deep = ast.NewListNode(deep)
		}
		deepBytes = ast.NewHSMSDataMessage("", 3, 1, 0, "H->E", deep, 1, []byte{0, 0, 0, 2}).ToBytes()
	})
	return bigBytes, deepBytes
}

// Op is one operation of the alphabet; Run returns a digest of everything the call returned.
type Op struct {
	Name string
	Run  func(s *Shared) string
}

func msgs(ms []*ast.DataMessage, errs, warns []string) string {
	var sb strings.Builder
	for _, m := range ms {
		sb.WriteString(m.String() + "|" + strings.Join(m.Variables(), ",") + "|")
	}
	return fmt.Sprintf("%s errs=%q warns=%q", sb.String(), errs, warns)
}

// Ops is the operation alphabet (21 operations).
var Ops = []Op{
	{"String(template)", func(s *Shared) string { return fmt.Sprint(s.Tmpl) }},
	{"ToBytes(complete message)", func(s *Shared) string { return fmt.Sprintf("%x", s.Compl.ToBytes()) }},
	{"Variables(template)", func(s *Shared) string { return strings.Join(s.Tmpl.Variables(), ",") }},
	{"Size+String(IntNode)", func(s *Shared) string { return fmt.Sprint(s.IntNode.Size(), s.IntNode) }},
	{"FillVariables(values)", func(s *Shared) string {
		return fmt.Sprint(s.Tmpl.FillVariables(s.Fill), s.IntNode.FillVariables(s.Fill), s.AVar.FillVariables(s.Fill))
	}},
	{"FillVariables(ellipses)", func(s *Shared) string { r := s.Tmpl.FillVariables(s.EllFill); return fmt.Sprint(r, r.Variables()) }},
	{"Header+String(incomplete message)", func(s *Shared) string { return s.Incompl.Header() + s.Incompl.String() }},
	{"SetWaitBit(incomplete message)", func(s *Shared) string { m := s.Incompl.SetWaitBit(true); return m.Header() + m.WaitBit() }},
	{"SetSessionIDAndSystemBytes", func(s *Shared) string {
		m := s.Incompl.SetSessionIDAndSystemBytes(77, []byte{5, 6, 7, 8})
		return fmt.Sprintf("%d %x %x", m.SessionID(), m.SystemBytes(), m.ToBytes())
	}},
	{"SystemBytes+Type(messages)", func(s *Shared) string {
		return fmt.Sprintf("%x %s %s %x", s.Compl.SystemBytes(), s.Compl.Type(), s.Ctl.Type(), s.Ctl.ToBytes())
	}},
	{"NewListNode(shared children)", func(s *Shared) string {
		l := ast.NewListNode(s.Child, s.Child, s.IntNode)
		return fmt.Sprint(l, l.Variables())
	}},
	{"sml.Parse(shared text)", func(s *Shared) string { return msgs(sml.Parse(s.Text)) }},
	{"sml.Parse(other text)", func(s *Shared) string { return msgs(sml.Parse(s.Text2)) }},
	{"hsms.Parse(shared bytes)", func(s *Shared) string {
		m, ok := hsms.Parse(s.Bytes)
		if !ok {
			return "refused"
		}
		return fmt.Sprintf("%s %x", m.Type(), m.ToBytes())
	}},
	{"NewHSMSMessageSelectRsp(shared request)", func(s *Shared) string { return fmt.Sprintf("%x", ast.NewHSMSMessageSelectRsp(s.Ctl, 0).ToBytes()) }},
	{"hsms.Parse(140 nested lists)", func(s *Shared) string {
		m, ok := hsms.Parse(s.Deep)
		if !ok {
			return "refused"
		}
		return fmt.Sprintf("%s %x", m.Type(), m.ToBytes())
	}},
	{"FillVariables(float/boolean/binary items, values A)", func(s *Shared) string {
		r := s.Scal.FillVariables(s.ScalA)
		return fmt.Sprint(r, r.Variables(), fmt.Sprintf("%x", r.ToBytes()))
	}},
	{"FillVariables(float/boolean/binary items, values B)+String", func(s *Shared) string {
		r := s.Scal.FillVariables(s.ScalB)
		return fmt.Sprint(r, r.Variables(), fmt.Sprintf("%x", r.ToBytes()), s.Scal)
	}},
	{"hsms.Parse(2048-element arrays)", func(s *Shared) string {
		m, ok := hsms.Parse(s.Big)
		if !ok {
			return "refused"
		}
		return fmt.Sprintf("%s %x", m.Type(), m.ToBytes())
	}},
	// faulty texts take the parser's error and recovery paths (a duplicated variable name on sized ASCII items, then a
	// second faulty message), with declared sizes that differ between the two operations
	{"sml.Parse(faulty text, duplicated sized ASCII variable [6])", func(s *Shared) string {
		return msgs(sml.Parse("S1F1 W\n<L <A[6] nm> <A[6] nm>>\n.\nS1F5 <L <U1 $"))
	}},
	{"sml.Parse(faulty text, duplicated sized ASCII variable [300])", func(s *Shared) string {
		return msgs(sml.Parse("S2F1\n<L <A[300] nm> <A[2..300] nm>>\n.\nS2F5 <A \"x> ."))
	}},
}

// Pairs lists all unordered pairs (i <= j) of operations, including an operation with itself.
func Pairs() [][2]int {
	var p [][2]int
	for i := range Ops {
		for j := i; j < len(Ops); j++ {
			p = append(p, [2]int{i, j})
		}
	}
	return p
}

// Triples lists all unordered triples i < j < k.
func Triples() [][3]int {
	var t [][3]int
	for i := range Ops {
		for j := i + 1; j < len(Ops); j++ {
			for k := j + 1; k < len(Ops); k++ {
				t = append(t, [3]int{i, j, k})
			}
		}
	}
	return t
}

// SharedDigest renders the observable state of every shared object (used to detect writes to shared data).
func SharedDigest(s *Shared) string {
	keys := func(m map[string]interface{}) string {
		var ks []string
		for k, v := range m {
			ks = append(ks, fmt.Sprintf("%s=%v", k, v))
		}
		sort.Strings(ks)
		return strings.Join(ks, ",")
	}
	return fmt.Sprint(s.Tmpl, s.Tmpl.Variables(), s.IntNode, s.AVar, s.Child, s.Incompl.String(), s.Incompl.Variables(), s.Compl.String(),
		fmt.Sprintf("%x %x %x", s.Compl.ToBytes(), s.Compl.SystemBytes(), s.Ctl.ToBytes()), s.Text, s.Text2, fmt.Sprintf("%x", s.Bytes), keys(s.Fill), keys(s.EllFill),
		s.Scal, s.Scal.Variables(), keys(s.ScalA), keys(s.ScalB))
}

// Sequential computes the reference result of every operation run alone on fresh objects.
func Sequential() []string {
	r := make([]string, len(Ops))
	for i, o := range Ops {
		r[i] = o.Run(NewShared())
	}
	return r
}
