package props

import (
	"fmt"
	"strconv"
	"strings"
	"unicode/utf8"

	h "verif/internal/harness"
	"verif/internal/ref"
)

// C19 — messages in one SML text are parsed independently (concatenation law).

var c19Texts = func() []string {
	t := []string{
		"", "S1F1 .", "S1F1 W .", "S1F2 H<-E .", "S1F1 [W] H<->E name .", "s9f9 w h->e lower\n.", "S1F1 W\n.", "S0F0\n.\n",
		"S1F1 W H->E AreYouThere?\n.", "S1F3 W <L <U1 v0> <A v1>> .", "S1F3 W <L <U1 v0> <A v1>>\n.", "S1F5 <L <U1 v0> ...> .", "S1F5 <L <U1 v0> ...[0]> .",
		"S1F5 <L <L <U1 v0> ...> ...> .", "S1F5 <L <L <U1 v0> ...[0]> ...[1]> .", "S1F5 <L <L <U1 v0> ...[5]> ...[9]> .", "S2F1 <A \"text // not a comment\"> .",
		"S2F1 <A \"a\" 0x0A \"b\"> . // trailing comment\n", "// leading comment\nS2F3 <B 0xFF 0b1 7> .", "S2F5 <BOOLEAN T F t f> .", "S2F7 <F4 1.5 -0 1e10> .",
		"S2F9 <F8 v0 v1> .", "S2F11 <I8 -9223372036854775808 v0> .", "S2F13 <U8 18446744073709551615> .", "S2F15 <L> .", "S2F15 <L[0]> .", "S2F17 <L[2] <L> <L>> .",
		"S2F19 <A[2..5] v0> .", "S2F21 <A[..5] v0> .", "S2F23 <A[3] \"abc\"> .", "S2F25 <L v0 v1 ...> .", "S2F27 <L v0 <L v1 ...> ...>\n.\n\n", "S3F1 W\n<L[2]\n  <U1[1] 1>\n  <A \"x\">\n>\n.",
		"S3F3 <I1 1> . S3F5 <I2 2> .", "S3F7 W H->E first . S3F8 H<-E second .", "S3F9 <L <A v0> ...> . S3F11 <L <A v0> ...> .", "S4F1 <U1[3] 1 2 3> .\t", "S4F3 <U2 0x10 0o17 0b11> .\r\n",
		"S4F5 <L <U1 x[0]> <U1 x[1]>> .", "S2F7 <F4 0.1 1e-46 16777217 v0> .", "S2F9 <F8 0.1 1e-46 16777217 v0> .", "S2F11 <L <F4 0.1> <F8 0.1> <F4 0.1>> .",
		"S6F1 <A \"LEFTOVER\" T> .", "S6F1 <A \"LEFT\" 65 $> .", "S6F1 <A \"abc\" \"unclosed> .", "S6F1 <L <A x> <A x>> .", "S6F1 <U1 256> <", "S6F3 <A \"ok\" 0x41> .", "S6F5 <U1 255> .", "\ufeffS1F1 .", "\ufeffS5F3 W <L> .", "\fS5F3 W .", "\u00a0S2F1 <A \"x\"> .\u2028", "S1F1 .\u200b", "S4F7\n// c1\n<L // c2\n <U1 1> // c3\n> // c4\n. // c5\n", "S127F255 W .", "S5F1 W <A> .", "S5F3 <A 0x00 0x7F> .",
		// candidates that end without a blank before the final point, or in a name: judged only if accepted alone
		"S1F1 W H->E AreYouThere.", "S1F1 Name.", "S1F1 W H->E Recipe.v2 .", "S1F1 W.", "S1F1.", "S1F1 W H->E.", "S1F1 [W]H<->E n.", "S7F1 <A \"last line\">.", "S7F3 <L <A \"x\"> <A \"y\">>.",
		"S7F5 <A[1] \"z\">\n.", "S7F7 <U1 1>.S7F9 <U1 2>.",
	}
	// printed forms of small templates (reusing the names v0, v1, ... in every message)
	ts := NewTreeScope(smlAtoms(), 2, 2, 1)
	for i := uint64(0); i < ts.Count(); i++ {
		n := ts.Nth(i)
		if nameTemplate(n) {
			t = append(t, ref.PrintMsg(&ref.Msg{Stream: 7, Function: int(i%200) | 1, W: int(i % 3), Dir: []string{"H->E", "H<-E", "H<->E"}[i%3], Name: "m", Item: n}))
		}
	}
	return t
}()

var c19Seps = []string{"", " ", "\n", "\r\n\t", " // c\n", "//\n//x\n", "\n\n  \n", "\f", "\u00a0", " \u2028", "\v\n\u3000", "\n\u0085", " // note\rmore\n", "// a \"b\rc\r\n", "\t//\r\r\n"}

type parsed struct {
	views []msgView
	warns []string
	ok    bool
}

func parseViews(text string) (p parsed, pan string) {
	ms, errs, warns, pn := smlRun(text)
	if pn != "" {
		return p, pn
	}
	p.ok = len(errs) == 0
	for _, m := range ms {
		p.views = append(p.views, viewOf(m))
	}
	p.warns = warns
	return p, ""
}

// shiftDiag moves a diagnostic by the prefix text it is now preceded by.
func shiftDiag(d, prefix string) string {
	line, col, ok := diagPos(d)
	if !ok {
		return "<malformed> " + d
	}
	nl := strings.Count(prefix, "\n")
	if line == 1 {
		last := prefix[strings.LastIndex(prefix, "\n")+1:]
		col += utf8.RuneCountInString(last)
	}
	rest := d[strings.Index(d, ": "):]
	return fmt.Sprintf("Ln %d, Col %d%s", line+nl, col, rest)
}

// concatLaw checks Parse(t1+sep+t2) == Parse(t1) ++ Parse(t2).
func concatLaw(c *h.Ctx, parts []string, seps []string) string {
	var want parsed
	want.ok = true
	text := ""
	for i, t := range parts {
		if i > 0 {
			text += seps[i-1]
		}
		p, pan := parseViews(t)
		c.Ops(1)
		if pan != "" {
			c.Fail("panic", strconv.Quote(t), pan)
			return "bad"
		}
		if !p.ok {
			return "part-not-accepted"
		}
		want.views = append(want.views, p.views...)
		for _, w := range p.warns {
			want.warns = append(want.warns, shiftDiag(w, text))
		}
		text += t
	}
	got, pan := parseViews(text)
	c.Ops(1)
	in := "sml.Parse(" + strconv.Quote(trunc(text, 1500)) + ")"
	if pan != "" {
		c.Fail("panic", in, pan)
		return "bad"
	}
	if !got.ok {
		c.Fail("concatenation-rejected", in, "each part is accepted alone, the concatenation reports errors")
		return "bad"
	}
	if len(got.views) != len(want.views) {
		c.Fail("message-count", in, fmt.Sprintf("%d messages, parts alone give %d", len(got.views), len(want.views)))
		return "bad"
	}
	for i := range got.views {
		if d := want.views[i].diff(got.views[i]); d != "" {
			c.Fail("message-depends-on-neighbour", in, fmt.Sprintf("message %d: alone vs in sequence: %s", i, d))
			return "bad"
		}
	}
	if !eqStrings(got.warns, want.warns) {
		c.Fail("warnings-differ", in, fmt.Sprintf("warnings %q, parts alone (shifted) give %q", got.warns, want.warns))
		return "bad"
	}
	return fmt.Sprintf("law-holds-%d", len(got.views))
}

func init() {
	h.Register(&h.Check{
		ID:   "C19",
		Rule: "all ordered pairs over an alphabet of accepted texts (hand-picked finals/warnings/ellipsis forms plus printed templates reusing the same variable names) x 7 separators; every accepted token soup x context texts in both orders; triples over a subset; oracle: the concatenation is accepted and returns exactly the messages (deep equality incl. Variables) and position-shifted warnings of the parts; non-trivial = concatenation parsed and compared",
		Build: func(tier string, seed int64) []h.Space {
			var sp []h.Space
			T := c19Texts
			sp = append(sp, h.Space{Name: "all-ordered-pairs-x-separators", Count: product(len(T), len(T), len(c19Seps)),
				Describe: func(i uint64) interface{} {
					d := unrank(i, len(T), len(T), len(c19Seps))
					return T[d[0]] + c19Seps[d[2]] + T[d[1]]
				},
				Run: func(c *h.Ctx, i uint64) {
					d := unrank(i, len(T), len(T), len(c19Seps))
					out := concatLaw(c, []string{T[d[0]], T[d[1]]}, []string{c19Seps[d[2]]})
					c.Case(0, out != "part-not-accepted", out)
				}})
			k := 3
			ctx := []int{1, 9, 11, 14, 31}
			if tier == "thorough" {
				k = 4
			}
			sp = append(sp, h.Space{Name: fmt.Sprintf("accepted-soups-le%d-x-context-x-order", k), Count: soupCount(k) * uint64(len(ctx)) * 2,
				Describe: func(i uint64) interface{} {
					s := soupText(i / uint64(len(ctx)*2))
					return fmt.Sprintf("soup %q with %q order %d", s, T[ctx[i/2%uint64(len(ctx))]], i%2)
				},
				Run: func(c *h.Ctx, i uint64) {
					s := soupText(i / uint64(len(ctx)*2))
					if strings.Contains(s, "//") && !strings.HasSuffix(s, "\n") {
						s += "\n"
					}
					o := T[ctx[i/2%uint64(len(ctx))]]
					parts := []string{s, o}
					if i%2 == 1 {
						parts = []string{o, s}
					}
					out := concatLaw(c, parts, []string{"\n"})
					c.Case(0, out != "part-not-accepted", out)
				}})
			// independence also holds across CALLS: what Parse returns for a text does not depend on the
			// texts parsed earlier in the same process
			sp = append(sp, h.Space{Name: "result-independent-of-earlier-parse-calls", Count: product(len(T), len(T)), ChunkHint: 512,
				Describe: func(i uint64) interface{} {
					d := unrank(i, len(T), len(T))
					return fmt.Sprintf("Parse(%q) before and after Parse(%q)", T[d[1]], T[d[0]])
				},
				Run: func(c *h.Ctx, i uint64) {
					d := unrank(i, len(T), len(T))
					before, p1 := parseViews(T[d[1]])
					_, p2 := parseViews(T[d[0]])
					after, p3 := parseViews(T[d[1]])
					c.Ops(3)
					in := fmt.Sprintf("Parse(%s) before and after Parse(%s)", strconv.Quote(T[d[1]]), strconv.Quote(T[d[0]]))
					if p1 != "" || p2 != "" || p3 != "" {
						c.Fail("panic", in, p1+p2+p3)
					} else if before.ok != after.ok || len(before.views) != len(after.views) || !eqStrings(before.warns, after.warns) {
						c.Fail("result-depends-on-earlier-calls", in, fmt.Sprintf("accepted %v -> %v, %d -> %d messages", before.ok, after.ok, len(before.views), len(after.views)))
					} else {
						for k := range before.views {
							if dd := before.views[k].diff(after.views[k]); dd != "" {
								c.Fail("result-depends-on-earlier-calls", in, dd)
								break
							}
						}
					}
					c.Case(0, true, "call-independent")
				}})
			sub := []int{1, 4, 9, 11, 12, 14, 15, 17, 24, 27, 30, 31, 33, 35, 38, 39}
			if tier != "thorough" {
				sub = sub[:9]
			}
			sp = append(sp, h.Space{Name: "triples-over-subset", Count: product(len(sub), len(sub), len(sub), 3),
				Describe: func(i uint64) interface{} {
					d := unrank(i, len(sub), len(sub), len(sub), 3)
					return []string{T[sub[d[0]]], T[sub[d[1]]], T[sub[d[2]]]}
				},
				Run: func(c *h.Ctx, i uint64) {
					d := unrank(i, len(sub), len(sub), len(sub), 3)
					sep := [][]string{{"", "\n"}, {" // c\n", " "}, {"\r\n", ""}}[d[3]]
					out := concatLaw(c, []string{T[sub[d[0]]], T[sub[d[1]]], T[sub[d[2]]]}, sep)
					c.Case(0, out != "part-not-accepted", out)
				}})
			return sp
		},
	})
}
