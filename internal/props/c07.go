package props

import (
	"fmt"
	"runtime"

	h "verif/internal/harness"
	"verif/internal/ref"
)

// C07 — decoder totality and linear memory: hostile declared lengths at every
// nesting depth, long honest inputs, unstructured bytes; each decoded in an
// isolated, address-space-limited worker with the allocation delta measured.

const (
	allocBase    = 64 << 10
	allocPerByte = 2048
)

// heapAllocs is the exact cumulative allocation counter: ReadMemStats stops the
// world and flushes the per-P caches (runtime/metrics is only span-accurate).
func heapAllocs() uint64 {
	var m runtime.MemStats
	runtime.ReadMemStats(&m)
	return m.TotalAlloc
}

// decodeMeasured decodes x, checks totality and the linear allocation bound.
func decodeMeasured(c *h.Ctx, kind string, x []byte, describe func() string) string {
	before := heapAllocs()
	_, ok, pan := parseSafe(x)
	delta := heapAllocs() - before
	c.Ops(1)
	if pan != "" {
		c.Fail("panic-escaped:"+kind, describe(), pan)
		return "panic"
	}
	bound := uint64(allocBase + allocPerByte*len(x))
	if delta > bound {
		c.Fail("superlinear-allocation:"+kind, describe(),
			fmt.Sprintf("decoding %d input bytes allocated %d bytes (bound 64 KiB + 2048 B/byte = %d); ok=%v", len(x), delta, bound, ok))
		return "over-bound"
	}
	if ok {
		return "accepted"
	}
	return "refused"
}

type hostile struct {
	code    byte // format code (6 bits)
	nlen    int
	decl    int
	present int
	depth   int
	outer   int // declared child count of each enclosing list
}

func (t hostile) bytes() []byte {
	var text []byte
	for d := 0; d < t.depth; d++ {
		text = append(text, ref.ItemHeader(ref.L, t.outer, 0)...)
	}
	text = append(text, t.code<<2|byte(t.nlen))
	for i := t.nlen - 1; i >= 0; i-- {
		text = append(text, byte(t.decl>>(8*uint(i))))
	}
	for i := 0; i < t.present; i++ {
		text = append(text, byte(0x30+i%10))
	}
	return hdr(1, 1, text)
}

func (t hostile) String() string {
	return fmt.Sprintf("format code %#o with %d length byte(s) declaring %d, %d payload byte(s) present, inside %d list(s) each declaring %d children",
		t.code, t.nlen, t.decl, t.present, t.depth, t.outer)
}

func init() {
	h.Register(&h.Check{
		ID:   "C07",
		Rule: "complete product format x length-bytes x declared length x bytes present x nesting depth x enclosing declared count; honest inputs of 2^k bytes for every format; all texts up to k bytes over byte / 24-symbol alphabets behind a valid header; each decoded by the real decoder in an rlimited worker, oracle = normal return and heap allocation delta <= 64 KiB + 2048 B per input byte; non-trivial = input decoded and measured",
		Assumptions: []string{"allocation constants are measured, not derived: worst honest input (lists of empty items) allocates about 530 B per input byte on this tree",
			"the heap allocation counter does not include goroutine stack; stack exhaustion shows as a dead worker (process abort), which is a violation of its own"},
		WatchdogSec: 120,
		Build: func(tier string, seed int64) []h.Space {
			var sp []h.Space
			var hs []hostile
			codes := []byte{}
			for _, k := range ref.Kinds {
				codes = append(codes, k.Code())
			}
			codes = append(codes, 0o03) // undefined
			for _, code := range codes {
				for _, nl := range []int{1, 2, 3} {
					for _, decl := range []int{0, 1, 7, 255, 256, 65535, 65536, 1<<24 - 1} {
						if decl >= 1<<(8*uint(nl)) {
							continue
						}
						pres := []int{0, 1}
						if decl > 1 && decl <= 256 {
							pres = append(pres, decl-1)
						}
						if decl <= 65536 && decl > 1 {
							pres = append(pres, decl)
						}
						for _, p := range pres {
							for _, depth := range []int{0, 1, 2, 3, 8, 64} {
								outers := []int{1, 255, 1<<24 - 1}
								if depth == 0 {
									outers = []int{1}
								}
								for _, o := range outers {
									hs = append(hs, hostile{code, nl, decl, p, depth, o})
								}
							}
						}
					}
				}
			}
			sp = append(sp, h.Space{Name: "hostile-declared-lengths", Count: uint64(len(hs)), ChunkHint: 64,
				Describe: func(i uint64) interface{} { return hs[i].String() },
				Run: func(c *h.Ctx, i uint64) {
					t := hs[i]
					x := t.bytes()
					out := decodeMeasured(c, "hostile-length", x, func() string { return t.String() + ": hsms.Parse(" + h.Hex(x) + ")" })
					c.Case(0, true, out)
				}})
			// the same hostile items behind a LYING message length (declares more than the input holds)
			lies := []uint32{0x01000000, 0x00FFFFFF + 14, 0x7FFFFFFF, 0xFFFFFFFF, 0x000000FF}
			sp = append(sp, h.Space{Name: "hostile-lengths-behind-a-lying-message-length", Count: uint64(len(hs) * len(lies)), ChunkHint: 256,
				Describe: func(i uint64) interface{} {
					return fmt.Sprintf("%s; message length field = %#x", hs[i/uint64(len(lies))].String(), lies[i%uint64(len(lies))])
				},
				Run: func(c *h.Ctx, i uint64) {
					t := hs[i/uint64(len(lies))]
					if t.depth > 3 {
						c.Case(0, false, "skip-deep")
						return
					}
					x := t.bytes()
					l := lies[i%uint64(len(lies))]
					x[0], x[1], x[2], x[3] = byte(l>>24), byte(l>>16), byte(l>>8), byte(l)
					out := decodeMeasured(c, "lying-message-length", x, func() string {
						return t.String() + fmt.Sprintf(" with message length %#x: hsms.Parse(%s)", l, h.Hex(x))
					})
					c.Case(0, true, out)
				}})
			// sequences: the verdict and the cost of decoding an input must not depend on what was decoded before
			seqAlpha := [][]byte{
				hdr(1, 1, nil), hdr(1, 1, []byte{0x41, 0x02, 'o', 'k'}), hdr(1, 1, []byte{0x41, 0x01, 0x80}), hdr(1, 1, []byte{0x41, 0x03, 'a', 0xFF, 'b'}),
				hdr(1, 1, []byte{0x41, 0x00}), hdr(1, 1, []byte{0x01, 0x02, 0x41, 0x01, 'x', 0xA5, 0x01, 0x07}), hdr(1, 1, []byte{0x01, 0x01}), hdr(1, 1, []byte{0x21, 0x01}),
				hdr(1, 1, []byte{0x91, 0x04, 0x7F, 0xC0, 0x00, 0x00}), hdr(1, 1, []byte{0x91, 0x04, 0x3F, 0x80, 0x00, 0x00}), hdr(1, 1, []byte{0x65, 0x01, 0xFF}), hdr(1, 1, []byte{0x0D, 0x01, 0x00}),
				hdr(1, 2, []byte{0x25, 0x01, 0x02}), hdr(0x81, 2, nil), hdr(1, 1, []byte{0x03, 0xFF, 0xFF, 0xFF}), hdr(1, 1, []byte{0x43, 0xFF, 0xFF, 0xFF, 'a'}),
				{0, 0, 0, 10, 0xFF, 0xFF, 0, 0, 0, 5, 1, 2, 3, 4}, {0, 0, 0, 10, 0, 1, 0, 0, 0, 8, 1, 2, 3, 4}, {0, 0, 0, 10, 0, 1, 0, 0, 1, 0, 1, 2, 3, 4}, {0, 0}, nil,
				hdr(1, 1, append([]byte{0x41, 0x21}, []byte("a text of thirty-three characters!")[:33]...)), hdr(1, 1, []byte{0xB1, 0x04, 0xFF, 0xFF, 0xFF, 0xFF}), hdr(1, 1, []byte{0xA1, 0x08, 0xFF, 0xFF, 0xFF, 0xFF, 0xFF, 0xFF, 0xFF, 0xFF}),
			}
			na := len(seqAlpha)
			sp = append(sp, h.Space{Name: "sequences-of-three-decodes", Count: uint64(na * na * na), ChunkHint: 64,
				Describe: func(i uint64) interface{} {
					d := unrank(i, na, na, na)
					return fmt.Sprintf("decode %x, then %x, then %x in one process", seqAlpha[d[0]], seqAlpha[d[1]], seqAlpha[d[2]])
				},
				Run: func(c *h.Ctx, i uint64) {
					d := unrank(i, na, na, na)
					for step, k := range d {
						x := append([]byte{}, seqAlpha[k]...)
						out := decodeMeasured(c, "sequence", x, func() string {
							return fmt.Sprintf("decode #%d of the sequence %x | %x | %x", step+1, seqAlpha[d[0]], seqAlpha[d[1]], seqAlpha[d[2]])
						})
						_, verdict, _ := ref.Decode(x)
						if (out == "accepted") != (verdict != ref.Reject) && verdict != ref.Either && out != "panic" && out != "over-bound" {
							c.Fail("verdict-depends-on-history", fmt.Sprintf("decode #%d of the sequence %x | %x | %x", step+1, seqAlpha[d[0]], seqAlpha[d[1]], seqAlpha[d[2]]), "outcome "+out)
						}
					}
					c.Case(0, true, "sequence")
				}})
			// long honest inputs
			kmax := 18
			if tier == "thorough" {
				kmax = 23
			}
			type honest struct {
				k    ref.Kind
				log2 int
				list bool
			}
			var hn []honest
			for _, k := range ref.Kinds {
				for l := 8; l <= kmax; l++ {
					hn = append(hn, honest{k, l, false})
				}
			}
			sp = append(sp, h.Space{Name: "long-honest-inputs", Count: uint64(len(hn)), ChunkHint: 1,
				Describe: func(i uint64) interface{} { return fmt.Sprintf("%s item with 2^%d payload bytes", hn[i].k, hn[i].log2) },
				Run: func(c *h.Ctx, i uint64) {
					t := hn[i]
					var text []byte
					nb := 1 << uint(t.log2)
					if t.k == ref.L {
						// flat list of two-byte children (empty items), nb bytes of children
						text = ref.ItemHeader(ref.L, nb/2, 0)
						for j := 0; j < nb/2; j++ {
							text = append(text, 0xA5, 0x00)
						}
					} else {
						text = ref.ItemHeader(t.k, nb, 0)
						for j := 0; j < nb; j++ {
							b := byte(0x20 + j%64)
							if t.k.IsFloat() {
								b = byte(0x3f) // finite everywhere
							}
							text = append(text, b)
						}
					}
					x := hdr(1, 1, text)
					out := decodeMeasured(c, "honest:"+t.k.String(), x, func() string { return fmt.Sprintf("%s item with 2^%d payload bytes", t.k, t.log2) })
					if out == "refused" {
						c.Fail("honest-input-refused", fmt.Sprintf("%s item with 2^%d payload bytes", t.k, t.log2), "refused")
					}
					c.Case(0, true, out)
				}})
			// deep honest nesting
			sp = append(sp, h.Space{Name: "deep-nesting", Count: 12,
				Describe: func(i uint64) interface{} { return fmt.Sprintf("%d nested single-child lists around <U1 7>", 1<<i) },
				Run: func(c *h.Ctx, i uint64) {
					d := 1 << i
					var text []byte
					for j := 0; j < d; j++ {
						text = append(text, 0x01, 0x01)
					}
					text = append(text, 0xA5, 0x01, 0x07)
					out := decodeMeasured(c, "deep", hdr(1, 1, text), func() string { return fmt.Sprintf("%d nested lists", d) })
					c.Case(0, true, out)
				}})
			// depth x width: d nested lists around w leaves. The cost of building a list must not depend on how many
			// lists enclose it (a constructor that walks the whole subtree at every level costs depth x width).
			dws := []int{0, 1, 16, 256, 1024}
			wws := []int{0, 1, 16, 256, 4096}
			if tier == "thorough" {
				dws = append(dws, 4096)
				wws = append(wws, 32768)
			}
			leafKinds := []ref.Kind{}
			for _, k := range ref.Kinds {
				if k != ref.L {
					leafKinds = append(leafKinds, k)
				}
			}
			nShapes := 4
			dwDesc := func(i uint64) string {
				d := unrank(i, len(dws), len(wws), len(leafKinds), nShapes)
				return fmt.Sprintf("%d nested lists, %d %s leaves, %s", dws[d[0]], wws[d[1]], leafKinds[d[2]],
					[]string{"empty leaves in the innermost list", "one-element leaves in the innermost list", "leaves spread over the levels (comb)", "leaves in the outermost list after the nested lists"}[d[3]])
			}
			sp = append(sp, h.Space{Name: "nesting-depth-x-width", Count: product(len(dws), len(wws), len(leafKinds), nShapes), ChunkHint: 4,
				Describe: func(i uint64) interface{} { return dwDesc(i) },
				Run: func(c *h.Ctx, i uint64) {
					d := unrank(i, len(dws), len(wws), len(leafKinds), nShapes)
					depth, width, k, shape := dws[d[0]], wws[d[1]], leafKinds[d[2]], d[3]
					leaf := func() []byte {
						if shape == 1 {
							l := ref.ItemHeader(k, k.Width(), 0)
							for j := 0; j < k.Width(); j++ {
								l = append(l, 0x3f)
							}
							return l
						}
						return ref.ItemHeader(k, 0, 0)
					}()
					var text []byte
					switch shape {
					case 0, 1: // L[1] ... L[1] L[w] leaf*w
						for j := 0; j < depth; j++ {
							text = append(text, 0x01, 0x01)
						}
						text = append(text, ref.ItemHeader(ref.L, width, 0)...)
						for j := 0; j < width; j++ {
							text = append(text, leaf...)
						}
					case 2: // every level: L[per+1] leaf*per <next level>; innermost L[0]
						per := 0
						if depth > 0 {
							per = (width + depth - 1) / depth
						}
						for j := 0; j < depth; j++ {
							text = append(text, ref.ItemHeader(ref.L, per+1, 0)...)
							for q := 0; q < per; q++ {
								text = append(text, leaf...)
							}
						}
						text = append(text, 0x01, 0x00)
					case 3: // L[w+1] (L[1]...L[0]) leaf*w
						text = append(text, ref.ItemHeader(ref.L, width+1, 0)...)
						for j := 0; j < depth; j++ {
							text = append(text, 0x01, 0x01)
						}
						text = append(text, 0x01, 0x00)
						for j := 0; j < width; j++ {
							text = append(text, leaf...)
						}
					}
					x := hdr(1, 1, text)
					out := decodeMeasured(c, "depth-x-width", x, func() string { return dwDesc(i) + fmt.Sprintf(" (%d input bytes)", len(x)) })
					if out == "refused" {
						c.Fail("honest-input-refused", dwDesc(i), "refused")
					}
					c.Case(0, true, out)
				}})
			// nothing but list headers: the decoder descends one level per header before it can know that the input
			// ends; it must come back with a verdict, whatever the depth (a goroutine stack is not unbounded)
			hk := 23
			if tier == "thorough" {
				hk = 26
			}
			sp = append(sp, h.Space{Name: "nothing-but-list-headers", Count: uint64(3 * (hk - 7)), ChunkHint: 1,
				Describe: func(i uint64) interface{} {
					return fmt.Sprintf("2^%d bytes of list headers with %d length byte(s), each declaring one child", 8+i/3, 1+i%3)
				},
				Run: func(c *h.Ctx, i uint64) {
					n, nl := 1<<(8+i/3), int(1+i%3)
					one := ref.ItemHeader(ref.L, 1, nl)
					text := make([]byte, 0, n)
					for len(text)+len(one) <= n {
						text = append(text, one...)
					}
					x := hdr(1, 1, text)
					c.Case(0, true, decodeMeasured(c, "list-headers-only", x, func() string {
						return fmt.Sprintf("%d-byte input made of %d list headers (%d length bytes) each declaring one child", len(x), len(text)/len(one), nl)
					}))
				}})
			// adversarial nesting: every list declares as many children as there are bytes left
			// (passes any "declared <= remaining" guard at every level)
			sp = append(sp, h.Space{Name: "nested-lists-declaring-remaining-bytes", Count: 3 * 9,
				Describe: func(i uint64) interface{} {
					return fmt.Sprintf("input of 2^%d bytes: nested lists with %d length bytes, each declaring the number of bytes left", 8+i%9, 1+i/9)
				},
				Run: func(c *h.Ctx, i uint64) {
					n, nl := 1<<(8+i%9), int(1+i/9)
					var text []byte
					for len(text)+1+nl <= n {
						rem := n - len(text) - 1 - nl
						if rem >= 1<<(8*uint(nl)) {
							rem = 1<<(8*uint(nl)) - 1
						}
						text = append(text, ref.ItemHeader(ref.L, rem, nl)...)
					}
					x := hdr(1, 1, text)
					c.Case(0, true, decodeMeasured(c, "nested-remaining", x, func() string {
						return fmt.Sprintf("%d-byte input of nested lists (%d length bytes) each declaring the bytes left", len(x), nl)
					}))
				}})
			// unstructured texts (totality + bound)
			k24 := 4
			if tier == "thorough" {
				k24 = 5
			}
			var cnt24 uint64
			p24 := uint64(1)
			for k := 0; k <= k24; k++ {
				cnt24 += p24
				p24 *= uint64(len(sym24))
			}
			text24 := func(i uint64) []byte {
				n := uint64(1)
				for k := 0; ; k++ {
					if i < n {
						t := make([]byte, k)
						for j := k - 1; j >= 0; j-- {
							t[j] = sym24[i%uint64(len(sym24))]
							i /= uint64(len(sym24))
						}
						return t
					}
					i -= n
					n *= uint64(len(sym24))
				}
			}
			sp = append(sp, h.Space{Name: fmt.Sprintf("unstructured-24-symbol-texts-le%d", k24), Count: cnt24,
				Describe: func(i uint64) interface{} { return fmt.Sprintf("valid header + text %x", text24(i)) },
				Run: func(c *h.Ctx, i uint64) {
					x := hdr(3, 5, text24(i))
					c.Case(0, true, decodeMeasured(c, "unstructured", x, func() string { return "hsms.Parse(" + h.Hex(x) + ")" }))
				}})
			// all 2-byte texts over the full alphabet, and every (format byte, length byte) pair followed by 0..2 bytes
			sp = append(sp, h.Space{Name: "all-texts-le2-bytes-plus-tail", Count: 65536 * 3,
				Describe: func(i uint64) interface{} { return fmt.Sprintf("valid header + %04x + %d more bytes", i/3, i%3) },
				Run: func(c *h.Ctx, i uint64) {
					t := []byte{byte(i / 3 >> 8), byte(i / 3)}
					t = append(t, []byte{0x01, 0x02}[:i%3]...)
					x := hdr(3, 5, t)
					c.Case(0, true, decodeMeasured(c, "unstructured", x, func() string { return "hsms.Parse(" + h.Hex(x) + ")" }))
				}})
			// every header byte value x position on a short and on a hostile message; short inputs
			base := [][]byte{hdr(1, 1, []byte{0xA5, 0x01, 0x07}), hdr(1, 1, []byte{0x03, 0xFF, 0xFF, 0xFF}), hdr(1, 1, nil)}
			sp = append(sp, h.Space{Name: "header-bytes-x-values", Count: product(len(base), 14, 256),
				Describe: func(i uint64) interface{} {
					d := unrank(i, len(base), 14, 256)
					return fmt.Sprintf("message %d with byte %d = %d", d[0], d[1], d[2])
				},
				Run: func(c *h.Ctx, i uint64) {
					d := unrank(i, len(base), 14, 256)
					x := append([]byte{}, base[d[0]]...)
					x[d[1]] = byte(d[2])
					c.Case(0, true, decodeMeasured(c, "header", x, func() string { return "hsms.Parse(" + h.Hex(x) + ")" }))
				}})
			sp = append(sp, h.Space{Name: "short-and-nil-inputs", Count: 16,
				Describe: func(i uint64) interface{} { return fmt.Sprintf("input of %d bytes (nil when 0)", i) },
				Run: func(c *h.Ctx, i uint64) {
					var x []byte
					if i > 0 {
						x = append([]byte{}, hdr(1, 1, []byte{0x01, 0x01})[:i]...)
					}
					c.Case(0, true, decodeMeasured(c, "short", x, func() string { return fmt.Sprintf("hsms.Parse(%x)", x) }))
				}})
			return sp
		},
	})
}
