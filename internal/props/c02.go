package props

import (
	"bytes"
	"fmt"
	"math"
	"math/rand"

	"github.com/wolimst/lib-secs2-hsms-go/pkg/ast"

	h "verif/internal/harness"
	"verif/internal/ref"
)

// C02 — wire-format conformance: real encoder vs R-enc, byte for byte.

func encCompare(c *h.Ctx, class string, n *ref.Node) {
	it, p := tryItem(func() ast.ItemNode { return Build(n) })
	c.Ops(2)
	if p != "" {
		c.Fail(class+"-ctor-panic", ref.Print(n), "constructor refused an in-domain tree: "+p)
		return
	}
	got, want := it.ToBytes(), ref.Encode(n)
	if !bytes.Equal(got, want) {
		c.Fail(class+"-bytes", trunc(ref.Print(n), 1500), fmt.Sprintf("ToBytes()=%s want %s", h.Hex(got), h.Hex(want)))
	}
}

// lanePatterns: every combination of {00,7F,80,FF} per byte lane.
func lanePattern(i uint64, w int) uint64 {
	lane := []uint64{0x00, 0x7F, 0x80, 0xFF}
	var v uint64
	for k := 0; k < w; k++ {
		v = v<<8 | lane[i%4]
		i /= 4
	}
	return v
}

func pow4(w int) uint64 { return uint64(1) << uint(2*w) }

// wideValue enumerates, for a kind of width 4 or 8: boundary values, single bits,
// two adjacent bits, byte-lane patterns and k seed-derived values.
type wideAxis struct {
	k    ref.Kind
	vals []uint64 // bit patterns
}

func newWideAxis(k ref.Kind, seed int64, extra int) *wideAxis {
	w := k.Width()
	a := &wideAxis{k: k}
	add := func(v uint64) {
		if w == 4 {
			v &= 0xFFFFFFFF
		}
		a.vals = append(a.vals, v)
	}
	for b := 0; b < 8*w; b++ {
		add(1 << uint(b))
		add(^(uint64(1) << uint(b)))
		add(3 << uint(b))
		add((uint64(1) << uint(b)) - 1)
	}
	for i := uint64(0); i < pow4(w); i++ {
		add(lanePattern(i, w))
	}
	if k.IsInt() {
		for _, v := range intBounds(w) {
			add(uint64(v))
		}
	} else if k.IsUint() {
		for _, v := range uintBounds(w) {
			add(v)
		}
	} else {
		for _, f := range f8Bounds {
			add(math.Float64bits(f))
		}
	}
	r := rand.New(rand.NewSource(seed ^ int64(k)*7919))
	for i := 0; i < extra; i++ {
		add(r.Uint64())
	}
	return a
}

func (a *wideAxis) node(bits uint64) (*ref.Node, bool) {
	switch {
	case a.k.IsInt():
		sh := uint(64 - 8*a.k.Width())
		return ref.Ints(a.k, int64(bits<<sh)>>sh), true
	case a.k.IsUint():
		return ref.Uints(a.k, bits), true
	case a.k == ref.F8:
		f := math.Float64frombits(bits)
		return ref.Floats(ref.F8, f), finite(f)
	}
	panic("wideAxis")
}

func mkMsg(m *ref.Msg, item ast.ItemNode) (msg *ast.DataMessage, panicked string) {
	defer func() {
		if r := recover(); r != nil {
			msg, panicked = nil, fmt.Sprint(r)
		}
	}()
	msg = ast.NewHSMSDataMessage(m.Name, m.Stream, m.Function, m.W, m.Dir, item, m.Session, m.System[:])
	return msg, ""
}

func init() {
	h.Register(&h.Check{
		ID:          "C02",
		MemLimitGiB: 12,
		Rule:        "every tree of the scope (atoms x shapes), every value of the 1- and 2-byte formats, F4 bit patterns, lane/bit/boundary patterns of wider formats, the header product and the incompleteness product are enumerated completely; each is built with the real factories and ToBytes() is compared byte-for-byte with the independent reference encoder; non-trivial = non-empty reference encoding compared (or a refusal that the reference also demands)",
		WatchdogSec: 3600, // items of 16,777,215 elements legitimately take minutes; these checks have no hang oracle
		Build: func(tier string, seed int64) []h.Space {
			var sp []h.Space
			N, D, W := 4, 3, 3
			if tier == "thorough" {
				N, D, W = 5, 4, 4
			}
			ts := NewTreeScope(leafAlphabet(), N, D, W)
			sp = append(sp, h.Space{Name: fmt.Sprintf("trees-N%d-D%d-W%d", N, D, W), Count: ts.Count(),
				Describe: func(i uint64) interface{} { return ref.Print(ts.Nth(i)) },
				Run: func(c *h.Ctx, i uint64) {
					n := ts.Nth(i)
					encCompare(c, "tree", n)
					c.Case(0, true, "tree")
				}})
			// all values of the 1-byte domains in first/middle/last position
			oneByte := []ref.Kind{ref.I1, ref.U1, ref.B, ref.BOOLEAN, ref.A}
			sp = append(sp, h.Space{Name: "all-1-byte-values-x-position", Count: product(len(oneByte), 256, 4),
				Describe: func(i uint64) interface{} {
					d := unrank(i, len(oneByte), 256, 4)
					return fmt.Sprintf("%s value %d position %d", oneByte[d[0]], d[1], d[2])
				},
				Run: func(c *h.Ctx, i uint64) {
					d := unrank(i, len(oneByte), 256, 4)
					k, v, pos := oneByte[d[0]], d[1], d[2]
					var n *ref.Node
					switch k {
					case ref.I1:
						n = ref.Ints(k, 5, 5, 5)
						n.Elems[pos%3].I = int64(int8(v))
					case ref.U1:
						n = ref.Uints(k, 5, 5, 5)
						n.Elems[pos%3].U = uint64(v)
					case ref.B:
						n = ref.Bin(5, 5, 5)
						n.Elems[pos%3].U = uint64(v)
					case ref.BOOLEAN:
						n = ref.Bools(false, true, false)
						n.Elems[pos%3].T = v&1 == 1
					case ref.A:
						s := []byte("xyz")
						s[pos%3] = byte(v & 0x7f)
						n = ref.Ascii(string(s))
					}
					if pos == 3 { // single element
						switch k {
						case ref.A:
							n = ref.Ascii(n.Str[:1])
						default:
							n.Elems = n.Elems[:1]
						}
					}
					encCompare(c, "v1", n)
					c.Case(0, true, "v1:"+k.String())
				}})
			sp = append(sp, h.Space{Name: "all-2-byte-values", Count: product(2, 65536),
				Describe: func(i uint64) interface{} {
					d := unrank(i, 2, 65536)
					return fmt.Sprintf("%s bits %04x", []ref.Kind{ref.I2, ref.U2}[d[0]], d[1])
				},
				Run: func(c *h.Ctx, i uint64) {
					d := unrank(i, 2, 65536)
					var n *ref.Node
					if d[0] == 0 {
						n = ref.Ints(ref.I2, int64(int16(d[1])), -1)
					} else {
						n = ref.Uints(ref.U2, uint64(d[1]), 1)
					}
					encCompare(c, "v2", n)
					c.Case(0, true, "v2")
				}})
			// F4
			if tier == "thorough" {
				// every one of the 2^32 bit patterns, 2^12 per node
				const per = 1 << 12
				sp = append(sp, h.Space{Name: "f4-all-bit-patterns", Count: (1 << 32) / per, ChunkHint: 4096,
					Describe: func(i uint64) interface{} { return fmt.Sprintf("F4 bit patterns %08x..%08x", i*per, i*per+per-1) },
					Run: func(c *h.Ctx, i uint64) {
						vals := make([]interface{}, 0, per)
						want := make([]byte, 0, 4*per+4)
						for p := i * per; p < (i+1)*per; p++ {
							f := float64(math.Float32frombits(uint32(p)))
							if !finite(f) {
								// each non-finite pattern must be refused
								if r := catch(func() { ast.NewFloatNode(4, f) }); r == nil {
									c.Fail("f4-nonfinite-accepted", fmt.Sprintf("NewFloatNode(4, Float32frombits(%08x))", p), "accepted")
								}
								c.Ops(1)
								continue
							}
							vals = append(vals, f)
							want = append(want, byte(p>>24), byte(p>>16), byte(p>>8), byte(p))
						}
						if len(vals) > 0 {
							it, pn := tryItem(func() ast.ItemNode { return ast.NewFloatNode(4, vals...) })
							if pn != "" {
								c.Fail("f4-finite-refused", fmt.Sprintf("F4 patterns from %08x", i*per), pn)
							} else {
								got := it.ToBytes()
								hd := ref.ItemHeader(ref.F4, len(want), 0)
								if !bytes.Equal(got, append(hd, want...)) {
									// locate
									for q := 0; q+4 <= len(want) && len(hd)+q+4 <= len(got); q += 4 {
										if !bytes.Equal(got[len(hd)+q:len(hd)+q+4], want[q:q+4]) {
											c.Fail("f4-bytes", fmt.Sprintf("F4 value with bits %x", want[q:q+4]), fmt.Sprintf("encoded as %x", got[len(hd)+q:len(hd)+q+4]))
											break
										}
									}
									if len(got) != len(hd)+len(want) {
										c.Fail("f4-bytes", fmt.Sprintf("F4 patterns from %08x", i*per), fmt.Sprintf("encoded length %d want %d", len(got), len(hd)+len(want)))
									}
								}
							}
							c.Ops(2)
						}
						c.Case(0, true, "f4-block")
					}})
			}
			mant := []uint32{0, 0x7FFFFF, 1, 0x400000, 0x400001, 0x3FFFFF, 0x555555, 0x2AAAAA}
			for b := 1; b < 23; b++ {
				mant = append(mant, 1<<uint(b), (1<<uint(b))-1)
			}
			sp = append(sp, h.Space{Name: "f4-sign-exponent-x-mantissa-x-rounding", Count: product(2, 256, len(mant), 5),
				Describe: func(i uint64) interface{} {
					d := unrank(i, 2, 256, len(mant), 5)
					return fmt.Sprintf("F4 sign %d exponent %d mantissa %06x + %d/4 ulp", d[0], d[1], mant[d[2]], d[3])
				},
				Run: func(c *h.Ctx, i uint64) {
					d := unrank(i, 2, 256, len(mant), 5)
					bits := uint32(d[0])<<31 | uint32(d[1])<<23 | mant[d[2]]
					f := float64(math.Float32frombits(bits))
					if !finite(f) {
						if r := catch(func() { ast.NewFloatNode(4, f) }); r == nil {
							c.Fail("f4-nonfinite-accepted", fmt.Sprintf("NewFloatNode(4, %v)", f), "accepted")
						}
						c.Case(0, true, "f4-nonfinite-refused")
						return
					}
					// a float64 between this float32 and its successor: q/4 of the gap
					next := float64(math.Float32frombits(bits + 1))
					v := f
					if d[3] > 0 && finite(next) {
						v = f + (next-f)*float64(d[3])/4 // exact in float64 (29 spare bits)
					} else if d[3] > 0 {
						c.Case(0, false, "f4-skip")
						return
					}
					n := ref.Floats(ref.F4, v)
					if math.Abs(v) > math.MaxFloat32 {
						c.Case(0, false, "f4-above-max")
						return
					}
					encCompare(c, "f4", n)
					c.Case(0, true, fmt.Sprintf("f4-q%d", d[3]))
				}})
			// wider formats
			extra := 2000
			if tier == "thorough" {
				extra = 200000
			}
			for _, k := range []ref.Kind{ref.I4, ref.U4, ref.I8, ref.U8, ref.F8} {
				ax := newWideAxis(k, seed, extra)
				k := k
				sp = append(sp, h.Space{Name: "wide-" + k.String(), Count: uint64(len(ax.vals)),
					Describe: func(i uint64) interface{} { return fmt.Sprintf("%s bits %x", k, ax.vals[i]) },
					Run: func(c *h.Ctx, i uint64) {
						n, ok := ax.node(ax.vals[i])
						if !ok {
							if r := catch(func() { Build(n) }); r == nil {
								c.Fail("f8-nonfinite-accepted", fmt.Sprintf("F8 bits %x", ax.vals[i]), "accepted")
							}
							c.Case(h.Digest([]byte(k.String()), []byte(fmt.Sprint(ax.vals[i]))), true, "wide-refused")
							return
						}
						encCompare(c, "wide", n)
						c.Case(h.Digest([]byte(k.String()), []byte(fmt.Sprint(ax.vals[i]))), true, "wide:"+k.String())
					}})
			}
			// message framing: stream x function x W, sessions, system bytes
			item := ref.List(ref.Uints(ref.U2, 0x1234), ref.Ascii("x"))
			frame := func(c *h.Ctx, m *ref.Msg, withItem bool) {
				var it ast.ItemNode = ast.NewEmptyItemNode()
				m.Item = nil
				if withItem {
					it = Build(item)
					m.Item = item
				}
				msg, p := mkMsg(m, it)
				c.Ops(3)
				in := ref.Header(m) + fmt.Sprintf(" session=%d system=%x item=%v", m.Session, m.System, withItem)
				if m.W == 1 && m.Function%2 == 0 {
					if p == "" {
						c.Fail("frame-wbit-even-accepted", in, "constructor accepted a W-bit on an even function")
					}
					return
				}
				if p != "" {
					c.Fail("frame-ctor-panic", in, p)
					return
				}
				// the system bytes were passed as a slice of the caller's array; the caller reuses the array before encoding
				saved := m.System
				for j := range m.System {
					m.System[j] ^= 0xFF
				}
				got := msg.ToBytes()
				m.System = saved
				want := ref.EncodeMsg(m)
				if !bytes.Equal(got, want) {
					c.Fail("frame-bytes", in, fmt.Sprintf("ToBytes()=%x want %x (the caller's system-bytes array was overwritten after the constructor returned)", got, want))
				}
				// the same header given through the producer, with the argument a window into a larger buffer
				buf := append(append([]byte{0xEE, 0xEE}, saved[:]...), 0xEE, 0xEE, 0xEE, 0xEE, 0xEE, 0xEE)
				var m2 *ast.DataMessage
				if pp := catch(func() {
					m2 = ast.NewDataMessage(m.Name, m.Stream, m.Function, m.W, m.Dir, it).SetSessionIDAndSystemBytes(m.Session, buf[2:6])
				}); pp != nil {
					c.Fail("frame-ctor-panic", in, fmt.Sprint(pp))
					return
				}
				for j := range buf {
					buf[j] = 0x5A
				}
				if got2 := m2.ToBytes(); !bytes.Equal(got2, want) {
					c.Fail("frame-bytes", in, fmt.Sprintf("NewDataMessage(...).SetSessionIDAndSystemBytes(...).ToBytes()=%x want %x (argument buffer reused after the call)", got2, want))
				}
			}
			sp = append(sp, h.Space{Name: "frame-stream-function-wbit", Count: product(128, 256, 2, 2),
				Describe: func(i uint64) interface{} {
					d := unrank(i, 128, 256, 2, 2)
					return fmt.Sprintf("S%dF%d W=%d item=%d", d[0], d[1], d[2], d[3])
				},
				Run: func(c *h.Ctx, i uint64) {
					d := unrank(i, 128, 256, 2, 2)
					frame(c, &ref.Msg{Stream: d[0], Function: d[1], W: d[2], Dir: "H->E", Session: 0x0102, System: [4]byte{3, 4, 5, 6}}, d[3] == 1)
					c.Case(0, true, "frame")
				}})
			sp = append(sp, h.Space{Name: "frame-session", Count: 65536,
				Describe: func(i uint64) interface{} { return fmt.Sprintf("session %d", i) },
				Run: func(c *h.Ctx, i uint64) {
					frame(c, &ref.Msg{Stream: 127, Function: 255, W: 1, Dir: "H<-E", Session: int(i), System: [4]byte{0xFF, 0, 0x80, 0x7F}}, i%2 == 0)
					c.Case(0, true, "frame-session")
				}})
			sp = append(sp, h.Space{Name: "frame-system-bytes", Count: uint64(len(sysAlphabet)),
				Describe: func(i uint64) interface{} { return fmt.Sprintf("system bytes %x", sysAlphabet[i]) },
				Run: func(c *h.Ctx, i uint64) {
					m := &ref.Msg{Stream: 1, Function: 2, W: 0, Dir: "H<->E", Session: 65535}
					copy(m.System[:], sysAlphabet[i])
					frame(c, m, true)
					c.Case(0, true, "frame-system")
				}})
			// nesting depth: every depth 1..96 and powers of two (and their neighbours) up to 2049, as a chain and with a
			// leaf / an empty list / a second chain beside every level (an explicit stack or a buffer that grows at a
			// particular depth shows here and nowhere in the small trees)
			var depths []int
			for dd := 1; dd <= 96; dd++ {
				depths = append(depths, dd)
			}
			for _, dd := range []int{127, 128, 129, 255, 256, 257, 511, 512, 513, 1023, 1024, 1025, 2047, 2048, 2049} {
				depths = append(depths, dd)
			}
			sp = append(sp, h.Space{Name: "nesting-depth-x-shape", Count: product(len(depths), 4),
				Describe: func(i uint64) interface{} {
					d := unrank(i, len(depths), 4)
					return fmt.Sprintf("%d nested lists, shape %s", depths[d[0]], []string{"chain", "leaf-after-each-level", "empty-list-before-each-level", "short-chain-beside-each-level"}[d[1]])
				},
				Run: func(c *h.Ctx, i uint64) {
					d := unrank(i, len(depths), 4)
					n := ref.Uints(ref.U1, 7)
					for j := 0; j < depths[d[0]]; j++ {
						switch d[1] {
						case 0:
							n = ref.List(n)
						case 1:
							n = ref.List(n, ref.Ascii("x"))
						case 2:
							n = ref.List(ref.List(), n)
						default:
							n = ref.List(ref.List(ref.List(ref.Bin(1))), n, ref.List(ref.List(ref.Bools(true))))
						}
					}
					encCompare(c, "deep", n)
					c.Case(0, true, "deep")
				}})
			// incomplete messages encode to exactly []byte{}
			// wait bit {0,1,2} x session {set,unset} x variables {none, 1 at depth 0, 1 at depth 1, 2 at depth 2, ascii var, list var, ellipsis}
			tmpls := []*ref.Node{
				ref.List(ref.Uints(ref.U1, 1), ref.Ascii("a")),
				{Kind: ref.U1, Elems: []ref.Elem{{U: 1}, {Var: "v0"}}},
				ref.List(ref.Uints(ref.U1, 1), &ref.Node{Kind: ref.I2, Elems: []ref.Elem{{Var: "v0"}}}),
				ref.List(ref.List(&ref.Node{Kind: ref.F4, Elems: []ref.Elem{{Var: "v0"}, {F: 1}, {Var: "v1"}}}), ref.Ascii("a")),
				ref.List(ref.AsciiVar("v0", 0, -1)),
				ref.List(ref.Bools(true), ref.Var("v0")),
				ref.List(ref.Bools(true), ref.Ell("...")),
				ref.List(ref.List(ref.Bin(1), ref.Var("v0"), ref.Ell("...")), ref.Uints(ref.U8, 5)),
				nil, // no item at all
			}
			sp = append(sp, h.Space{Name: "incomplete-product", Count: product(3, 2, len(tmpls), 2),
				Describe: func(i uint64) interface{} {
					d := unrank(i, 3, 2, len(tmpls), 2)
					t := "<no item>"
					if tmpls[d[2]] != nil {
						t = ref.Print(tmpls[d[2]])
					}
					return fmt.Sprintf("waitBit=%d sessionSet=%v function parity=%d item=%s", d[0], d[1] == 1, d[3], t)
				},
				Run: func(c *h.Ctx, i uint64) {
					d := unrank(i, 3, 2, len(tmpls), 2)
					fn := 10 + d[3]
					if d[0] == 1 && fn%2 == 0 {
						c.Case(0, false, "skip")
						return
					}
					t := tmpls[d[2]]
					var it ast.ItemNode = ast.NewEmptyItemNode()
					if t != nil {
						it = Build(t)
					}
					msg := ast.NewDataMessage("n", 3, fn, d[0], "H->E", it)
					if d[1] == 1 {
						msg = msg.SetSessionIDAndSystemBytes(77, []byte{1, 2, 3, 4})
					}
					c.Ops(3)
					got := msg.ToBytes()
					complete := d[0] != 2 && d[1] == 1 && (t == nil || t.Complete())
					in := fmt.Sprintf("waitBit=%d sessionSet=%v item=%v", d[0], d[1] == 1, itemString(it))
					if !complete {
						if got == nil || len(got) != 0 {
							c.Fail("incomplete-encodes", in, fmt.Sprintf("ToBytes()=%x for an incomplete message (want empty, non-nil)", got))
						}
						c.Case(0, true, "incomplete-empty")
						return
					}
					m := &ref.Msg{Stream: 3, Function: fn, W: d[0], Session: 77, System: [4]byte{1, 2, 3, 4}, Item: t}
					if want := ref.EncodeMsg(m); !bytes.Equal(got, want) {
						c.Fail("complete-bytes", in, fmt.Sprintf("ToBytes()=%x want %x", got, want))
					}
					c.Case(0, true, "complete")
				}})
			// every template tree with at least one unfilled variable, wrapped in an otherwise complete message:
			// the message (and the item) must encode to exactly nothing; once filled, to the reference bytes
			its := NewTreeScope(smlAtoms(), 4, 3, 3)
			sp = append(sp, h.Space{Name: "incomplete-template-trees", Count: its.Count(),
				Describe: func(i uint64) interface{} { n := its.Nth(i); nameTemplate(n); return ref.Print(n) },
				Run: func(c *h.Ctx, i uint64) {
					n := its.Nth(i)
					if !nameTemplate(n) || n.Complete() {
						c.Case(0, false, "no-variables")
						return
					}
					msg := ast.NewDataMessage("t", 1, 1, 1, "H->E", Build(n)).SetSessionIDAndSystemBytes(5, []byte{1, 2, 3, 4})
					c.Ops(3)
					if b := msg.ToBytes(); b == nil || len(b) != 0 {
						c.Fail("incomplete-encodes", ref.Print(n), fmt.Sprintf("message with unfilled variables encodes to %x (want empty, non-nil)", b))
					}
					if b := msgItem(msg).ToBytes(); len(b) != 0 {
						c.Fail("partial-bytes", ref.Print(n), fmt.Sprintf("item with unfilled variables encodes to %x", b))
					}
					fill := map[string]interface{}{}
					asg := map[string]fillValue{}
					var sl []slot
					slotsOf(n, &sl)
					for _, x := range sl {
						if x.kind == ref.ELLIPSIS {
							fill[x.name] = 0
						} else {
							asg[x.name] = valueOptions(x)[0]
							fill[x.name] = asg[x.name].v
						}
					}
					var done *ast.DataMessage
					if p := catch(func() { done = msg.FillVariables(fill) }); p != nil {
						c.Fail("fill-refused", ref.Print(n), fmt.Sprint(p))
					} else {
						counts := map[string]int{}
						for _, e := range ellipsisNames(n) {
							counts[e] = 0
						}
						want := substitute(refEllipsisFill(n, counts), asg)
						rm := &ref.Msg{Stream: 1, Function: 1, W: 1, Session: 5, System: [4]byte{1, 2, 3, 4}, Item: want}
						if got := done.ToBytes(); !bytes.Equal(got, ref.EncodeMsg(rm)) {
							c.Fail("complete-bytes", ref.Print(n), fmt.Sprintf("after filling: ToBytes()=%x want %x", got, ref.EncodeMsg(rm)))
						}
					}
					c.Case(0, true, "incomplete-template")
				}})
			// items with unfilled variables encode to nothing (never partial bytes)
			sp = append(sp, h.Space{Name: "item-with-variables-encodes-empty", Count: uint64(len(tmpls) - 1),
				Describe: func(i uint64) interface{} { return ref.Print(tmpls[i]) },
				Run: func(c *h.Ctx, i uint64) {
					t := tmpls[i]
					got := Build(t).ToBytes()
					c.Ops(2)
					if t.Complete() {
						if !bytes.Equal(got, ref.Encode(t)) {
							c.Fail("tree-bytes", ref.Print(t), fmt.Sprintf("%x", got))
						}
					} else if len(got) != 0 {
						c.Fail("partial-bytes", ref.Print(t), fmt.Sprintf("item with variables encodes to %x", got))
					}
					c.Case(0, true, "item-vars")
				}})
			// encodings along producer histories: a message that was already encoded (once or twice) is
			// re-addressed / re-filled / gets its wait bit set, and every message on the way is encoded again
			hops := [][]string{{"sess", "sess"}, {"sess", "setw", "sess"}, {"fill", "sess", "setw", "sess"}, {"sess", "fill", "setw"}, {"setw", "sess", "fill", "sess"},
				{"sess", "unset", "sess"}, {"fill", "setw", "sess", "sess", "sess"}}
			sp = append(sp, h.Space{Name: "encode-derive-encode-histories", Count: uint64(len(hops) * 4),
				Describe: func(i uint64) interface{} {
					return fmt.Sprintf("history %v with ToBytes() after every step (variant %d)", hops[i/4], i%4)
				},
				Run: func(c *h.Ctx, i uint64) {
					hist, variant := hops[i/4], int(i%4)
					tmpl := ref.List(&ref.Node{Kind: ref.U2, Elems: []ref.Elem{{Var: "v0"}, {U: 7}}}, ref.Ascii("x"))
					if variant%2 == 1 {
						tmpl = ref.List(ref.Var("v0"), ref.List())
					}
					rm := &ref.Msg{Name: "m", Stream: 9, Function: 5, W: 2, Dir: "H->E", Session: -1, Item: tmpl}
					msg := ast.NewDataMessage("m", 9, 5, 2, "H->E", Build(tmpl))
					nsess := 0
					check := func(step string) {
						for rep := 0; rep < 2; rep++ { // encode twice: the second call must give the same bytes
							got := msg.ToBytes()
							want := []byte{}
							if rm.W != 2 && rm.Session != -1 && rm.Item.Complete() {
								want = ref.EncodeMsg(rm)
							}
							c.Ops(1)
							if !bytes.Equal(got, want) {
								c.Fail("history-bytes", fmt.Sprintf("history %v variant %d after %s", hist, variant, step), fmt.Sprintf("ToBytes()=%x want %x", got, want))
								return
							}
						}
					}
					check("construction")
					for _, op := range hist {
						switch op {
						case "sess":
							nsess++
							sid := 100*nsess + variant
							sys := []byte{byte(nsess), 0xEE, byte(variant), 0x01}
							if variant >= 2 {
								sys = sys[:nsess%4]
							}
							msg = msg.SetSessionIDAndSystemBytes(sid, sys)
							rm.Session = sid
							rm.System = [4]byte{}
							copy(rm.System[:], sys)
						case "unset":
							msg = msg.SetSessionIDAndSystemBytes(-1, nil)
							rm.Session, rm.System = -1, [4]byte{}
						case "setw":
							msg = msg.SetWaitBit(variant%2 == 0)
							rm.W = (variant + 1) % 2
						case "fill":
							var s []slot
							slotsOf(rm.Item, &s)
							if len(s) > 0 {
								fv := valueOptions(s[0])[0]
								msg = msg.FillVariables(map[string]interface{}{s[0].name: fv.v})
								rm.Item = substitute(rm.Item, map[string]fillValue{s[0].name: fv})
							}
						}
						check(op)
					}
					c.Case(0, true, "history")
				}})
			// framing of messages around the 2^24 boundary of the 4-byte message length (the text may hold several large items)
			type bigF struct {
				desc string
				mk   func() (ast.ItemNode, *ref.Node)
			}
			ascN := func(n int) (ast.ItemNode, *ref.Node) { nd := bigNode(ref.A, n); return Build(nd), nd }
			bigFs := []bigF{
				{"A[16777201]: message length 0x00FFFFFF", func() (ast.ItemNode, *ref.Node) { return ascN(16777201) }},
				{"A[16777202]: message length 0x01000000", func() (ast.ItemNode, *ref.Node) { return ascN(16777202) }},
				{"A[16777215]: message length 0x0100000D", func() (ast.ItemNode, *ref.Node) { return ascN(16777215) }},
				{"L[2] of A[16777215]: message length 0x0200001A", func() (ast.ItemNode, *ref.Node) {
					a, ra := ascN(16777215)
					return ast.NewListNode(a, a), ref.List(ra, ra)
				}},
				{"L[3] of U4[2000000]", func() (ast.ItemNode, *ref.Node) {
					nd := bigNode(ref.U4, 2000000)
					u := Build(nd)
					return ast.NewListNode(u, u, u), ref.List(nd, nd, nd)
				}},
			}
			sp = append(sp, h.Space{Name: "message-length-field-around-2^24", Count: uint64(len(bigFs)), ChunkHint: 1,
				Describe: func(i uint64) interface{} { return bigFs[i].desc },
				Run: func(c *h.Ctx, i uint64) {
					it, n := bigFs[i].mk()
					rm := &ref.Msg{Stream: 1, Function: 1, W: 1, Session: 0x0102, System: [4]byte{1, 2, 3, 4}, Item: n}
					got := ast.NewHSMSDataMessage("", 1, 1, 1, "H->E", it, 0x0102, []byte{1, 2, 3, 4}).ToBytes()
					want := ref.EncodeMsg(rm)
					c.Ops(2)
					if !bytes.Equal(got, want) {
						c.Fail("frame-bytes:big-message", bigFs[i].desc, fmt.Sprintf("ToBytes() has %d bytes starting %x; want %d bytes starting %x", len(got), truncB(got, 20), len(want), truncB(want, 20)))
					}
					c.Case(0, true, "big-frame")
				}})
			// size boundaries: every format at the 1/2/3-length-byte boundaries, top-level and nested
			type sz struct {
				k      ref.Kind
				n      int
				nested bool
			}
			var sizes []sz
			for _, k := range ref.Kinds {
				ns := []int{0, 1, 2, 254, 255, 256, 257, 65534, 65535, 65536, 65537}
				w := k.Width()
				if w > 1 {
					ns = append(ns, 255/w, 255/w+1, 65535/w, 65535/w+1)
				}
				if tier == "thorough" {
					ns = append(ns, ref.MaxBytes/w-1, ref.MaxBytes/w)
				}
				for _, n := range ns {
					sizes = append(sizes, sz{k, n, false}, sz{k, n, true})
				}
			}
			sp = append(sp, h.Space{Name: "size-boundaries", Count: uint64(len(sizes)), ChunkHint: 1,
				Describe: func(i uint64) interface{} {
					s := sizes[i]
					return fmt.Sprintf("%s with %d elements nested=%v", s.k, s.n, s.nested)
				},
				Run: func(c *h.Ctx, i uint64) {
					s := sizes[i]
					n := bigNode(s.k, s.n)
					it, want := buildBig(n)
					if s.nested {
						it = ast.NewListNode(ast.NewBooleanNode(true), it)
						want = append(append(ref.ItemHeader(ref.L, 2, 0), 0x25, 0x01, 0x01), want...)
					}
					got := it.ToBytes()
					c.Ops(2)
					if !bytes.Equal(got, want) {
						c.Fail("size-bytes", fmt.Sprintf("%s with %d elements nested=%v", s.k, s.n, s.nested), fmt.Sprintf("ToBytes()=%s want %s", h.Hex(got), h.Hex(want)))
					}
					c.Case(0, true, "size")
				}})
			return sp
		},
	})
}

// bigNode makes an item of kind k with n elements (cheap patterned values).
func bigNode(k ref.Kind, n int) *ref.Node {
	nd := &ref.Node{Kind: k}
	switch k {
	case ref.L:
		nd.Children = make([]*ref.Node, n)
		shared := ref.Uints(ref.U1, 7)
		for i := range nd.Children {
			nd.Children[i] = shared
		}
	case ref.A:
		b := make([]byte, n)
		for i := range b {
			b[i] = byte(32 + i%95)
		}
		nd.Str = string(b)
	default:
		nd.Elems = make([]ref.Elem, n)
		for i := range nd.Elems {
			switch {
			case k.IsInt():
				nd.Elems[i].I = int64(i%251) - 125
			case k.IsUint(), k == ref.B:
				nd.Elems[i].U = uint64(i % 251)
			case k == ref.BOOLEAN:
				nd.Elems[i].T = i%3 == 0
			default:
				nd.Elems[i].F = float64(i%251) / 4
			}
		}
	}
	return nd
}

// buildBig builds a large item sharing one child object for lists, and returns
// the reference encoding computed without materialising reference children twice.
func buildBig(n *ref.Node) (ast.ItemNode, []byte) {
	if n.Kind == ref.L {
		child := ast.NewUintNode(1, 7)
		vals := make([]interface{}, len(n.Children))
		for i := range vals {
			vals[i] = child
		}
		want := ref.ItemHeader(ref.L, len(n.Children), 0)
		for range n.Children {
			want = append(want, 0xA5, 0x01, 0x07)
		}
		return ast.NewListNode(vals...), want
	}
	return Build(n), ref.Encode(n)
}
