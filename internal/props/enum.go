package props

import (
	"math"

	"verif/internal/ref"
)

// E1 — bounded-exhaustive term enumerator. A scope is (atoms, max nodes N, max
// depth D, max list width W); Count is exact; Nth(i) regenerates tree i;
// enumeration is simplest-first (by node count).

// TreeScope enumerates all trees over a leaf alphabet.
type TreeScope struct {
	Atoms   []*ref.Node // 1-node trees (leaves and the empty list)
	N, D, W int
	memoT   map[[2]int]uint64
	memoF   map[[3]int]uint64
	cum     []uint64 // cum[n] = number of trees with < n+1 nodes ... cumulative by node count
}

// NewTreeScope builds the counting tables.
func NewTreeScope(atoms []*ref.Node, n, d, w int) *TreeScope {
	s := &TreeScope{Atoms: atoms, N: n, D: d, W: w, memoT: map[[2]int]uint64{}, memoF: map[[3]int]uint64{}}
	s.cum = make([]uint64, n+1)
	for k := 1; k <= n; k++ {
		s.cum[k] = s.cum[k-1] + s.trees(k, d)
	}
	return s
}

// Count is the number of trees in scope.
func (s *TreeScope) Count() uint64 { return s.cum[s.N] }

// trees(n,d): trees with exactly n nodes and depth <= d.
func (s *TreeScope) trees(n, d int) uint64 {
	if n < 1 || d < 1 {
		return 0
	}
	if n == 1 {
		return uint64(len(s.Atoms))
	}
	if v, ok := s.memoT[[2]int{n, d}]; ok {
		return v
	}
	var t uint64
	for k := 1; k <= s.W && k <= n-1; k++ {
		t += s.forest(n-1, k, d-1)
	}
	s.memoT[[2]int{n, d}] = t
	return t
}

// forest(m,k,d): ordered k-tuples of trees with m nodes in total, each depth <= d.
func (s *TreeScope) forest(m, k, d int) uint64 {
	if k == 0 {
		if m == 0 {
			return 1
		}
		return 0
	}
	if m < k || d < 1 {
		return 0
	}
	if v, ok := s.memoF[[3]int{m, k, d}]; ok {
		return v
	}
	var t uint64
	for first := 1; first <= m-(k-1); first++ {
		t += s.trees(first, d) * s.forest(m-first, k-1, d)
	}
	s.memoF[[3]int{m, k, d}] = t
	return t
}

// Nth regenerates tree number i (0-based).
func (s *TreeScope) Nth(i uint64) *ref.Node {
	for n := 1; n <= s.N; n++ {
		if i < s.cum[n] {
			return s.nthTree(n, s.D, i-s.cum[n-1])
		}
	}
	panic("TreeScope.Nth out of range")
}

func (s *TreeScope) nthTree(n, d int, i uint64) *ref.Node {
	if n == 1 {
		return s.Atoms[i].Clone()
	}
	for k := 1; k <= s.W && k <= n-1; k++ {
		c := s.forest(n-1, k, d-1)
		if i < c {
			return &ref.Node{Kind: ref.L, Children: s.nthForest(n-1, k, d-1, i)}
		}
		i -= c
	}
	panic("nthTree")
}

func (s *TreeScope) nthForest(m, k, d int, i uint64) []*ref.Node {
	if k == 0 {
		return []*ref.Node{}
	}
	for first := 1; first <= m-(k-1); first++ {
		rest := s.forest(m-first, k-1, d)
		c := s.trees(first, d) * rest
		if i < c {
			t := s.nthTree(first, d, i/rest)
			return append([]*ref.Node{t}, s.nthForest(m-first, k-1, d, i%rest)...)
		}
		i -= c
	}
	panic("nthForest")
}

// ---------- value alphabets ----------

func intBounds(w int) []int64 {
	min := int64(-1) << uint(8*w-1)
	max := -(min + 1)
	r := []int64{0, 1, -1, min, min + 1, max, max - 1}
	if w > 1 {
		r = append(r, 127, 128, -128, -129, 255, 256)
	}
	if w > 2 {
		r = append(r, 32767, 32768, -32768, -32769, 65535, 65536)
	}
	if w > 4 {
		r = append(r, math.MaxInt32, math.MaxInt32+1, math.MinInt32, math.MinInt32-1, math.MaxUint32, math.MaxUint32+1)
	}
	return r
}

func uintBounds(w int) []uint64 {
	max := uint64(math.MaxUint64)
	if w < 8 {
		max = uint64(1)<<uint(8*w) - 1
	}
	r := []uint64{0, 1, max, max - 1, (max >> 1) + 1, max >> 1}
	if w > 1 {
		r = append(r, 255, 256)
	}
	if w > 2 {
		r = append(r, 65535, 65536)
	}
	if w > 4 {
		r = append(r, math.MaxUint32, math.MaxUint32+1, math.MaxInt64)
	}
	return r
}

var f4Bounds = []float64{0, math.Copysign(0, -1), 1, -1, 0.5, math.SmallestNonzeroFloat32, -math.SmallestNonzeroFloat32,
	float64(math.Float32frombits(0x00800000)), math.MaxFloat32, -math.MaxFloat32, 16777216, 16777215, 0.1, float64(float32(0.1)), 1e-45, 3.4e38,
	float64(math.Float32frombits(0x3f800001)), 1 + 1.0/(1<<24) /* tie */, 1 + 3.0/(1<<24) /* tie */, 1e6, 1e-5, 123456.7, 1e21, 1e20}

var f8Bounds = []float64{0, math.Copysign(0, -1), 1, -1, 0.5, math.SmallestNonzeroFloat64, -math.SmallestNonzeroFloat64,
	math.Float64frombits(0x0010000000000000), math.MaxFloat64, -math.MaxFloat64, 9007199254740992, 9007199254740993, 0.1, 1e-324 + 5e-324, 1e308,
	math.MaxFloat32, math.SmallestNonzeroFloat32, 1e21, 1e20, 1e-5, 1e-4, 123456789.125, math.Pi}

// leafAlphabet is the ~50 leaves used by the tree spaces: every scalar format
// with lengths 0,1,2 and boundary values; ASCII incl. NUL, DEL, quote, backslash;
// non-empty binary items.
func leafAlphabet() []*ref.Node {
	var r []*ref.Node
	for _, k := range []ref.Kind{ref.I1, ref.I2, ref.I4, ref.I8} {
		w := k.Width()
		min := int64(-1) << uint(8*w-1)
		max := -(min + 1)
		r = append(r, ref.Ints(k), ref.Ints(k, min), ref.Ints(k, max, -1), ref.Ints(k, 0, 1, -2))
	}
	for _, k := range []ref.Kind{ref.U1, ref.U2, ref.U4, ref.U8} {
		w := k.Width()
		max := uint64(math.MaxUint64)
		if w < 8 {
			max = uint64(1)<<uint(8*w) - 1
		}
		r = append(r, ref.Uints(k), ref.Uints(k, max), ref.Uints(k, max>>1+1, 1), ref.Uints(k, 0))
	}
	r = append(r, ref.Floats(ref.F4), ref.Floats(ref.F4, math.MaxFloat32), ref.Floats(ref.F4, math.Copysign(0, -1), math.SmallestNonzeroFloat32), ref.Floats(ref.F4, -1.5))
	r = append(r, ref.Floats(ref.F8), ref.Floats(ref.F8, math.MaxFloat64), ref.Floats(ref.F8, -1.5, math.SmallestNonzeroFloat64), ref.Floats(ref.F8, 0.1))
	r = append(r, ref.Bin(), ref.Bin(0xFF), ref.Bin(0x00, 0x80), ref.Bin(1, 2, 3))
	r = append(r, ref.Bools(), ref.Bools(true), ref.Bools(false, true))
	r = append(r, ref.Ascii(""), ref.Ascii("a"), ref.Ascii("\x00\x7f"), ref.Ascii("\"\\"), ref.Ascii("hello world // x"))
	r = append(r, ref.List())
	return r
}

// smallLeafAlphabet: one or two leaves per format (for deeper / wider scopes).
func smallLeafAlphabet() []*ref.Node {
	return []*ref.Node{
		ref.Ints(ref.I1, -128), ref.Ints(ref.I2, -2, 3), ref.Ints(ref.I4, math.MaxInt32), ref.Ints(ref.I8, math.MinInt64),
		ref.Uints(ref.U1, 255), ref.Uints(ref.U2, 256), ref.Uints(ref.U4), ref.Uints(ref.U8, math.MaxUint64),
		ref.Floats(ref.F4, -1.5), ref.Floats(ref.F8, 0.1, 1e300),
		ref.Bin(0x80, 0x7f), ref.Bools(true, false), ref.Ascii("ab"), ref.Ascii(""), ref.List(),
	}
}

// sizeAxis: the size boundaries for a format of element width w.
func sizeAxis(w int, tier string) []int {
	m := ref.MaxBytes / w
	r := []int{0, 1, 2, 254, 255, 256, 257}
	if w == 1 || tier == "thorough" {
		r = append(r, 65534, 65535, 65536, 65537)
	} else {
		r = append(r, 65535/w, 65535/w+1, 65536/w, 65536/w+1)
	}
	_ = m
	return r
}
