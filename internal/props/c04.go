package props

import (
	"fmt"
	"math"
	"regexp"
	"strconv"
	"strings"
	"unicode"

	"github.com/wolimst/lib-secs2-hsms-go/pkg/ast"

	h "verif/internal/harness"
	"verif/internal/ref"
)

// C04 — SML print -> parse round trip (E1/E3 vs identity).

// nameOK is the name predicate of DESIGN C04, stated independently of the lexer.
var nameKeyword = regexp.MustCompile(`^([Ss]\d+[Ff]\d+|[Ww]|\[[Ww]\]|[Hh](->|<->|<-)[Ee])`)

func nameOK(s string) bool {
	if s == "" || strings.Contains(s, "//") || s[0] == '.' || s[0] == '<' {
		return false
	}
	for _, r := range s {
		if unicode.IsSpace(r) {
			return false
		}
	}
	return !nameKeyword.MatchString(s)
}

// buildMsg builds the real message for a reference message via the factories.
func buildMsg(rm *ref.Msg) (m *ast.DataMessage, pan string) {
	defer func() {
		if r := recover(); r != nil {
			m, pan = nil, fmt.Sprint(r)
		}
	}()
	var it ast.ItemNode = ast.NewEmptyItemNode()
	if rm.Item != nil {
		it = Build(rm.Item)
	}
	return ast.NewDataMessage(rm.Name, rm.Stream, rm.Function, rm.W, rm.Dir, it), ""
}

// printParse is the C04 clause-1 oracle for one message.
func printParse(c *h.Ctx, class string, rm *ref.Msg) string {
	m, pan := buildMsg(rm)
	c.Ops(1)
	desc := ref.PrintMsg(rm)
	if pan != "" {
		c.Fail(class+"-ctor-refused", desc, pan)
		return "bad"
	}
	text := m.String()
	if text != desc {
		c.Fail(class+"-printer-vs-reference", strconv.Quote(desc), fmt.Sprintf("String()=%q", trunc(text, 600)))
		return "bad"
	}
	ms, errs, warns, p2 := smlRun(text)
	c.Ops(2)
	in := "sml.Parse(" + strconv.Quote(trunc(text, 1500)) + ")"
	switch {
	case p2 != "":
		c.Fail(class+"-panic", in, p2)
		return "bad"
	case len(errs) > 0 || len(ms) != 1:
		c.Fail(class+"-printed-form-rejected", in, fmt.Sprintf("%d messages, errors %v", len(ms), errs))
		return "bad"
	case len(warns) > 0:
		c.Fail(class+"-printed-form-warns", in, fmt.Sprint(warns))
		return "bad"
	}
	if d := viewOf(m).diff(viewOf(ms[0])); d != "" {
		c.Fail(class+"-reparsed-differs", in, d)
		return "bad"
	}
	// same bytes once completed
	fill := map[string]interface{}{}
	if rm.Item != nil {
		completionValues(rm.Item, fill)
	}
	b1, p1 := completedBytes(m, fill)
	b2, p3 := completedBytes(ms[0], fill)
	c.Ops(6)
	complete := true // every variable received a completion value (huge ASCII lower bounds are left unfilled)
	if rm.Item != nil {
		for _, v := range rm.Item.Variables() {
			if _, ok := fill[v]; !ok {
				complete = false
			}
		}
	}
	if p1 != p3 || !sameBytes(b1, b2) || (complete && p1 == "" && len(b1) == 0) {
		c.Fail(class+"-completed-bytes-differ", in, fmt.Sprintf("original: %x %s; re-parsed: %x %s", truncB(b1, 80), p1, truncB(b2, 80), p3))
		return "bad"
	}
	return "round-trip"
}

var nameRunes = []string{"a", "Z", "0", "9", "_", "-", ">", "<", "[", "]", ".", "/", "W", "w", "S", "F", "H", "E", "1", "?", "!", "\"", "'", "\\", "*", "+", ",", ":", ";", "=", "@", "#", "é", "語", "�", "\xff", "~", "|", "{", "("}

var longNames = []string{"AreYouThere?", "a<b>", "x.y.", "S2", "[W", "h-e", "S1F", "SF1", "F1", "Wafer", "wait", "H->", "H-E", "He", "name//x", "a/b", "S1F1x", "[w]x", "/", "/x/", "x/", "<", "...", "L", "A", "<A>", "日本語メッセージ", "a b", "x\ty",
	// characters that Unicode case folding maps to letters of the header tokens (long s, Kelvin sign, dotless / dotted i)
	"\u017f1f1", "\u017f6F11", "\u017f127f255", "\u017f1f1_Report", "\u017f", "\u017ftart", "x\u017f1f1", "[\u017f]", "\u212a", "h->\u212a", "\u0131", "\u0130", "\u017f1\u017f1", "S1\u017f1"}

func init() {
	h.Register(&h.Check{
		ID:   "C04",
		Rule: "complete product stream x function x wait-bit state x direction; every 1- and 2-rune name over a 40-rune alphabet passing the name predicate (plus longer names); every template tree of the scope with variables, ASCII bound forms and nested ellipses; every 1- and 2-character ASCII string 0..127 and 3-character strings over a 12-character alphabet; boundary numbers of every format, F4/F8 exponent sweeps; each built with the real factories, printed, parsed by the real parser and compared in all observers (and in bytes once completed); clause 2 (fixed point) on every accepted token soup; non-trivial = message printed, re-parsed and compared",
		Build: func(tier string, seed int64) []h.Space {
			var sp []h.Space
			item := ref.List(ref.Uints(ref.U2, 0x1234), ref.Ascii("x"))
			dirs := []string{"H->E", "H<-E", "H<->E"}
			sp = append(sp, h.Space{Name: "stream-function-wbit-direction", Count: product(128, 256, 3, 3),
				Describe: func(i uint64) interface{} {
					d := unrank(i, 128, 256, 3, 3)
					return fmt.Sprintf("S%dF%d waitBit=%d %s", d[0], d[1], d[2], dirs[d[3]])
				},
				Run: func(c *h.Ctx, i uint64) {
					d := unrank(i, 128, 256, 3, 3)
					if d[2] == 1 && d[1]%2 == 0 {
						c.Case(0, false, "skip-w-even")
						return
					}
					rm := &ref.Msg{Stream: d[0], Function: d[1], W: d[2], Dir: dirs[d[3]], Name: "n"}
					if (d[0]+d[1])%2 == 0 {
						rm.Item = item
					}
					if d[0]%3 == 0 {
						rm.Name = ""
					}
					c.Case(0, true, printParse(c, "header", rm))
				}})
			// names
			var names []string
			for _, a := range nameRunes {
				names = append(names, a)
				for _, b := range nameRunes {
					names = append(names, a+b)
				}
			}
			names = append(names, longNames...)
			sp = append(sp, h.Space{Name: "message-names", Count: uint64(len(names) * 3),
				Describe: func(i uint64) interface{} { return fmt.Sprintf("name %q wait-bit form %d", names[i/3], i%3) },
				Run: func(c *h.Ctx, i uint64) {
					n := names[i/3]
					if !nameOK(n) {
						c.Case(0, false, "not-a-name")
						return
					}
					rm := &ref.Msg{Stream: 1, Function: 1, W: int(i % 3), Dir: dirs[i%3], Name: n, Item: item}
					c.Case(0, true, printParse(c, "name", rm))
				}})
			// template trees
			N := 4
			if tier == "thorough" {
				N = 5
			}
			ts := NewTreeScope(smlAtoms(), N, 4, 4)
			sp = append(sp, h.Space{Name: fmt.Sprintf("template-trees-N%d", N), Count: ts.Count(),
				Describe: func(i uint64) interface{} { n := ts.Nth(i); nameTemplate(n); return ref.Print(n) },
				Run: func(c *h.Ctx, i uint64) {
					n := ts.Nth(i)
					if !nameTemplate(n) {
						c.Case(0, false, "invalid-template")
						return
					}
					rm := &ref.Msg{Stream: 6, Function: 11, W: 2, Dir: "H<-E", Name: "tmpl", Item: n}
					c.Case(0, true, printParse(c, "template", rm))
				}})
			// value trees of the binary-side alphabet (all boundary leaves)
			vs := NewTreeScope(leafAlphabet(), 3, 3, 2)
			sp = append(sp, h.Space{Name: "value-trees-N3", Count: vs.Count(),
				Describe: func(i uint64) interface{} { return ref.Print(vs.Nth(i)) },
				Run: func(c *h.Ctx, i uint64) {
					rm := &ref.Msg{Stream: 0, Function: 0, W: 0, Dir: "H->E", Item: vs.Nth(i)}
					c.Case(0, true, printParse(c, "values", rm))
				}})
			// deep nested ellipses
			sp = append(sp, h.Space{Name: "nested-ellipses-depth", Count: 6 * 4,
				Describe: func(i uint64) interface{} { return fmt.Sprintf("ellipsis nesting depth %d variant %d", i/4+1, i%4) },
				Run: func(c *h.Ctx, i uint64) {
					n := nestedEllipses(int(i/4)+1, int(i%4))
					nameTemplate(n)
					rm := &ref.Msg{Stream: 1, Function: 1, W: 1, Dir: "H->E", Item: n}
					c.Case(0, true, printParse(c, "ellipses", rm))
				}})
			// ellipsis-centred templates: every list shape of the C10 scope (ellipsis before AND after nested lists with ellipses)
			es := NewTreeScope(c10Atoms(), 7, 3, 4)
			if tier != "thorough" {
				es = NewTreeScope(c10Atoms(), 6, 3, 4)
			}
			sp = append(sp, h.Space{Name: "ellipsis-templates", Count: es.Count(),
				Describe: func(i uint64) interface{} { n := es.Nth(i); nameTemplate(n); return ref.Print(n) },
				Run: func(c *h.Ctx, i uint64) {
					n := es.Nth(i)
					if !nameTemplate(n) || len(ellipsisNames(n)) == 0 {
						c.Case(0, false, "no-ellipsis")
						return
					}
					c.Case(0, true, printParse(c, "ellipsis", &ref.Msg{Stream: 1, Function: 1, W: 0, Dir: "H->E", Item: n}))
				}})
			// variable names are case-sensitive: names that differ only in letter case are different variables
			caseSets := [][]string{{"lot", "Lot"}, {"lot", "LOT", "lOt"}, {"v0", "V0"}, {"x", "X", "x1"}, {"aB", "Ab", "AB"}, {"wafer_id", "Wafer_Id"}}
			sp = append(sp, h.Space{Name: "names-differing-only-in-case", Count: uint64(len(caseSets) * 4),
				Describe: func(i uint64) interface{} { return fmt.Sprintf("variables %v in shape %d", caseSets[i/4], i%4) },
				Run: func(c *h.Ctx, i uint64) {
					ns := caseSets[i/4]
					var n *ref.Node
					switch i % 4 {
					case 0: // same item
						n = &ref.Node{Kind: ref.U2, Elems: []ref.Elem{{U: 7}}}
						for _, v := range ns {
							n.Elems = append(n.Elems, ref.Elem{Var: v})
						}
					case 1: // across list items
						n = ref.List()
						for _, v := range ns {
							n.Children = append(n.Children, &ref.Node{Kind: ref.I1, Elems: []ref.Elem{{Var: v}}})
						}
					case 2: // item variable and value variables
						n = ref.List(ref.Var(ns[0]))
						for _, v := range ns[1:] {
							n.Children = append(n.Children, ref.AsciiVar(v, 0, -1))
						}
					default: // nested
						n = ref.List(ref.List(ref.Var(ns[0])), &ref.Node{Kind: ref.BOOLEAN, Elems: []ref.Elem{{Var: ns[1]}}})
					}
					c.Case(0, true, printParse(c, "case-names", &ref.Msg{Stream: 1, Function: 1, W: 0, Dir: "H->E", Item: n}))
				}})
			// ASCII variables with large bounds (the bounds are data of the template, not a check on a literal)
			bnds := []int{0, 1, 255, 256, 65535, 65536, 16777214, 16777215, 16777216, 16777217, 1 << 31, 1<<31 + 1, 1 << 40, 1<<62 - 1, 1 << 62}
			sp = append(sp, h.Space{Name: "ascii-variable-bounds", Count: uint64(len(bnds) * len(bnds)),
				Describe: func(i uint64) interface{} {
					return fmt.Sprintf("<A[%d..%d] v0> / <A[%d..] v0>", bnds[i/uint64(len(bnds))], bnds[i%uint64(len(bnds))], bnds[i/uint64(len(bnds))])
				},
				Run: func(c *h.Ctx, i uint64) {
					lo, hi := bnds[i/uint64(len(bnds))], bnds[i%uint64(len(bnds))]
					out := "skip"
					if lo <= hi {
						out = printParse(c, "ascii-bounds", &ref.Msg{Stream: 1, Function: 1, W: 0, Dir: "H->E", Item: ref.List(ref.AsciiVar("v0", lo, hi), ref.AsciiVar("v1", hi, -1))})
					}
					c.Case(0, lo <= hi, out)
				}})
			// strings: every 1- and 2-character string over ASCII 0..127, 3-character strings over 12 characters
			alpha3 := []byte{'"', '\\', ' ', '/', 0x00, 0x7F, 'a', '\n', '\r', '\t', '<', '.'}
			sp = append(sp, h.Space{Name: "ascii-strings", Count: 128 + 128*128 + 12*12*12,
				Describe: func(i uint64) interface{} { return asciiCase(i, alpha3) },
				Run: func(c *h.Ctx, i uint64) {
					s := asciiCase(i, alpha3)
					var it *ref.Node = ref.Ascii(s)
					if i%2 == 1 {
						it = ref.List(ref.Uints(ref.U1, 1), ref.Ascii(s), ref.Ascii(s+s))
					}
					rm := &ref.Msg{Stream: 1, Function: 2, W: 0, Dir: "H<->E", Item: it}
					c.Case(0, true, printParse(c, "string", rm))
				}})
			// numbers
			type num struct {
				k ref.Kind
				e ref.Elem
			}
			var nums []num
			for _, k := range []ref.Kind{ref.I1, ref.I2, ref.I4, ref.I8} {
				for _, v := range intBounds(k.Width()) {
					sh := uint(64 - 8*k.Width())
					if v<<sh>>sh == v {
						nums = append(nums, num{k, ref.Elem{I: v}})
					}
				}
			}
			for _, k := range []ref.Kind{ref.U1, ref.U2, ref.U4, ref.U8} {
				for _, v := range uintBounds(k.Width()) {
					if k.Width() == 8 || v < 1<<uint(8*k.Width()) {
						nums = append(nums, num{k, ref.Elem{U: v}})
					}
				}
			}
			for _, v := range f4Bounds {
				nums = append(nums, num{ref.F4, ref.Elem{F: float64(float32(v))}}, num{ref.F4, ref.Elem{F: -float64(float32(v))}})
			}
			for _, v := range f8Bounds {
				nums = append(nums, num{ref.F8, ref.Elem{F: v}}, num{ref.F8, ref.Elem{F: -v}})
			}
			// exponent sweeps: shortest-form printing uses e+XX / e-XX
			for e := 1; e < 255; e++ {
				for _, m := range []uint32{0, 1, 0x400000, 0x7FFFFF, 0x2AAAAA} {
					nums = append(nums, num{ref.F4, ref.Elem{F: float64(math.Float32frombits(uint32(e)<<23 | m))}})
				}
			}
			for _, m := range []uint32{1, 2, 0x400000, 0x7FFFFF} {
				nums = append(nums, num{ref.F4, ref.Elem{F: float64(math.Float32frombits(m))}}) // subnormals
			}
			for e := 0; e < 2047; e += 3 {
				for _, m := range []uint64{0, 1, 0x8000000000000, 0xFFFFFFFFFFFFF, 0x5555555555555} {
					if e == 0 && m == 0 {
						continue
					}
					nums = append(nums, num{ref.F8, ref.Elem{F: math.Float64frombits(uint64(e)<<52 | m)}})
				}
			}
			for p := -30; p <= 30; p++ { // powers of ten around the %g switch points
				nums = append(nums, num{ref.F8, ref.Elem{F: math.Pow(10, float64(p))}}, num{ref.F4, ref.Elem{F: float64(float32(math.Pow(10, float64(p))))}})
			}
			sp = append(sp, h.Space{Name: "boundary-numbers-and-float-exponents", Count: uint64(len(nums)),
				Describe: func(i uint64) interface{} { return ref.Print(&ref.Node{Kind: nums[i].k, Elems: []ref.Elem{nums[i].e}}) },
				Run: func(c *h.Ctx, i uint64) {
					n := &ref.Node{Kind: nums[i].k, Elems: []ref.Elem{nums[i].e, {Var: "v0"}, nums[i].e}}
					rm := &ref.Msg{Stream: 1, Function: 1, W: 1, Dir: "H->E", Item: n}
					out := printParse(c, "number", rm)
					// and variable-free, through bytes
					n2 := &ref.Node{Kind: nums[i].k, Elems: []ref.Elem{nums[i].e}}
					printParse(c, "number", &ref.Msg{Stream: 1, Function: 1, W: 1, Dir: "H->E", Item: n2})
					c.Case(0, true, out)
				}})
			// the longest legal ASCII items: one quoted run, several runs split by character codes, inside a list
			longNs := []int{65535, 65536, ref.MaxBytes - 1, ref.MaxBytes}
			longForms := []string{"one quoted run", "runs split by a line feed in the middle", "a double quote at both ends", "inside a list, after a sibling"}
			sp = append(sp, h.Space{Name: "longest-ascii-items", Count: product(len(longNs), len(longForms)), ChunkHint: 1,
				Describe: func(i uint64) interface{} {
					d := unrank(i, len(longNs), len(longForms))
					return fmt.Sprintf("ASCII item of %d characters, %s", longNs[d[0]], longForms[d[1]])
				},
				Run: func(c *h.Ctx, i uint64) {
					d := unrank(i, len(longNs), len(longForms))
					n := longNs[d[0]]
					str := strings.Repeat("a", n)
					switch d[1] {
					case 1:
						str = strings.Repeat("a", n/2) + "\n" + strings.Repeat("b", n-n/2-1)
					case 2:
						str = "\"" + strings.Repeat("a", n-2) + "\""
					}
					var it ast.ItemNode = ast.NewASCIINode(str)
					if d[1] == 3 {
						it = ast.NewListNode(ast.NewUintNode(1, 7), it)
					}
					m := ast.NewDataMessage("long", 1, 1, 1, "H->E", it)
					ok := fixedPoint(c, "longest-ascii", fmt.Sprintf("ASCII item of %d characters, %s", n, longForms[d[1]]), m)
					c.Case(0, true, fmt.Sprintf("fixed-point=%v", ok))
				}})
			if tier == "thorough" {
				// every F4 sign/exponent with 4096 mantissa patterns, every F8 exponent with 64: shortest-form print -> parse -> same bits
				sp = append(sp, h.Space{Name: "f4-f8-bit-pattern-sweep-print-parse", Count: 2*256*4096 + 2*2047*64, ChunkHint: 4096,
					Describe: func(i uint64) interface{} { return fmt.Sprintf("float pattern #%d", i) },
					Run: func(c *h.Ctx, i uint64) {
						var n *ref.Node
						if i < 2*256*4096 {
							m := uint32(i % 4096)
							bits := uint32(i/4096/256)<<31 | uint32(i/4096%256)<<23 | m<<11 | m>>1
							f := float64(math.Float32frombits(bits))
							if !finite(f) {
								c.Case(0, false, "non-finite")
								return
							}
							n = ref.Floats(ref.F4, f)
						} else {
							j := i - 2*256*4096
							m := uint64(j % 64)
							bits := uint64(j/64/2047)<<63 | uint64(j/64%2047)<<52 | m<<46 | m<<20 | m
							n = ref.Floats(ref.F8, math.Float64frombits(bits))
						}
						c.Case(0, true, printParse(c, "float-sweep", &ref.Msg{Stream: 1, Function: 1, W: 0, Dir: "H->E", Item: n}))
					}})
			}
			// clause 2 on every accepted token soup (shares the C06 vocabulary)
			k := 3
			if tier == "thorough" {
				k = 4
			}
			sp = append(sp, h.Space{Name: fmt.Sprintf("fixed-point-on-accepted-soups-le%d", k), Count: soupCount(k),
				Describe: func(i uint64) interface{} { return soupText(i) },
				Run: func(c *h.Ctx, i uint64) {
					text := soupText(i)
					ms, errs, _, pan := smlRun(text)
					c.Ops(1)
					if pan != "" || len(errs) > 0 || len(ms) == 0 {
						c.Case(0, false, "not-accepted")
						return
					}
					ok := true
					for _, m := range ms {
						ok = fixedPoint(c, "accepted", "sml.Parse("+strconv.Quote(text)+")", m) && ok
					}
					c.Case(0, true, map[bool]string{true: "fixed-point", false: "bad"}[ok])
				}})
			return sp
		},
	})
}

func asciiCase(i uint64, alpha3 []byte) string {
	switch {
	case i < 128:
		return string([]byte{byte(i)})
	case i < 128+128*128:
		i -= 128
		return string([]byte{byte(i / 128), byte(i % 128)})
	}
	i -= 128 + 128*128
	return string([]byte{alpha3[i/144], alpha3[i/12%12], alpha3[i%12]})
}

// nestedEllipses builds ellipsis templates nested depth levels deep.
func nestedEllipses(depth, variant int) *ref.Node {
	leaf := func() *ref.Node { return &ref.Node{Kind: ref.U1, Elems: []ref.Elem{{Var: "?"}}} }
	n := ref.List(leaf(), ref.Ell("?"))
	for d := 1; d < depth; d++ {
		switch variant {
		case 0:
			n = ref.List(n, ref.Ell("?"))
		case 1:
			n = ref.List(leaf(), n, ref.Ell("?"))
		case 2:
			n = ref.List(n, ref.Var("?"), ref.Ell("?"), ref.AsciiVar("?", 1, 3))
		default:
			n = ref.List(n, n.Clone())
		}
	}
	return n
}
