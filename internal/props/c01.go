package props

import (
	"bytes"
	"fmt"
	"strings"

	"github.com/wolimst/lib-secs2-hsms-go/pkg/ast"
	"github.com/wolimst/lib-secs2-hsms-go/pkg/parser/hsms"
	"github.com/wolimst/lib-secs2-hsms-go/pkg/parser/sml"

	h "verif/internal/harness"
	"verif/internal/ref"
)

// C01 — encode -> decode round trip over headers x trees x sizes x construction routes.

// templatize turns every value into a variable and returns the fill map.
func templatize(n *ref.Node, ctr *int, fill map[string]interface{}) *ref.Node {
	name := func() string { s := fmt.Sprintf("v%d", *ctr); *ctr++; return s }
	switch n.Kind {
	case ref.L:
		m := &ref.Node{Kind: ref.L, Children: []*ref.Node{}}
		for _, c := range n.Children {
			m.Children = append(m.Children, templatize(c, ctr, fill))
		}
		return m
	case ref.A:
		v := name()
		fill[v] = n.Str
		return ref.AsciiVar(v, 0, -1)
	}
	m := &ref.Node{Kind: n.Kind, Elems: []ref.Elem{}}
	for _, e := range n.Elems {
		v := name()
		switch {
		case n.Kind.IsInt():
			fill[v] = e.I
		case n.Kind.IsUint():
			fill[v] = e.U
		case n.Kind == ref.B:
			fill[v] = int(e.U)
		case n.Kind == ref.BOOLEAN:
			fill[v] = e.T
		default:
			fill[v] = e.F
		}
		m.Elems = append(m.Elems, ref.Elem{Var: v})
	}
	return m
}

// body strips the header line of a printed message.
func body(s string) string {
	if i := strings.IndexByte(s, '\n'); i >= 0 {
		return s[i+1:]
	}
	return ""
}

// roundTrip checks decode(encode(m)) == m and encode(decode(encode(m))) == encode(m).
func roundTrip(c *h.Ctx, route string, msg *ast.DataMessage, rm *ref.Msg) {
	in := fmt.Sprintf("[route %s] %s session=%d system=%x\n%s", route, ref.Header(rm), rm.Session, rm.System, trunc(body(ref.PrintMsg(rm)), 1200))
	b := msg.ToBytes()
	c.Ops(1)
	if len(b) == 0 {
		c.Fail("rt-no-bytes", in, "complete message encodes to nothing")
		return
	}
	cur := b
	for pass := 1; pass <= 2; pass++ { // second pass feeds the decoder's own output back
		d, ok := hsms.Parse(cur)
		c.Ops(1)
		if !ok || d == nil {
			c.Fail(fmt.Sprintf("rt-decode-refused:%s", rootClass(rm)), in, fmt.Sprintf("pass %d: hsms.Parse(%s) ok=%v", pass, h.Hex(cur), ok))
			return
		}
		dm, isData := d.(*ast.DataMessage)
		if !isData {
			c.Fail("rt-decode-kind", in, fmt.Sprintf("decoded as %T", d))
			return
		}
		if dm.StreamCode() != rm.Stream || dm.FunctionCode() != rm.Function || dm.WaitBit() != ref.WaitBitName(rm.W) ||
			dm.SessionID() != rm.Session || !bytes.Equal(dm.SystemBytes(), rm.System[:]) {
			c.Fail("rt-header-fields", in, fmt.Sprintf("pass %d: decoded %s", pass, hsmsMsgFields(dm)))
			return
		}
		if dm.Type() != "data message" {
			c.Fail("rt-type", in, dm.Type())
		}
		// identical item tree: same printed body as the original AND as the reference
		if gb, ob := body(dm.String()), body(msg.String()); gb != ob {
			c.Fail(fmt.Sprintf("rt-item-differs:%s", rootClass(rm)), in, fmt.Sprintf("pass %d: decoded item prints %q, original %q", pass, trunc(gb, 500), trunc(ob, 500)))
			return
		}
		if len(dm.Variables()) != 0 {
			c.Fail("rt-variables", in, fmt.Sprint(dm.Variables()))
		}
		re := dm.ToBytes()
		c.Ops(3)
		if !bytes.Equal(re, b) {
			c.Fail(fmt.Sprintf("rt-reencode-differs:%s", rootClass(rm)), in, fmt.Sprintf("pass %d: re-encoded %s original %s", pass, h.Hex(re), h.Hex(b)))
			return
		}
		cur = re
	}
	if want := ref.EncodeMsg(rm); !bytes.Equal(b, want) {
		c.Fail("rt-encoder-vs-reference", in, fmt.Sprintf("(labels the faulty side) ToBytes()=%s reference %s", h.Hex(b), h.Hex(want)))
	}
}

// rootClass is a coarse classification of what the tree contains (for finding matching).
func rootClass(rm *ref.Msg) string {
	if rm.Item == nil {
		return "no-item"
	}
	var kinds []string
	seen := map[string]bool{}
	var walk func(n *ref.Node)
	walk = func(n *ref.Node) {
		tag := n.Kind.String()
		if n.Kind != ref.L && n.Size() > 0 {
			tag += "+"
		}
		if n.Size() > 255 {
			tag += "big"
		}
		if !seen[tag] {
			seen[tag] = true
			kinds = append(kinds, tag)
		}
		for i, ch := range n.Children {
			if i > 2 && ch == n.Children[0] {
				break
			}
			walk(ch)
		}
	}
	walk(rm.Item)
	if len(kinds) > 4 {
		kinds = kinds[:4]
	}
	return strings.Join(kinds, ",")
}

// buildRoute builds the message for tree n through one of the four routes.
func buildRoute(route int, rm *ref.Msg) (msg *ast.DataMessage, err string) {
	defer func() {
		if r := recover(); r != nil {
			msg, err = nil, fmt.Sprint("panic: ", r)
		}
	}()
	item := func() ast.ItemNode {
		if rm.Item == nil {
			return ast.NewEmptyItemNode()
		}
		return Build(rm.Item)
	}
	switch route {
	case 0: // constructors
		return ast.NewHSMSDataMessage(rm.Name, rm.Stream, rm.Function, rm.W, rm.Dir, item(), rm.Session, rm.System[:]), ""
	case 1: // template + fill, wait bit optional then set, session set last
		var it ast.ItemNode = ast.NewEmptyItemNode()
		fill := map[string]interface{}{}
		if rm.Item != nil {
			ctr := 0
			it = Build(templatize(rm.Item, &ctr, fill))
		}
		m := ast.NewDataMessage(rm.Name, rm.Stream, rm.Function, 2, rm.Dir, it)
		m = m.FillVariables(fill).SetWaitBit(rm.W == 1).SetSessionIDAndSystemBytes(rm.Session, rm.System[:])
		return m, ""
	case 2: // print -> sml.Parse -> session
		text := ref.PrintMsg(rm)
		ms, errs, _ := sml.Parse(text)
		if len(errs) > 0 || len(ms) != 1 {
			return nil, fmt.Sprintf("sml.Parse(%q): %d messages, errors %v", trunc(text, 300), len(ms), errs)
		}
		return ms[0].SetSessionIDAndSystemBytes(rm.Session, rm.System[:]), ""
	case 4: // a template completed twice from one ancestor: first the other way (encoded and dropped), then this way
		var it ast.ItemNode = ast.NewEmptyItemNode()
		fill := map[string]interface{}{}
		if rm.Item != nil {
			ctr := 0
			it = Build(templatize(rm.Item, &ctr, fill))
		}
		anc := ast.NewDataMessage(rm.Name, rm.Stream, rm.Function, 2, rm.Dir, it).FillVariables(fill).SetSessionIDAndSystemBytes(rm.Session, rm.System[:])
		if rm.Function%2 == 1 {
			other := anc.SetWaitBit(rm.W != 1)
			_ = other.ToBytes()
			_ = other.String()
		}
		readdressed := anc.SetSessionIDAndSystemBytes((rm.Session+1)%65536, []byte{9, 9})
		_ = readdressed.SetWaitBit(false).ToBytes()
		return anc.SetWaitBit(rm.W == 1), ""
	case 3: // the decoder's own output (decode of the reference encoding)
		d, ok := hsms.Parse(ref.EncodeMsg(rm))
		if !ok {
			return nil, "hsms.Parse(reference encoding) refused"
		}
		return d.(*ast.DataMessage), ""
	}
	panic("route")
}

var routeNames = []string{"constructors", "template+fill", "sml-print-parse", "decoder-output", "second-completion-of-a-shared-template"}

func init() {
	h.Register(&h.Check{
		ID:          "C01",
		Rule:        "complete product of stream x function x wait bit, all session ids, the system-byte lane alphabet, every item tree of the scope, the size-boundary axis for all 14 formats (top-level and nested), each through 4 construction routes; each message is encoded, decoded by the real decoder, compared field by field and re-encoded, and the decoder's output is fed back once more; non-trivial = a non-empty encoding was decoded and compared",
		MemLimitGiB: 12,
		WatchdogSec: 3600, // items of 16,777,215 elements legitimately take minutes; these checks have no hang oracle
		Build: func(tier string, seed int64) []h.Space {
			var sp []h.Space
			item := ref.List(ref.Uints(ref.U2, 0x1234), ref.Ascii("x"))
			sp = append(sp, h.Space{Name: "stream-function-wbit-x-route", Count: product(128, 256, 2, 2, 5),
				Describe: func(i uint64) interface{} {
					d := unrank(i, 128, 256, 2, 2, 5)
					return fmt.Sprintf("S%dF%d W=%d item=%v route=%s", d[0], d[1], d[2], d[3] == 1, routeNames[d[4]])
				},
				Run: func(c *h.Ctx, i uint64) {
					d := unrank(i, 128, 256, 2, 2, 5)
					if d[2] == 1 && d[1]%2 == 0 {
						c.Case(0, false, "skip-w-even")
						return
					}
					rm := &ref.Msg{Stream: d[0], Function: d[1], W: d[2], Dir: "H<->E", Session: 0xA1B2, System: [4]byte{0xC3, 0xD4, 0xE5, 0xF6}}
					if d[3] == 1 {
						rm.Item = item
					}
					msg, e := buildRoute(d[4], rm)
					if msg == nil {
						c.Fail("route-failed:"+routeNames[d[4]], ref.PrintMsg(rm), e)
						c.Case(0, true, "route-failed")
						return
					}
					roundTrip(c, routeNames[d[4]], msg, rm)
					c.Case(0, true, "hdr")
				}})
			sp = append(sp, h.Space{Name: "session-ids", Count: 65536,
				Describe: func(i uint64) interface{} { return fmt.Sprintf("session %d", i) },
				Run: func(c *h.Ctx, i uint64) {
					rm := &ref.Msg{Stream: 127, Function: 255, W: 1, Dir: "H<->E", Session: int(i), System: [4]byte{0, 0xFF, 0x80, 0x7F}, Item: item}
					msg, e := buildRoute(int(i%2)*1, rm)
					if msg == nil {
						c.Fail("route-failed", ref.PrintMsg(rm), e)
						c.Case(0, true, "route-failed")
						return
					}
					roundTrip(c, "session", msg, rm)
					c.Case(0, true, "session")
				}})
			sp = append(sp, h.Space{Name: "system-bytes", Count: uint64(len(sysAlphabet)),
				Describe: func(i uint64) interface{} { return fmt.Sprintf("system bytes %x", sysAlphabet[i]) },
				Run: func(c *h.Ctx, i uint64) {
					rm := &ref.Msg{Stream: 0, Function: 0, W: 0, Dir: "H<->E", Session: 0, Item: item}
					copy(rm.System[:], sysAlphabet[i])
					msg, e := buildRoute(0, rm)
					if msg == nil {
						c.Fail("route-failed", ref.PrintMsg(rm), e)
						c.Case(0, true, "route-failed")
						return
					}
					roundTrip(c, "system", msg, rm)
					c.Case(0, true, "system")
				}})
			N, D, W := 4, 3, 3
			if tier == "thorough" {
				N, D, W = 5, 4, 4
			}
			ts := NewTreeScope(leafAlphabet(), N, D, W)
			sp = append(sp, h.Space{Name: fmt.Sprintf("trees-N%d-D%d-W%d-x-route", N, D, W), Count: ts.Count() * 4,
				Describe: func(i uint64) interface{} {
					return map[string]string{"route": routeNames[i%4], "item": ref.Print(ts.Nth(i / 4))}
				},
				Run: func(c *h.Ctx, i uint64) {
					n := ts.Nth(i / 4)
					rm := &ref.Msg{Stream: 6, Function: 11, W: 1, Dir: "H<->E", Session: 1, System: [4]byte{0, 0, 0, 1}, Item: n}
					r := int(i % 4)
					msg, e := buildRoute(r, rm)
					if msg == nil {
						c.Fail("route-failed:"+routeNames[r]+":"+rootClass(rm), ref.PrintMsg(rm), e)
						c.Case(0, true, "route-failed")
						return
					}
					roundTrip(c, routeNames[r], msg, rm)
					c.Case(0, true, "tree:"+routeNames[r])
				}})
			// deeper, narrower: depth up to 8 over the small alphabet
			ds := NewTreeScope(smallLeafAlphabet(), 7, 8, 2)
			sp = append(sp, h.Space{Name: "deep-trees-N7-D8-W2", Count: ds.Count(),
				Describe: func(i uint64) interface{} { return ref.Print(ds.Nth(i)) },
				Run: func(c *h.Ctx, i uint64) {
					rm := &ref.Msg{Stream: 1, Function: 1, W: 0, Dir: "H<->E", Session: 9, System: [4]byte{1, 2, 3, 4}, Item: ds.Nth(i)}
					msg, e := buildRoute(int(i%2)*3, rm)
					if msg == nil {
						c.Fail("route-failed:"+rootClass(rm), ref.PrintMsg(rm), e)
						c.Case(0, true, "route-failed")
						return
					}
					roundTrip(c, "deep", msg, rm)
					c.Case(0, true, "deep")
				}})
			// the round trip must not depend on what the decoder was given before: every tree of a small scope is
			// round-tripped right after the decoder has refused (or accepted) one of a set of damaged messages, each
			// of which stops it in a different state (inside nested lists, inside a leaf, in a recovered panic)
			damaged := [][]byte{
				hdr(1, 1, []byte{0x01, 0x03, 0xA5, 0x01, 0x01, 0x01, 0x02, 0xA5, 0x01, 0x02}),       // inner list announces 2, message holds 1
				hdr(1, 1, []byte{0x01, 0x02, 0x01, 0x02, 0xA5, 0x01, 0x05, 0xA9, 0x02, 0x00}),       // leaf truncated inside two lists
				hdr(1, 1, []byte{0x01, 0x02, 0xA5, 0x01, 0x07, 0x01, 0x01, 0x41, 0x02, 'a', 0xC3}),  // non-ASCII byte (constructor panic) inside lists
				hdr(1, 1, []byte{0x01, 0x02, 0xA5, 0x01, 0x07, 0x01, 0x01, 0xA4}),                   // zero length bytes inside lists
				hdr(1, 1, []byte{0x01, 0x01, 0x01, 0x01, 0xA5, 0x01, 0x07, 0x00}),                   // trailing byte after a nested item
				hdr(0x81, 2, []byte{0x01, 0x01, 0x01, 0x01, 0xA5, 0x01, 0x07}),                      // W-bit on an even function, nested body
				hdr(1, 1, []byte{0x01, 0x02, 0xA5, 0x01, 0x07, 0x91, 0x04, 0x7F, 0xC0, 0x00, 0x00}), // NaN after a sibling
				hdr(1, 1, []byte{0x01, 0x02, 0x01, 0x01, 0x0D, 0x01, 0x00}),                         // undefined format code inside lists
				hdr(1, 1, []byte{0x01, 0xFF, 0x01, 0xFF, 0x01, 0xFF}),                               // lists announcing 255 children, nothing there
				{0, 0, 0, 12, 0, 1, 1, 1, 0, 0, 0, 0, 0, 1, 0x01},                                   // cut inside the first item header
				hdr(1, 1, []byte{0x01, 0x02, 0x01, 0x01, 0xA5, 0x01, 0x07, 0x41, 0x02, 'o', 'k'}),   // a valid nested message
			}
			as := NewTreeScope(smallLeafAlphabet(), 5, 4, 2)
			sp = append(sp, h.Space{Name: "round-trip-after-a-damaged-message", Count: as.Count() * uint64(len(damaged)),
				Describe: func(i uint64) interface{} {
					return fmt.Sprintf("hsms.Parse(%x) first, then the round trip of %s", damaged[i%uint64(len(damaged))], ref.Print(as.Nth(i/uint64(len(damaged)))))
				},
				Run: func(c *h.Ctx, i uint64) {
					rm := &ref.Msg{Stream: 1, Function: 1, W: 0, Dir: "H<->E", Session: 9, System: [4]byte{1, 2, 3, 4}, Item: as.Nth(i / uint64(len(damaged)))}
					msg, e := buildRoute(0, rm)
					if msg == nil {
						c.Fail("route-failed:"+rootClass(rm), ref.PrintMsg(rm), e)
						c.Case(0, true, "route-failed")
						return
					}
					pre := append([]byte{}, damaged[i%uint64(len(damaged))]...)
					_, _, pan := parseSafe(pre)
					c.Ops(1)
					if pan != "" {
						c.Fail("panic-escaped:damaged", fmt.Sprintf("hsms.Parse(%x)", pre), pan)
					}
					roundTrip(c, fmt.Sprintf("after hsms.Parse(%x)", pre), msg, rm)
					c.Case(0, true, "after-damaged")
				}})
			// nesting at the decoder's documented limit: a tree of exactly that depth round-trips; the statement names no
			// bound, so a deeper tree that encodes but is refused by the decoder is reported (it is a listed finding)
			nestRT := []int{ref.NestingLimit - 1, ref.NestingLimit, ref.NestingLimit + 1}
			// many lists that are not nested in each other: a decoder that counts levels must give each one back (empty
			// lists, one-element lists and list rows, in numbers around and above the nesting limit, at depth 2 to 4)
			type wideCase struct {
				name string
				mk   func() ast.ItemNode
			}
			rep := func(n int, f func(j int) interface{}) ast.ItemNode {
				v := make([]interface{}, n)
				for j := range v {
					v[j] = f(j)
				}
				return ast.NewListNode(v...)
			}
			var wides []wideCase
			for _, n := range []int{9999, 10000, 10001, 20001, 65536} {
				n := n
				wides = append(wides,
					wideCase{fmt.Sprintf("L[%d] of empty lists", n), func() ast.ItemNode { return rep(n, func(int) interface{} { return ast.NewListNode() }) }},
					wideCase{fmt.Sprintf("L[%d] of <L <U1 7>>", n), func() ast.ItemNode {
						return rep(n, func(int) interface{} { return ast.NewListNode(ast.NewUintNode(1, 7)) })
					}},
					wideCase{fmt.Sprintf("L[%d] of <L <L> <A \"x\"> <L <L>>>", n), func() ast.ItemNode {
						return rep(n, func(int) interface{} {
							return ast.NewListNode(ast.NewListNode(), ast.NewASCIINode("x"), ast.NewListNode(ast.NewListNode()))
						})
					}})
			}
			for _, n := range []int{100, 101, 150} {
				n := n
				wides = append(wides, wideCase{fmt.Sprintf("%d rows of %d empty lists", n, n), func() ast.ItemNode {
					return rep(n, func(int) interface{} { return rep(n, func(int) interface{} { return ast.NewListNode() }) })
				}})
			}
			sp = append(sp, h.Space{Name: "many-lists-side-by-side", Count: uint64(len(wides)), ChunkHint: 1,
				Describe: func(i uint64) interface{} { return wides[i].name },
				Run: func(c *h.Ctx, i uint64) {
					msg := ast.NewHSMSDataMessage("", 1, 1, 1, "H<->E", wides[i].mk(), 9, []byte{1, 2, 3, 4})
					b := msg.ToBytes()
					d, ok := hsms.Parse(b)
					c.Ops(3)
					desc := fmt.Sprintf("S1F1 W message whose item is %s (%d bytes)", wides[i].name, len(b))
					switch {
					case len(b) == 0:
						c.Fail("rt-no-bytes", desc, "complete message encodes to nothing")
					case !ok || d == nil:
						c.Fail("rt-decode-refused:many-lists-side-by-side", desc, "a message at most 4 lists deep is refused")
					case !bytes.Equal(d.ToBytes(), b):
						c.Fail("rt-reencode-differs:many-lists-side-by-side", desc, "decoded message re-encodes differently")
					case d.Type() != "data message":
						c.Fail("rt-item-differs:many-lists-side-by-side", desc, "decoded as "+d.Type())
					case body(d.(*ast.DataMessage).String()) != body(msg.String()):
						c.Fail("rt-item-differs:many-lists-side-by-side", desc, "decoded item prints differently")
					}
					// a small message decoded next in the same process is not affected by the large one
					small := ast.NewHSMSDataMessage("", 1, 1, 1, "H<->E", ast.NewListNode(ast.NewListNode(), ast.NewUintNode(1, 7)), 9, []byte{1, 2, 3, 4}).ToBytes()
					if d2, ok2 := hsms.Parse(small); !ok2 || d2 == nil || !bytes.Equal(d2.ToBytes(), small) {
						c.Fail("rt-decode-refused:after-many-lists", desc, "the next (small) message is refused or differs")
					}
					c.Case(0, true, "many-lists")
				}})
			sp = append(sp, h.Space{Name: "round-trip-at-the-nesting-limit", Count: uint64(len(nestRT)) * 2, ChunkHint: 1,
				Describe: func(i uint64) interface{} {
					return fmt.Sprintf("%d nested lists around %s", nestRT[i/2], []string{"<U1 7>", "an empty list next to <A \"x\">"}[i%2])
				},
				Run: func(c *h.Ctx, i uint64) {
					depth := nestRT[i/2]
					var it ast.ItemNode = ast.NewUintNode(1, 7)
					if i%2 == 1 {
						it = ast.NewListNode(ast.NewListNode(), ast.NewASCIINode("x"))
						depth -= 2 // this item is two lists deep already
					}
					for j := 0; j < depth; j++ {
						it = ast.NewListNode(it)
					}
					msg := ast.NewHSMSDataMessage("", 1, 1, 1, "H<->E", it, 9, []byte{1, 2, 3, 4})
					b := msg.ToBytes()
					d, ok := hsms.Parse(b)
					c.Ops(3)
					desc := fmt.Sprintf("S1F1 W message whose item is nested %d lists deep (%d bytes)", nestRT[i/2], len(b))
					switch {
					case len(b) == 0:
						c.Fail("rt-no-bytes", desc, "complete message encodes to nothing")
					case (!ok || d == nil) && nestRT[i/2] > ref.NestingLimit:
						c.Fail("rt-decode-refused:nested-deeper-than-the-documented-limit", desc, "encodes, but the decoder refuses its own encoder's output")
					case !ok || d == nil:
						c.Fail("rt-decode-refused:nesting", desc, "refused within the documented nesting limit")
					case !bytes.Equal(d.ToBytes(), b):
						c.Fail("rt-reencode-differs:nesting", desc, "decoded message re-encodes differently")
					}
					c.Case(0, true, "nesting-limit")
				}})
			// size boundaries, all 14 formats, top-level and nested
			type sz struct {
				k      ref.Kind
				n      int
				nested bool
			}
			var sizes []sz
			for _, k := range ref.Kinds {
				w := k.Width()
				ns := []int{254, 255, 256, 257, 65534, 65535, 65536, 65537}
				if w > 1 {
					ns = append(ns, 255/w, 255/w+1, 65535/w, 65535/w+1)
				}
				if tier == "thorough" {
					ns = append(ns, ref.MaxBytes/w-1, ref.MaxBytes/w)
				}
				for _, n := range ns {
					sizes = append(sizes, sz{k, n, false}, sz{k, n, true})
				}
			}
			sp = append(sp, h.Space{Name: "size-boundaries", Count: uint64(len(sizes)), ChunkHint: 1,
				Describe: func(i uint64) interface{} {
					s := sizes[i]
					return fmt.Sprintf("%s with %d elements nested=%v", s.k, s.n, s.nested)
				},
				Run: func(c *h.Ctx, i uint64) {
					s := sizes[i]
					n := bigNode(s.k, s.n)
					it, _ := buildBig(n)
					if s.nested {
						it = ast.NewListNode(ast.NewBooleanNode(true), it)
						n = &ref.Node{Kind: ref.L, Children: []*ref.Node{ref.Bools(true), n}}
					}
					rm := &ref.Msg{Stream: 1, Function: 3, W: 1, Dir: "H<->E", Session: 2, System: [4]byte{9, 9, 9, 9}, Item: n}
					msg := ast.NewHSMSDataMessage("", 1, 3, 1, "H<->E", it, 2, []byte{9, 9, 9, 9})
					roundTripBig(c, msg, rm, fmt.Sprintf("%s with %d elements nested=%v", s.k, s.n, s.nested))
					c.Case(0, true, "size")
				}})
			// bit / byte-lane / boundary / seed-derived values of the 4- and 8-byte formats (the C02 value axis), through routes 0 and 3
			for _, k := range []ref.Kind{ref.I4, ref.U4, ref.I8, ref.U8, ref.F8} {
				k := k
				extra := 500
				if tier == "thorough" {
					extra = 50000
				}
				ax := newWideAxis(k, seed, extra)
				sp = append(sp, h.Space{Name: "wide-values-" + k.String(), Count: uint64(len(ax.vals)),
					Describe: func(i uint64) interface{} { return fmt.Sprintf("%s bits %x", k, ax.vals[i]) },
					Run: func(c *h.Ctx, i uint64) {
						n, ok := ax.node(ax.vals[i])
						if !ok {
							c.Case(0, false, "non-finite")
							return
						}
						n.Elems = append(n.Elems, n.Elems[0], ref.Elem{I: 1, U: 1, F: 1})
						rm := &ref.Msg{Stream: 2, Function: 1, W: 0, Dir: "H<->E", Session: 3, System: [4]byte{4, 3, 2, 1}, Item: ref.List(n, ref.Ascii("x"))}
						for _, r := range []int{0, 3} {
							msg, e := buildRoute(r, rm)
							if msg == nil {
								c.Fail("route-failed:"+rootClass(rm), ref.PrintMsg(rm), e)
								continue
							}
							roundTrip(c, routeNames[r], msg, rm)
						}
						c.Case(h.Digest([]byte(k.String()), []byte(fmt.Sprint(ax.vals[i]))), true, "wide:"+k.String())
					}})
			}
			// messages whose text is longer than one maximal item (the 16,777,215-byte limit is per item, not per message)
			type bigMsg struct {
				desc string
				mk   func() (ast.ItemNode, *ref.Node)
			}
			asc := func(n int) (ast.ItemNode, *ref.Node) { nd := bigNode(ref.A, n); return Build(nd), nd }
			bigs := []bigMsg{
				{"L[2] of A[9000000]", func() (ast.ItemNode, *ref.Node) {
					a, ra := asc(9000000)
					return ast.NewListNode(a, a), ref.List(ra, ra)
				}},
				{"L[300] of A[65536]", func() (ast.ItemNode, *ref.Node) {
					a, ra := asc(65536)
					vals := make([]interface{}, 300)
					ch := make([]*ref.Node, 300)
					for i := range vals {
						vals[i], ch[i] = a, ra
					}
					return ast.NewListNode(vals...), ref.List(ch...)
				}},
				{"L[2] of (A[16777215], U1[3])", func() (ast.ItemNode, *ref.Node) {
					a, ra := asc(16777215)
					return ast.NewListNode(a, ast.NewUintNode(1, 1, 2, 3)), ref.List(ra, ref.Uints(ref.U1, 1, 2, 3))
				}},
				{"L[1] of L[2] of B[8388608]", func() (ast.ItemNode, *ref.Node) {
					nd := bigNode(ref.B, 8388608)
					b := Build(nd)
					return ast.NewListNode(ast.NewListNode(b, b)), ref.List(ref.List(nd, nd))
				}},
				{"A[16777202] (message length exactly 2^24)", func() (ast.ItemNode, *ref.Node) { return asc(16777202) }},
				{"A[16777201] (message length 2^24-1)", func() (ast.ItemNode, *ref.Node) { return asc(16777201) }},
			}
			sp = append(sp, h.Space{Name: "messages-longer-than-one-maximal-item", Count: uint64(len(bigs)), ChunkHint: 1,
				Describe: func(i uint64) interface{} { return bigs[i].desc },
				Run: func(c *h.Ctx, i uint64) {
					it, n := bigs[i].mk()
					rm := &ref.Msg{Stream: 1, Function: 3, W: 1, Dir: "H<->E", Session: 2, System: [4]byte{9, 9, 9, 9}, Item: n}
					msg := ast.NewHSMSDataMessage("", 1, 3, 1, "H<->E", it, 2, []byte{9, 9, 9, 9})
					b := msg.ToBytes()
					if want := ref.EncodeMsg(rm); !bytes.Equal(b, want) {
						c.Fail("rt-encoder-vs-reference:big-message", bigs[i].desc, fmt.Sprintf("ToBytes() has %d bytes starting %x; reference %d bytes starting %x", len(b), truncB(b, 20), len(want), truncB(want, 20)))
					}
					roundTripBig(c, msg, rm, bigs[i].desc)
					c.Case(0, true, "big-message")
				}})
			return sp
		},
	})
}

// roundTripBig is roundTrip without printing huge trees (compares bytes, sizes and a digest of the print).
func roundTripBig(c *h.Ctx, msg *ast.DataMessage, rm *ref.Msg, in string) {
	b := msg.ToBytes()
	if len(b) == 0 {
		c.Fail("rt-no-bytes", in, "complete message encodes to nothing")
		return
	}
	d, ok := hsms.Parse(b)
	c.Ops(2)
	if !ok || d == nil {
		c.Fail("rt-decode-refused:"+rootClass(rm), in, fmt.Sprintf("hsms.Parse(%s) ok=%v", h.Hex(b), ok))
		return
	}
	dm := d.(*ast.DataMessage)
	re := dm.ToBytes()
	if !bytes.Equal(re, b) {
		c.Fail("rt-reencode-differs:"+rootClass(rm), in, fmt.Sprintf("re-encoded %s original %s", h.Hex(re), h.Hex(b)))
		return
	}
	if rm.Item.Count() < 70000 && rm.Item.Size() < 70000 {
		if gb, ob := body(dm.String()), body(msg.String()); gb != ob {
			c.Fail("rt-item-differs:"+rootClass(rm), in, fmt.Sprintf("decoded item prints %q, original %q", trunc(gb, 300), trunc(ob, 300)))
		}
	}
}
