package props

import (
	"bytes"
	"fmt"
	"math"
	"strings"

	"github.com/wolimst/lib-secs2-hsms-go/pkg/ast"

	h "verif/internal/harness"
	"verif/internal/ref"
)

// C18 — message producers change exactly the fields they name: explicit-state
// BFS over producer histories, every state compared with the R-msg record.

// rmsg is R-msg: a plain record, producers are field updates.
type rmsg struct {
	ref.Msg
	valid bool
}

func (r *rmsg) key() string {
	it := "<none>"
	if r.Item != nil {
		it = ref.Print(r.Item)
	}
	return fmt.Sprintf("%q|%d|%d|%d|%s|%d|%x|%s", r.Name, r.Stream, r.Function, r.W, r.Dir, r.Session, r.System, it)
}

func (r *rmsg) complete() bool {
	return r.W != 2 && r.Session != -1 && (r.Item == nil || r.Item.Complete())
}

// observe compares all observables of a real message with the record.
func (r *rmsg) observe(m *ast.DataMessage) string {
	vars := []string{}
	if r.Item != nil {
		vars = r.Item.Variables()
	}
	wantBytes := []byte{}
	if r.complete() {
		wantBytes = ref.EncodeMsg(&r.Msg)
	}
	switch {
	case m.Name() != r.Name:
		return fmt.Sprintf("Name()=%q want %q", m.Name(), r.Name)
	case m.StreamCode() != r.Stream || m.FunctionCode() != r.Function:
		return fmt.Sprintf("S%dF%d want S%dF%d", m.StreamCode(), m.FunctionCode(), r.Stream, r.Function)
	case m.WaitBit() != ref.WaitBitName(r.W):
		return fmt.Sprintf("WaitBit()=%s want %s", m.WaitBit(), ref.WaitBitName(r.W))
	case m.Direction() != r.Dir:
		return fmt.Sprintf("Direction()=%s want %s", m.Direction(), r.Dir)
	case m.SessionID() != r.Session:
		return fmt.Sprintf("SessionID()=%d want %d", m.SessionID(), r.Session)
	case !bytes.Equal(m.SystemBytes(), r.System[:]):
		return fmt.Sprintf("SystemBytes()=%x want %x", m.SystemBytes(), r.System)
	case m.Header() != ref.Header(&r.Msg):
		return fmt.Sprintf("Header()=%q want %q", m.Header(), ref.Header(&r.Msg))
	case m.String() != ref.PrintMsg(&r.Msg):
		return fmt.Sprintf("String()=%q want %q", m.String(), ref.PrintMsg(&r.Msg))
	case !eqStrings(m.Variables(), vars):
		return fmt.Sprintf("Variables()=%v want %v", m.Variables(), vars)
	case !bytes.Equal(m.ToBytes(), wantBytes) || m.ToBytes() == nil:
		return fmt.Sprintf("ToBytes()=%x want %x", m.ToBytes(), wantBytes)
	case m.Type() != "data message":
		return "Type()=" + m.Type()
	}
	return ""
}

// prodOp is one producer call.
type prodOp struct {
	kind string // setw | sess | fill
	b    bool
	id   int
	buf  []byte
	fill map[string]fillValue
	desc string
}

// apply performs the op on the record; ok=false when the record model rejects it.
func (o prodOp) applyRef(r rmsg) (rmsg, bool) {
	switch o.kind {
	case "setw":
		if r.W != 2 {
			return r, true
		}
		if o.b && r.Function%2 == 0 {
			return r, false
		}
		r.W = 0
		if o.b {
			r.W = 1
		}
	case "sess":
		if o.id < -1 || o.id > 65535 {
			return r, false
		}
		r.Session = o.id
		r.System = [4]byte{}
		copy(r.System[:], o.buf)
	case "fill":
		for _, v := range o.fill {
			if v.bad {
				// a rejected value is only rejected if its key names a variable of the item
				return r, false
			}
		}
		if r.Item != nil {
			r.Item = substitute(r.Item, o.fill)
		}
	}
	return r, true
}

func (o prodOp) applyReal(m *ast.DataMessage) (res *ast.DataMessage, pan string) {
	defer func() {
		if r := recover(); r != nil {
			res, pan = nil, fmt.Sprint(r)
		}
	}()
	switch o.kind {
	case "setw":
		return m.SetWaitBit(o.b), ""
	case "sess":
		// the argument is a window into a larger buffer of the caller (as a slice of a receive frame or of a scratch
		// array is: spare capacity behind it), and the caller uses that buffer again as soon as the call has returned
		frame := bytes.Repeat([]byte{0xEE}, len(o.buf)+12)
		arg := frame[2 : 2+len(o.buf)]
		copy(arg, o.buf)
		res = m.SetSessionIDAndSystemBytes(o.id, arg)
		for j := range frame {
			frame[j] = 0xA5
		}
		return res, ""
	default:
		g := map[string]interface{}{}
		for k, v := range o.fill {
			g[k] = v.v
		}
		return m.FillVariables(g), ""
	}
}

// saturate uses a message the way other code holding it might: it derives siblings through every
// producer and observes them and the message itself. Messages are immutable, so this must not
// influence anything derived from the message afterwards (ancestor DAGs instead of single paths:
// caches copied into derived messages, memoised results stored in the receiver).
func saturate(m *ast.DataMessage) {
	obs := func(x *ast.DataMessage) {
		if x != nil {
			_, _, _, _ = x.ToBytes(), x.String(), x.Variables(), x.SystemBytes()
		}
	}
	obs(m)
	try := func(f func() *ast.DataMessage) {
		defer func() { recover() }()
		obs(f())
	}
	try(func() *ast.DataMessage { return m.SetWaitBit(true) })
	try(func() *ast.DataMessage { return m.SetWaitBit(false) })
	try(func() *ast.DataMessage { return m.SetSessionIDAndSystemBytes(4321, []byte{0x77, 0x66}) })
	try(func() *ast.DataMessage { return m.FillVariables(map[string]interface{}{}) })
	if v := m.Variables(); len(v) > 0 {
		try(func() *ast.DataMessage { return m.FillVariables(map[string]interface{}{v[0]: 1}) })
		try(func() *ast.DataMessage { return m.FillVariables(map[string]interface{}{v[0]: "q"}) })
	}
	obs(m)
}

var c18Items = []*ref.Node{
	nil,
	ref.List(ref.Uints(ref.U1, 1, 2), ref.Ascii("ok")),
	ref.List(&ref.Node{Kind: ref.U2, Elems: []ref.Elem{{Var: "v0"}, {U: 5}}}, ref.AsciiVar("v1", 0, 4)),
}

// opsFor enumerates the producer alphabet for a record.
func opsFor(r rmsg) []prodOp {
	ops := []prodOp{{kind: "setw", b: true, desc: "SetWaitBit(true)"}, {kind: "setw", b: false, desc: "SetWaitBit(false)"}}
	bufs := [][]byte{{}, {0x11}, {0x21, 0x22, 0x23}, {0x31, 0x32, 0x33, 0x34}, {0x41, 0x42, 0x43, 0x44, 0x45}, {0x51, 0x52, 0x53, 0x54, 0x55, 0x56, 0x57, 0x58}}
	for _, id := range []int{-2, -1, 0, 65535, 65536} {
		for _, b := range bufs {
			ops = append(ops, prodOp{kind: "sess", id: id, buf: b, desc: fmt.Sprintf("SetSessionIDAndSystemBytes(%d, %x)", id, b)})
		}
	}
	// ids whose low 16/32 bits are in range (a narrowed field would accept them), with the regular 4 system bytes
	for _, id := range []int{65541, 1 << 31, 1<<32 - 1, 1 << 32, 1<<32 + 5, 3<<32 + 300, math.MaxInt64, math.MinInt64, -1 << 32, -1<<32 - 1} {
		ops = append(ops, prodOp{kind: "sess", id: id, buf: bufs[3], desc: fmt.Sprintf("SetSessionIDAndSystemBytes(%d, %x)", id, bufs[3])})
	}
	// fills: every sub-assignment of the item's variables, with unknown keys, and one rejected value
	var slots []slot
	if r.Item != nil {
		slotsOf(r.Item, &slots)
	}
	for mask := 0; mask < 1<<uint(len(slots)); mask++ {
		f := map[string]fillValue{}
		var ds []string
		for j, s := range slots {
			if mask&(1<<uint(j)) != 0 {
				f[s.name] = valueOptions(s)[(mask+j)%2]
				ds = append(ds, s.name)
			}
		}
		f["unknown"] = fillValue{v: 1}
		ops = append(ops, prodOp{kind: "fill", fill: f, desc: "FillVariables(" + strings.Join(ds, ",") + "+unknown)"})
	}
	if len(slots) > 0 {
		ops = append(ops, prodOp{kind: "fill", fill: map[string]fillValue{slots[0].name: valueOptions(slots[0])[2]}, desc: "FillVariables(" + slots[0].name + "=<rejected value>)"})
	}
	ops = append(ops, prodOp{kind: "fill", fill: map[string]fillValue{}, desc: "FillVariables({})"})
	return ops
}

func init() {
	h.Register(&h.Check{
		ID:   "C18",
		Rule: "explicit-state BFS: states are R-msg records reached by producer histories from 108 initial messages (wait bit x function parity x session x item x name x direction); transitions are real calls of SetWaitBit(true|false), SetSessionIDAndSystemBytes(5 ids x 6 buffer lengths) and FillVariables(every sub-assignment, unknown keys, a rejected value) replayed on fresh objects, once plainly and once with every object on the way first used for sibling derivations and observations (ancestor DAGs); after every transition all observables (Name, StreamCode, FunctionCode, WaitBit, Direction, SessionID, SystemBytes, Header, String, Variables, ToBytes) are compared with the record, accepted/refused must agree with the record model, and the source message must be unchanged; states = distinct records visited",
		Build: func(tier string, seed int64) []h.Space {
			depth := 3
			if tier == "thorough" {
				depth = 4
			}
			type root struct {
				r rmsg
			}
			var roots []rmsg
			dirs := []string{"H->E", "H<-E", "H<->E"}
			for w := 0; w < 3; w++ {
				for fp := 0; fp < 2; fp++ {
					for sess := 0; sess < 2; sess++ {
						for it := range c18Items {
							for nm := 0; nm < 2; nm++ {
								for d := range dirs {
									if w == 1 && fp == 0 {
										continue
									}
									r := rmsg{Msg: ref.Msg{Name: []string{"", "n"}[nm], Stream: 7, Function: 10 + fp, W: w, Dir: dirs[d], Session: -1, Item: c18Items[it]}}
									if sess == 1 {
										r.Session, r.System = 258, [4]byte{9, 8, 7, 6}
									}
									roots = append(roots, r)
								}
							}
						}
					}
				}
			}
			mkRoot := func(r rmsg) *ast.DataMessage {
				var it ast.ItemNode = ast.NewEmptyItemNode()
				if r.Item != nil {
					it = Build(r.Item)
				}
				m := ast.NewDataMessage(r.Name, r.Stream, r.Function, r.W, r.Dir, it)
				if r.Session != -1 {
					m = m.SetSessionIDAndSystemBytes(r.Session, r.System[:])
				}
				return m
			}
			return []h.Space{{Name: fmt.Sprintf("bfs-producer-histories-depth%d", depth), Count: uint64(len(roots)), ChunkHint: 1,
				Describe: func(i uint64) interface{} { return "BFS from " + roots[i].key() },
				Run: func(c *h.Ctx, i uint64) {
					type node struct {
						hist []prodOp
						rec  rmsg
					}
					seen := map[string]bool{roots[i].key(): true}
					frontier := []node{{nil, roots[i]}}
					if d := roots[i].observe(mkRoot(roots[i])); d != "" {
						c.Fail("initial-message-differs-from-record", roots[i].key(), d)
					}
					for dpt := 0; dpt < depth; dpt++ {
						var next []node
						for _, nd := range frontier {
							for _, op := range opsFor(nd.rec) {
								for variant := 0; variant < 2; variant++ {
									// successor = replay the history on a fresh object + one transition; in the
									// saturated variant every object on the way is also used for sibling derivations
									// and observations first (they must not leave a trace)
									m := mkRoot(roots[i])
									for _, o := range nd.hist {
										if variant == 1 {
											saturate(m)
										}
										m, _ = o.applyReal(m)
									}
									if variant == 1 {
										saturate(m)
									}
									before := viewOf(m)
									beforeBytes := append([]byte{}, m.ToBytes()...)
									beforeSys := append([]byte{}, m.SystemBytes()...)
									res, pan := op.applyReal(m)
									wantRec, ok := op.applyRef(nd.rec)
									c.Ops(len(nd.hist) + 1)
									hdesc := nd.rec.key() + " --" + op.desc + "-->"
									c.Case(0, true, op.kind)
									if (pan == "") != ok {
										c.Fail("producer-acceptance-differs:"+op.kind, hdesc, fmt.Sprintf("record model accepts=%v, real call panic=%q", ok, pan))
										continue
									}
									// the source message is untouched
									if d := before.diff(viewOf(m)); d != "" || !bytes.Equal(beforeBytes, m.ToBytes()) || !bytes.Equal(beforeSys, m.SystemBytes()) {
										c.Fail("producer-changed-its-receiver:"+op.kind, hdesc, d)
									}
									if !ok {
										continue
									}
									if d := wantRec.observe(res); d != "" {
										c.Fail("frame-condition-violated:"+op.kind, hdesc, d)
										continue
									}
									// the result passes the same validity rules as a fresh message: re-construct it
									if p := catch(func() {
										var it ast.ItemNode = ast.NewEmptyItemNode()
										if wantRec.Item != nil {
											it = Build(wantRec.Item)
										}
										ast.NewDataMessage(res.Name(), res.StreamCode(), res.FunctionCode(), wantRec.W, res.Direction(), it).SetSessionIDAndSystemBytes(res.SessionID(), res.SystemBytes())
									}); p != nil {
										c.Fail("result-fails-constructor-validity", hdesc, fmt.Sprint(p))
									}
									k := wantRec.key()
									if !seen[k] {
										seen[k] = true
										next = append(next, node{append(append([]prodOp{}, nd.hist...), op), wantRec})
									}
								}
							}
						}
						frontier = next
					}
					c.States += uint64(len(seen))
					c.Note("max-depth", 0)
				}}}
		},
		Extra: func(tier string) map[string]interface{} {
			d := 3
			if tier == "thorough" {
				d = 4
			}
			return map[string]interface{}{"bfs_depth_completed": d}
		},
	})
}
