package props

import (
	"bytes"
	"fmt"
	"strings"

	"github.com/wolimst/lib-secs2-hsms-go/pkg/ast"

	h "verif/internal/harness"
	"verif/internal/ref"
)

// C16 — Variables / String / ToBytes / Size agree (three observers on one object).

// printedFacts reads variable names (textual order) and the element count of the
// root item back from a printed item (R-sml's tokenizer of the printed form).
func printedFacts(text string) (names []string, rootCount int) {
	toks := tokenizePrinted("S0F0\n" + text)[1:]
	depth := 0
	rootKind := ""
	rootCount = 0
	for i := 0; i < len(toks); i++ {
		t := toks[i]
		switch {
		case t.s == "<":
			depth++
			if depth == 1 && i+1 < len(toks) {
				rootKind = toks[i+1].s
			}
			if depth == 2 && rootKind == "L" {
				rootCount++
			}
			i++ // the type name
		case t.s == ">":
			depth--
		case t.s == ".":
		case strings.HasPrefix(t.s, "["):
		case strings.HasPrefix(t.s, `"`):
			if depth == 1 {
				rootCount += len(t.s) - 2
			}
		default:
			isVar := t.kind == 'o'
			if isVar {
				names = append(names, t.s)
			}
			if depth == 1 {
				if rootKind == "A" && isVar {
					rootCount = -1
				} else {
					rootCount++
				}
			}
		}
	}
	return names, rootCount
}

// agree runs the three-observer oracle on one item.
func agree(c *h.Ctx, route string, it ast.ItemNode, want *ref.Node, reps int) string {
	desc := fmt.Sprintf("[%s] %s", route, strings.ReplaceAll(ref.Print(want), "\n", " "))
	str := itemString(it)
	vars := it.Variables()
	b := it.ToBytes()
	size := it.Size()
	c.Ops(4)
	// repeated observation: identical every time (map iteration order must not leak)
	if len(vars) >= 2 {
		for r := 0; r < reps; r++ {
			if s2 := itemString(it); s2 != str {
				c.Fail("string-unstable", desc, fmt.Sprintf("%q then %q", str, s2))
				return "bad"
			}
			if v2 := it.Variables(); !eqStrings(v2, vars) {
				c.Fail("variables-unstable", desc, fmt.Sprintf("%v then %v", vars, v2))
				return "bad"
			}
			c.Ops(2)
		}
	}
	// what a caller does with the returned slices must not show up in the next observation
	if len(vars) > 0 {
		scr := it.Variables()
		for i := range scr {
			scr[i] = "scribbled"
		}
		if cap(scr) > len(scr) {
			scr = append(scr, "extra")
		}
		if v2 := it.Variables(); !eqStrings(v2, vars) {
			c.Fail("variables-slice-is-shared-with-the-caller", desc, fmt.Sprintf("%v after the caller overwrote the previously returned slice (was %v)", v2, vars))
			return "bad"
		}
	}
	if len(b) > 0 {
		sb := it.ToBytes()
		for i := range sb {
			sb[i] ^= 0xFF
		}
		if b2 := it.ToBytes(); string(b2) != string(b) {
			c.Fail("bytes-slice-is-shared-with-the-caller", desc, fmt.Sprintf("%x after the caller overwrote the previously returned slice (was %x)", truncB(b2, 40), truncB(b, 40)))
			return "bad"
		}
	}
	names, cnt := printedFacts(str)
	// every unfilled variable exactly once, in printed order ("..." lines match "..."/"...[k]")
	if len(names) != len(vars) {
		c.Fail("variables-vs-printed-form", desc, fmt.Sprintf("Variables()=%v, printed form names %v in %q", vars, names, trunc(str, 300)))
		return "bad"
	}
	for i := range names {
		if names[i] == vars[i] || (names[i] == "..." && strings.HasPrefix(vars[i], "...")) {
			continue
		}
		c.Fail("variables-order-vs-printed-form", desc, fmt.Sprintf("Variables()=%v, printed order %v", vars, names))
		return "bad"
	}
	if dup := uniqueNames(vars); dup != "" {
		c.Fail("duplicate-variable-name", desc, dup)
		return "bad"
	}
	if (len(b) > 0) != (len(vars) == 0) {
		c.Fail("encodable-iff-no-variables", desc, fmt.Sprintf("len(ToBytes())=%d but Variables()=%v", len(b), vars))
		return "bad"
	}
	if size != cnt {
		c.Fail("size-vs-printed-elements", desc, fmt.Sprintf("Size()=%d, printed form %q has %d elements", size, trunc(str, 300), cnt))
		return "bad"
	}
	// and all of them against the reference template
	if d := matchesRef(it, want); d != "" {
		c.Fail("observers-vs-reference", desc, d)
		return "bad"
	}
	nv := len(vars)
	if nv > 6 {
		nv = 6
	}
	return fmt.Sprintf("agree-%dvars", nv)
}

func init() {
	h.Register(&h.Check{
		ID:          "C16",
		Rule:        "every template tree of the scope (all node kinds, every subset of positions as variables, ASCII variables, list variables, ellipses) as built by the factories, as produced by a partial fill, as produced by an ellipsis expansion and as produced by the SML parser; messages around them with session decided; oracle: names read back from String() in textual order == Variables(), all distinct, len(ToBytes())>0 iff no variables, Size() == printed element count (-1 for an ASCII variable), each observer repeated R times; non-trivial = object observed through all observers and compared",
		Assumptions: []string{"Go map iteration order is not controllable: observers are repeated 8 (quick) / 32 (thorough) times on every object with >= 2 variables"},
		Build: func(tier string, seed int64) []h.Space {
			var sp []h.Space
			N, reps := 4, 8
			if tier == "thorough" {
				reps = 32
			}
			atoms := append(c09Atoms(), ref.Ell("?"))
			ts := NewTreeScope(atoms, N, 3, 3)
			sp = append(sp, h.Space{Name: fmt.Sprintf("templates-N%d-x-4-routes", N), Count: ts.Count() * 4,
				Describe: func(i uint64) interface{} {
					n := ts.Nth(i / 4)
					nameTemplate(n)
					return fmt.Sprintf("route %d: %s", i%4, ref.Print(n))
				},
				Run: func(c *h.Ctx, i uint64) {
					n := ts.Nth(i / 4)
					if !nameTemplate(n) {
						c.Case(0, false, "invalid-template")
						return
					}
					var slots []slot
					slotsOf(n, &slots)
					switch i % 4 {
					case 0: // factories
						c.Case(0, true, agree(c, "factory", Build(n), n, reps))
					case 1: // partial fill: first non-ellipsis variable filled
						for _, s := range slots {
							if s.kind == ref.ELLIPSIS {
								continue
							}
							fv := valueOptions(s)[0]
							it, pan := tryFill(Build(n), map[string]interface{}{s.name: fv.v})
							if pan != "" {
								c.Fail("fill-refused", ref.Print(n), pan)
								c.Case(0, true, "bad")
								return
							}
							c.Case(0, true, agree(c, "partial-fill", it, substitute(n, map[string]fillValue{s.name: fv}), reps))
							return
						}
						c.Case(0, false, "nothing-to-fill")
					case 2: // ellipsis expansion: the first ellipsis filled with 2
						ells := ellipsisNames(n)
						if n.Kind != ref.L || len(ells) == 0 {
							c.Case(0, false, "no-ellipsis")
							return
						}
						counts := map[string]int{ells[0]: 2}
						it, pan := tryFill(Build(n), map[string]interface{}{ells[0]: 2})
						if pan != "" {
							c.Fail("fill-refused", ref.Print(n), pan)
							c.Case(0, true, "bad")
							return
						}
						c.Case(0, true, agree(c, "ellipsis-expansion", it, refEllipsisFill(n, counts), reps))
					default: // the SML parser's object, inside a message
						rm := &ref.Msg{Stream: 1, Function: 1, W: 0, Dir: "H->E", Name: "m", Item: n}
						ms, errs, _, pan := smlRun(ref.PrintMsg(rm))
						if pan != "" || len(errs) > 0 || len(ms) != 1 {
							c.Fail("printed-template-not-parsed", ref.PrintMsg(rm), fmt.Sprint(pan, errs))
							c.Case(0, true, "bad")
							return
						}
						m := ms[0].SetSessionIDAndSystemBytes(3, []byte{1, 2, 3, 4})
						out := agree(c, "parser", msgItem(m), n, reps)
						// the message-level observers
						mv, mb := m.Variables(), m.ToBytes()
						if !eqStringsEll(mv, n.Variables()) || (len(mb) > 0) != (len(mv) == 0) || body(m.String()) != ref.Print(n)+"\n." {
							c.Fail("message-observers-disagree", ref.PrintMsg(rm), fmt.Sprintf("Variables()=%v len(ToBytes())=%d String()=%q", mv, len(mb), m.String()))
							out = "bad"
						}
						c.Case(0, true, out)
					}
				}})
			// message-level observers after fills that ADD or RENAME names (ellipsis expansion, a list
			// variable filled with an item that has variables of its own), through DataMessage.FillVariables
			ms := NewTreeScope(atoms, 3, 3, 3)
			sp = append(sp, h.Space{Name: "messages-after-renaming-fills", Count: ms.Count() * 5,
				Describe: func(i uint64) interface{} {
					n := ms.Nth(i / 5)
					nameTemplate(n)
					return fmt.Sprintf("message fill kind %d on %s", i%5, ref.Print(n))
				},
				Run: func(c *h.Ctx, i uint64) {
					n := ms.Nth(i / 5)
					if !nameTemplate(n) || n.Complete() {
						c.Case(0, false, "no-variables")
						return
					}
					msg := ast.NewDataMessage("m", 1, 1, 0, "H->E", Build(n)).SetSessionIDAndSystemBytes(9, []byte{1, 2, 3, 4})
					_ = msg.Variables() // a first observation, as a caller would make
					_ = msg.ToBytes()
					fill := map[string]interface{}{}
					var want *ref.Node
					var slots []slot
					slotsOf(n, &slots)
					scalar := func(sl slot) bool { return sl.kind != ref.VAR && sl.kind != ref.ELLIPSIS && sl.kind != ref.A }
					switch i % 5 {
					case 3: // a value variable renamed (a name as fill value) to a fresh name
						for _, sl := range slots {
							if scalar(sl) {
								fill[sl.name] = "fresh_1"
								want = substitute(n, map[string]fillValue{sl.name: {elem: ref.Elem{Var: "fresh_1"}}})
								break
							}
						}
						if want == nil {
							c.Case(0, false, "no-value-variable")
							return
						}
					case 4: // a value variable renamed to a name that is in use elsewhere in the tree: refused, never a second occurrence
						tried := 0
						for _, a := range slots {
							if !scalar(a) {
								continue
							}
							for _, b := range slots {
								if b.name == a.name || b.kind == ref.ELLIPSIS {
									continue
								}
								tried++
								var m2 *ast.DataMessage
								p := catch(func() { m2 = msg.FillVariables(map[string]interface{}{a.name: b.name}) })
								c.Ops(1)
								if p != nil {
									continue
								}
								seen := map[string]bool{}
								for _, v := range m2.Variables() {
									if seen[v] {
										c.Fail("duplicate-name-accepted", fmt.Sprintf("%s with FillVariables({%q: %q})", ref.Print(n), a.name, b.name),
											fmt.Sprintf("accepted; Variables()=%v String()=%q", m2.Variables(), body(m2.String())))
										c.Case(0, true, "bad")
										return
									}
									seen[v] = true
								}
								names, _ := printedFacts(body(m2.String()))
								seen = map[string]bool{}
								for _, v := range names {
									if seen[v] && v != "..." {
										c.Fail("duplicate-name-accepted", fmt.Sprintf("%s with FillVariables({%q: %q})", ref.Print(n), a.name, b.name),
											fmt.Sprintf("accepted; printed names %v", names))
										c.Case(0, true, "bad")
										return
									}
									seen[v] = true
								}
							}
						}
						c.Case(0, tried > 0, fmt.Sprintf("collisions-tried=%v", tried > 0))
						return
					case 0: // every ellipsis filled with 1: repeated variables are renamed
						ells := ellipsisNames(n)
						if len(ells) == 0 {
							c.Case(0, false, "no-ellipsis")
							return
						}
						counts := map[string]int{}
						for _, e := range ells {
							counts[e], fill[e] = 1, 1
						}
						want = refEllipsisFill(n, counts)
					case 1: // first list variable filled with an item that brings two variables
						for _, sl := range slots {
							if sl.kind == ref.VAR {
								fill[sl.name] = ast.NewListNode(ast.NewUintNode(1, "p", 3), "q")
								want = substitute(n, map[string]fillValue{sl.name: {node: ref.List(&ref.Node{Kind: ref.U1, Elems: []ref.Elem{{Var: "p"}, {U: 3}}}, ref.Var("q"))}})
								break
							}
						}
						if want == nil {
							c.Case(0, false, "no-list-variable")
							return
						}
					default: // every variable filled with a plain value
						asg := map[string]fillValue{}
						for _, sl := range slots {
							if sl.kind != ref.ELLIPSIS {
								asg[sl.name] = valueOptions(sl)[0]
								fill[sl.name] = asg[sl.name].v
							}
						}
						want = substitute(n, asg)
					}
					var m2 *ast.DataMessage
					if p := catch(func() { m2 = msg.FillVariables(fill) }); p != nil {
						c.Fail("message-fill-refused", ref.Print(n)+" "+showMap(fill), fmt.Sprint(p))
						c.Case(0, true, "bad")
						return
					}
					out := agree(c, "message-fill", msgItem(m2), want, reps)
					mv, mb := m2.Variables(), m2.ToBytes()
					names, _ := printedFacts(body(m2.String()))
					okNames := len(names) == len(mv)
					for k := 0; okNames && k < len(names); k++ {
						okNames = names[k] == mv[k] || (names[k] == "..." && strings.HasPrefix(mv[k], "..."))
					}
					if !okNames || (len(mb) > 0) != (len(mv) == 0) || !eqStringsEll(mv, want.Variables()) {
						c.Fail("message-observers-disagree", ref.Print(n)+" filled with "+showMap(fill), fmt.Sprintf("Variables()=%v, names in String() %v, len(ToBytes())=%d", mv, names, len(mb)))
						out = "bad"
					} else if len(mv) == 0 {
						rm := &ref.Msg{Name: "m", Stream: 1, Function: 1, W: 0, Dir: "H->E", Session: 9, System: [4]byte{1, 2, 3, 4}, Item: want}
						if !sameBytes(mb, ref.EncodeMsg(rm)) {
							c.Fail("message-bytes-after-fill", ref.Print(n), fmt.Sprintf("%x", mb))
							out = "bad"
						}
					}
					c.Case(0, true, out)
				}})
			// names the printed form cannot carry as ONE name (blanks, brackets, dots...): refused, or the observers still agree
			nsym := []byte{'a', 'Z', '_', '0', '[', ']', '.', ' ', '>', '"'}
			var hostile []string
			var gen func(p string, n int)
			gen = func(p string, n int) {
				if p != "" {
					hostile = append(hostile, p)
				}
				if n == 0 {
					return
				}
				for _, x := range nsym {
					gen(p+string(x), n-1)
				}
			}
			gen("", 3)
			hostile = append(hostile, "a b", "flag[0] flag[1]", "x y", "a[0] ", " a", "a\tb", "a\nb", "v0 v1 v2", "a[0]b", "a>", "<a", "a.b", "...", "...[0]", "a[0")
			hk := []ref.Kind{ref.U1, ref.F8, ref.BOOLEAN, ref.B, ref.A, ref.L}
			sp = append(sp, h.Space{Name: "hostile-variable-names", Count: uint64(len(hostile) * len(hk)),
				Describe: func(i uint64) interface{} {
					return fmt.Sprintf("name %q in %s", hostile[i/uint64(len(hk))], hk[i%uint64(len(hk))])
				},
				Run: func(c *h.Ctx, i uint64) {
					name, k := hostile[i/uint64(len(hk))], hk[i%uint64(len(hk))]
					var n *ref.Node
					switch k {
					case ref.A:
						n = ref.AsciiVar(name, 0, -1)
					case ref.L:
						n = ref.List(ref.Uints(ref.U1, 1), ref.Var(name), &ref.Node{Kind: ref.I2, Elems: []ref.Elem{{Var: "y"}}})
					default:
						n = &ref.Node{Kind: k, Elems: []ref.Elem{{U: 1, F: 1, T: true}, {Var: name}}}
					}
					if k == ref.L && validEllipsis(name) {
						n.Children[1] = ref.Ell(name)
					}
					it, pan := tryItem(func() ast.ItemNode { return Build(n) })
					c.Ops(1)
					if pan != "" {
						c.Case(0, true, "refused")
						return
					}
					if k == ref.B && strings.HasPrefix(name, "0b") {
						c.Case(0, false, "binary-literal")
						return
					}
					c.Case(0, true, agree(c, "hostile-name", it, n, 2))
				}})
			// "encodes iff no variables" at the length-byte boundaries and at the largest legal item
			bSizes := []int{0, 1, 255, 256, 65535, 65536, 1<<24 - 2, 1<<24 - 1}
			bRoutes := []string{"ASCII literal", "ASCII variable filled with the string", "list variable filled with the ASCII item, in a message", "binary item"}
			sp = append(sp, h.Space{Name: "encodable-at-length-boundaries", Count: product(len(bSizes), len(bRoutes)), ChunkHint: 1,
				Describe: func(i uint64) interface{} {
					d := unrank(i, len(bSizes), len(bRoutes))
					return fmt.Sprintf("%s of %d elements", bRoutes[d[1]], bSizes[d[0]])
				},
				Run: func(c *h.Ctx, i uint64) {
					d := unrank(i, len(bSizes), len(bRoutes))
					n, route := bSizes[d[0]], d[1]
					if route == 3 && n > 65536 && tier != "thorough" {
						c.Case(0, false, "thorough-only")
						return
					}
					desc := fmt.Sprintf("%s of %d elements", bRoutes[route], n)
					payload := bytes.Repeat([]byte{'a'}, n)
					code := ref.A
					var it ast.ItemNode
					var vars []string
					var got []byte
					size := -2
					pan := catch(func() {
						switch route {
						case 0:
							it = ast.NewASCIINode(string(payload))
						case 1:
							it = ast.NewASCIINodeVariable("v", 0, -1).FillVariables(map[string]interface{}{"v": string(payload)})
						case 2:
							m := ast.NewDataMessage("m", 1, 1, 0, "H->E", ast.NewListNode("x")).FillVariables(map[string]interface{}{"x": ast.NewASCIINode(string(payload))}).SetSessionIDAndSystemBytes(1, []byte{0, 0, 0, 1})
							vars, got = m.Variables(), m.ToBytes()
							return
						case 3:
							code = ref.B
							vs := make([]interface{}, n)
							for j := range vs {
								vs[j] = int('a')
							}
							it = ast.NewBinaryNode(vs...)
						}
						vars, got, size = it.Variables(), it.ToBytes(), it.Size()
					})
					c.Ops(3)
					if pan != nil {
						c.Fail("legal-item-refused", desc, fmt.Sprint(pan))
						c.Case(0, true, "bad")
						return
					}
					want := append(ref.ItemHeader(code, n, 0), payload...)
					if route == 2 {
						want = append([]byte{0x01, 0x01}, want...)
						want = hdr(1, 1, want)
						want[4], want[5], want[13] = 0, 1, 1
					}
					switch {
					case len(vars) != 0:
						c.Fail("variables-in-a-complete-item", desc, fmt.Sprint(vars))
					case len(got) == 0:
						c.Fail("complete-item-does-not-encode", desc, "Variables() is empty but ToBytes() is empty")
					case !bytes.Equal(got, want):
						c.Fail("boundary-bytes", desc, fmt.Sprintf("ToBytes() has %d bytes (want %d), first difference at %d", len(got), len(want), firstDiff(got, want)))
					case route != 2 && size != n:
						c.Fail("size-differs", desc, fmt.Sprintf("Size()=%d", size))
					}
					c.Case(0, true, "checked")
				}})
			// items with very many variables (position bookkeeping beyond 255 / 65535)
			manyN := []int{255, 256, 257, 1000, 65535, 65536, 65537, 70000}
			manyK := []ref.Kind{ref.U1, ref.BOOLEAN, ref.F8, ref.L}
			sp = append(sp, h.Space{Name: "items-with-many-variables", Count: uint64(len(manyN) * len(manyK)), ChunkHint: 1,
				Describe: func(i uint64) interface{} {
					return fmt.Sprintf("%s with %d variables", manyK[i%uint64(len(manyK))], manyN[i/uint64(len(manyK))])
				},
				Run: func(c *h.Ctx, i uint64) {
					n, k := manyN[i/uint64(len(manyK))], manyK[i%uint64(len(manyK))]
					if tier != "thorough" && n > 1000 && k != ref.U1 && k != ref.L {
						c.Case(0, false, "thorough-only")
						return
					}
					vals := make([]interface{}, n+1)
					want := make([]string, n)
					for j := 0; j < n; j++ {
						// names whose lexicographic order differs from their positions
						want[j] = fmt.Sprintf("v%d_%d", (j*7919)%n, j)
						vals[j] = want[j]
					}
					var it ast.ItemNode
					var pan string
					switch k {
					case ref.L:
						vals[n] = ast.NewUintNode(1, 1)
						vals[0], vals[n] = vals[n], vals[0] // the item first (an ellipsis-free list may start with an item)
						want = append(want[1:], want[0])
						it, pan = tryItem(func() ast.ItemNode { return ast.NewListNode(vals...) })
					case ref.BOOLEAN:
						vals[n] = true
						it, pan = tryItem(func() ast.ItemNode { return ast.NewBooleanNode(vals...) })
					case ref.F8:
						vals[n] = 0.5
						it, pan = tryItem(func() ast.ItemNode { return ast.NewFloatNode(8, vals...) })
					default:
						vals[n] = 9
						it, pan = tryItem(func() ast.ItemNode { return ast.NewUintNode(1, vals...) })
					}
					c.Ops(1)
					in := fmt.Sprintf("%s with %d distinct variables", k, n)
					if pan != "" {
						c.Fail("many-variables-refused", in, pan)
						c.Case(0, true, "bad")
						return
					}
					got := it.Variables()
					if !eqStrings(got, want) {
						bad := 0
						for bad < len(got) && bad < len(want) && got[bad] == want[bad] {
							bad++
						}
						c.Fail("variables-order-with-many-variables", in, fmt.Sprintf("%d names returned; first difference at position %d", len(got), bad))
					} else if names, cnt := printedFacts(itemString(it)); !eqStrings(names, want) || cnt != n+1 || it.Size() != n+1 || len(it.ToBytes()) != 0 {
						c.Fail("observers-disagree-with-many-variables", in, fmt.Sprintf("printed names %d, printed elements %d, Size() %d, len(ToBytes()) %d", len(names), cnt, it.Size(), len(it.ToBytes())))
					}
					c.Case(0, true, "many-variables")
				}})
			// the same name twice anywhere in a tree must be refused by the factories (every pair of variable positions)
			ds := NewTreeScope(atoms, 3, 3, 3)
			sp = append(sp, h.Space{Name: "same-name-at-every-pair-of-positions", Count: ds.Count(),
				Describe: func(i uint64) interface{} {
					n := ds.Nth(i)
					nameTemplate(n)
					return "every pair of variables renamed to one name in " + ref.Print(n)
				},
				Run: func(c *h.Ctx, i uint64) {
					n := ds.Nth(i)
					if !nameTemplate(n) {
						c.Case(0, false, "invalid-template")
						return
					}
					var slots []slot
					slotsOf(n, &slots)
					for a := 0; a < len(slots); a++ {
						for b := a + 1; b < len(slots); b++ {
							if slots[a].kind == ref.ELLIPSIS || slots[b].kind == ref.ELLIPSIS {
								continue
							}
							for dir := 0; dir < 2; dir++ {
								from, to := slots[b].name, slots[a].name
								if dir == 1 {
									from, to = slots[a].name, slots[b].name
								}
								m := n.Clone()
								renameVar(m, from, to)
								it, pan := tryItem(func() ast.ItemNode { return Build(m) })
								c.Ops(1)
								if pan == "" {
									c.Fail("duplicate-variable-name-accepted", ref.Print(m), fmt.Sprintf("constructed; Variables()=%v", it.Variables()))
								}
								c.Case(0, true, "duplicate-refused")
							}
						}
					}
				}})
			return sp
		},
	})
}

// renameVar renames one variable of a template in place.
func renameVar(n *ref.Node, from, to string) {
	switch n.Kind {
	case ref.L:
		for _, c := range n.Children {
			renameVar(c, from, to)
		}
	case ref.VAR:
		if n.Name == from {
			n.Name = to
		}
	case ref.A:
		if n.AVar != nil && n.AVar.Name == from {
			n.AVar.Name = to
		}
	default:
		for i := range n.Elems {
			if n.Elems[i].Var == from {
				n.Elems[i].Var = to
			}
		}
	}
}
