// Package props holds one file per property: spaces, oracles, known-finding classes.
package props

import (
	"fmt"
	"math"
	"reflect"
	"strings"

	"github.com/wolimst/lib-secs2-hsms-go/pkg/ast"

	"verif/internal/ref"
)

// catch runs f and returns the recovered panic value (nil if none).
func catch(f func()) (r interface{}) {
	defer func() { r = recover() }()
	f()
	return nil
}

// tryItem calls a constructor-like function, reporting a panic as (nil, msg).
func tryItem(f func() ast.ItemNode) (it ast.ItemNode, panicked string) {
	defer func() {
		if r := recover(); r != nil {
			it, panicked = nil, fmt.Sprint(r)
		}
	}()
	return f(), ""
}

// Build constructs the library object for a reference tree/template through the
// public factories (route "constructors").
func Build(n *ref.Node) ast.ItemNode {
	switch n.Kind {
	case ref.L:
		vals := make([]interface{}, len(n.Children))
		for i, c := range n.Children {
			switch c.Kind {
			case ref.VAR, ref.ELLIPSIS:
				vals[i] = c.Name
			default:
				vals[i] = Build(c)
			}
		}
		return ast.NewListNode(vals...)
	case ref.A:
		if n.AVar != nil {
			return ast.NewASCIINodeVariable(n.AVar.Name, n.AVar.Min, n.AVar.Max)
		}
		return ast.NewASCIINode(n.Str)
	}
	vals := make([]interface{}, len(n.Elems))
	for i, e := range n.Elems {
		if e.Var != "" {
			vals[i] = e.Var
			continue
		}
		switch {
		case n.Kind.IsInt():
			vals[i] = e.I
		case n.Kind.IsUint():
			vals[i] = e.U
		case n.Kind == ref.B:
			vals[i] = int(e.U)
		case n.Kind == ref.BOOLEAN:
			vals[i] = e.T
		default:
			vals[i] = e.F
		}
	}
	switch {
	case n.Kind.IsInt():
		return ast.NewIntNode(n.Kind.Width(), vals...)
	case n.Kind.IsUint():
		return ast.NewUintNode(n.Kind.Width(), vals...)
	case n.Kind.IsFloat():
		return ast.NewFloatNode(n.Kind.Width(), vals...)
	case n.Kind == ref.B:
		return ast.NewBinaryNode(vals...)
	case n.Kind == ref.BOOLEAN:
		return ast.NewBooleanNode(vals...)
	}
	panic("Build: kind " + n.Kind.String())
}

// itemString prints any item node ("" for the empty placeholder).
func itemString(it ast.ItemNode) string {
	if it == nil {
		return "<nil>"
	}
	return fmt.Sprint(it)
}

// typeName gives the dynamic type of an item.
func typeName(it interface{}) string {
	if it == nil {
		return "<nil>"
	}
	return reflect.TypeOf(it).String()
}

// sameItem compares two library items through every observer.
func sameItem(a, b ast.ItemNode) string {
	if typeName(a) != typeName(b) {
		return fmt.Sprintf("dynamic type %s vs %s", typeName(a), typeName(b))
	}
	if sa, sb := itemString(a), itemString(b); sa != sb {
		return fmt.Sprintf("String() %q vs %q", trunc(sa, 300), trunc(sb, 300))
	}
	if a.Size() != b.Size() {
		return fmt.Sprintf("Size() %d vs %d", a.Size(), b.Size())
	}
	if va, vb := a.Variables(), b.Variables(); !eqStrings(va, vb) {
		return fmt.Sprintf("Variables() %v vs %v", va, vb)
	}
	if ba, bb := a.ToBytes(), b.ToBytes(); string(ba) != string(bb) {
		return fmt.Sprintf("ToBytes() %x vs %x", truncB(ba, 80), truncB(bb, 80))
	}
	return ""
}

// matchesRef compares a library item with a reference tree: printed form,
// size, variables and (when complete) bytes.
func matchesRef(it ast.ItemNode, n *ref.Node) string {
	if it == nil {
		return "item is nil"
	}
	want := ref.Print(n)
	if got := itemString(it); got != want {
		return fmt.Sprintf("String()=%q want %q", trunc(got, 400), trunc(want, 400))
	}
	if it.Size() != n.Size() {
		return fmt.Sprintf("Size()=%d want %d", it.Size(), n.Size())
	}
	if v, w := it.Variables(), n.Variables(); !eqStringsEll(v, w) {
		return fmt.Sprintf("Variables()=%v want %v", v, w)
	}
	wb := ref.Encode(n)
	if gb := it.ToBytes(); string(gb) != string(wb) {
		return fmt.Sprintf("ToBytes()=%x want %x", truncB(gb, 80), truncB(wb, 80))
	}
	return ""
}

func eqStrings(a, b []string) bool {
	if len(a) != len(b) {
		return false
	}
	for i := range a {
		if a[i] != b[i] {
			return false
		}
	}
	return true
}

// eqStringsEll is eqStrings where a single remaining ellipsis may be called
// "..." or "...[0]" (DESIGN C10: the statement fixes neither).
func eqStringsEll(a, b []string) bool {
	if len(a) != len(b) {
		return false
	}
	nell := 0
	for _, s := range b {
		if strings.HasPrefix(s, "...") {
			nell++
		}
	}
	for i := range a {
		if a[i] == b[i] {
			continue
		}
		if nell == 1 && strings.HasPrefix(a[i], "...") && strings.HasPrefix(b[i], "...") &&
			(a[i] == "..." || a[i] == "...[0]") && (b[i] == "..." || b[i] == "...[0]") {
			continue
		}
		return false
	}
	return true
}

func trunc(s string, n int) string {
	if len(s) <= n {
		return s
	}
	return s[:n] + fmt.Sprintf("...(+%d)", len(s)-n)
}

func truncB(b []byte, n int) []byte {
	if len(b) <= n {
		return b
	}
	return b[:n]
}

// mixed-radix index decoding: digits[i] in [0, radix[i])
func unrank(i uint64, radix ...int) []int {
	d := make([]int, len(radix))
	for k := len(radix) - 1; k >= 0; k-- {
		r := uint64(radix[k])
		d[k] = int(i % r)
		i /= r
	}
	return d
}

func product(radix ...int) uint64 {
	p := uint64(1)
	for _, r := range radix {
		p *= uint64(r)
	}
	return p
}

// finite reports whether f is a finite float.
func finite(f float64) bool { return !math.IsNaN(f) && !math.IsInf(f, 0) }

// hsmsMsgFields renders a DataMessage's header accessors.
func hsmsMsgFields(m *ast.DataMessage) string {
	return fmt.Sprintf("name=%q S%dF%d W=%s dir=%s session=%d system=%x", m.Name(), m.StreamCode(), m.FunctionCode(), m.WaitBit(), m.Direction(), m.SessionID(), m.SystemBytes())
}
