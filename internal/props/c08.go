package props

import (
	"fmt"
	"strconv"
	"strings"
	"unicode"

	h "verif/internal/harness"
	"verif/internal/ref"
)

// C08 — comments, whitespace and letter case never change what is parsed
// (E3 layouts, metamorphic, with diagnostics tracked token by token).

type tok struct {
	s    string
	kind byte // 'k' keyword (case-insensitive), 'n' number, 'o' other
}

// tokenizePrinted splits a message in the printer's layout into tokens.
func tokenizePrinted(text string) []tok {
	var out []tok
	lines := strings.SplitN(text, "\n", 2)
	for i, f := range strings.Fields(lines[0]) {
		k := byte('k')
		if i > 0 && !nameKeyword.MatchString(f) {
			k = 'o' // message name
		}
		out = append(out, tok{f, k})
	}
	if len(lines) < 2 {
		return out
	}
	b := lines[1]
	inBool := false
	for i := 0; i < len(b); {
		c := b[i]
		switch {
		case c == ' ' || c == '\n':
			i++
		case c == '<':
			out = append(out, tok{"<", 'o'})
			i++
			j := i
			for j < len(b) && (unicode.IsLetter(rune(b[j])) || unicode.IsDigit(rune(b[j]))) {
				j++
			}
			out = append(out, tok{b[i:j], 'k'})
			inBool = b[i:j] == "BOOLEAN"
			i = j
		case c == '[':
			j := strings.IndexByte(b[i:], ']') + i + 1
			out = append(out, tok{b[i:j], 'o'})
			i = j
		case c == '>' || (c == '.' && !strings.HasPrefix(b[i:], "...")):
			out = append(out, tok{string(c), 'o'})
			i++
		case c == '"':
			j := strings.IndexByte(b[i+1:], '"') + i + 2
			out = append(out, tok{b[i:j], 'o'})
			i = j
		default:
			j := i
			for j < len(b) && b[j] != ' ' && b[j] != '\n' && b[j] != '>' {
				j++
			}
			w := b[i:j]
			k := byte('o')
			switch {
			case w[0] == '-' || w[0] == '+' || (w[0] >= '0' && w[0] <= '9'):
				k = 'n'
			case inBool && (w == "T" || w == "F"):
				k = 'k'
			}
			out = append(out, tok{w, k})
			i = j
		}
	}
	return out
}

// layout joins tokens with the given separators (seps[i] precedes token i; the last follows the final token).
func layout(toks []tok, seps []string) (text string, starts []int) {
	var sb strings.Builder
	for i, t := range toks {
		sb.WriteString(seps[i])
		starts = append(starts, sb.Len())
		sb.WriteString(t.s)
	}
	sb.WriteString(seps[len(toks)])
	return sb.String(), starts
}

func uniform(n int, sep string) []string {
	s := make([]string, n+1)
	for i := 1; i < n; i++ {
		s[i] = sep
	}
	return s
}

var sepAlphabet = []string{" ", "  ", "\t", "\n", "\r\n", "\n\n  ", " // c\n", " //\n", " // é à 語\n", " //x\r\n", "\t\t \r\n\t", "// …\n", " // \"q\" <L> .\n"}

var commentAlphabet = func() []string {
	c := []string{"//", "// c", "//c", "// é à 語", "// …", "// \"quoted\" <L> . S1F1", "// trailing blanks  ", "// tab\t", "////", "// à", "// ", "//  x", "//\r",
		"// a\rb", "// was:\r  <A \"old\">", "// 10%\r 50%\r", "// \r\r.", "// x\r S1F1 W ."}
	for b := 0; b < 256; b++ {
		if b != '\n' {
			c = append(c, "// x"+string([]byte{byte(b)}))
		}
	}
	return c
}()

type lresult struct {
	views []msgView
	errs  []string
	warns []string
}

func parseL(text string) (lresult, string) {
	ms, errs, warns, pan := smlRun(text)
	var r lresult
	for _, m := range ms {
		r.views = append(r.views, viewOf(m))
	}
	r.errs, r.warns = errs, warns
	return r, pan
}

// posIndex maps a (line,col) of the text to the token index starting there (len(toks) = end of input, -1 unknown).
func posIndex(text string, starts []int, line, col int) int {
	for i, s := range starts {
		if l, c := ref.LineCol(text, s); l == line && c == col {
			return i
		}
	}
	if l, c := ref.LineCol(text, len(text)); l == line && c == col {
		return len(starts)
	}
	return -1
}

// compareLayouts checks that result r1 of text t1 equals baseline r0 of t0 with diagnostics moved token-wise.
func compareLayouts(c *h.Ctx, class string, t0 string, s0 []int, r0 lresult, t1 string, s1 []int, r1 lresult, foldCase bool) bool {
	in := fmt.Sprintf("baseline %s\n vs %s", strconv.Quote(trunc(t0, 700)), strconv.Quote(trunc(t1, 700)))
	if len(r0.views) != len(r1.views) {
		c.Fail(class+"-message-count", in, fmt.Sprintf("%d vs %d messages; errors %q vs %q", len(r0.views), len(r1.views), r0.errs, r1.errs))
		return false
	}
	for i := range r0.views {
		if d := r0.views[i].diff(r1.views[i]); d != "" {
			c.Fail(class+"-message-differs", in, d)
			return false
		}
	}
	for gi, pair := range [][2][]string{{r0.errs, r1.errs}, {r0.warns, r1.warns}} {
		what := []string{"errors", "warnings"}[gi]
		if len(pair[0]) != len(pair[1]) {
			c.Fail(class+"-"+what+"-count", in, fmt.Sprintf("%q vs %q", pair[0], pair[1]))
			return false
		}
		for i := range pair[0] {
			l0, c0, ok0 := diagPos(pair[0][i])
			l1, c1, ok1 := diagPos(pair[1][i])
			if !ok0 || !ok1 {
				c.Fail(class+"-diagnostic-format", in, fmt.Sprintf("%q / %q", pair[0][i], pair[1][i]))
				return false
			}
			x0, x1 := pair[0][i][strings.Index(pair[0][i], ": "):], pair[1][i][strings.Index(pair[1][i], ": "):]
			if x0 != x1 && !(foldCase && strings.EqualFold(x0, x1)) {
				c.Fail(class+"-diagnostic-text", in, fmt.Sprintf("%q vs %q", pair[0][i], pair[1][i]))
				return false
			}
			ti := posIndex(t0, s0, l0, c0)
			if ti < 0 {
				c.Note("diagnostic-not-at-token-start", 1)
				continue
			}
			off := len(t1)
			if ti < len(s1) {
				off = s1[ti]
			}
			wl, wc := ref.LineCol(t1, off)
			if l1 != wl || c1 != wc {
				c.Fail(class+"-diagnostic-position", in, fmt.Sprintf("%q: token %d is now at Ln %d, Col %d but the diagnostic says Ln %d, Col %d", pair[1][i], ti, wl, wc, l1, c1))
				return false
			}
		}
	}
	return true
}

// caseVariant flips the letter case of token i (or all tokens when i<0) where case is insignificant.
func caseVariant(toks []tok, i int, upper bool) ([]tok, bool) {
	out := append([]tok{}, toks...)
	changed := false
	for j := range out {
		if (i >= 0 && j != i) || out[j].kind == 'o' {
			continue
		}
		s := strings.ToLower(out[j].s)
		if upper {
			s = strings.ToUpper(out[j].s)
		}
		if s != out[j].s {
			out[j].s = s
			changed = true
		}
	}
	return out, changed
}

// c08Bases: valid messages (token lists) and invalid ones derived by deleting or duplicating one token.
func c08Bases(tier string) [][]tok {
	var bases [][]tok
	var msgs []*ref.Msg
	ts := NewTreeScope(smlAtoms(), 2, 2, 1)
	for i := uint64(0); i < ts.Count(); i++ {
		n := ts.Nth(i)
		if nameTemplate(n) {
			msgs = append(msgs, &ref.Msg{Stream: int(i) % 128, Function: int(i*7%256) | 1, W: int(i % 3), Dir: []string{"H->E", "H<-E", "H<->E"}[i%3], Name: []string{"", "name", "a/b"}[i%3], Item: n})
		}
	}
	big := ref.List(ref.Ascii("a b // x"), ref.List(&ref.Node{Kind: ref.F8, Elems: []ref.Elem{{F: 1e-7}, {Var: "?"}}}, ref.Ell("?")), ref.Bools(true, false), ref.Bin(0x0f, 0xf0),
		ref.Ascii("\x00x\"y\x7f"), ref.AsciiVar("?", 2, 5), ref.Var("?"), ref.Ell("?"))
	nameTemplate(big)
	msgs = append(msgs, &ref.Msg{Stream: 6, Function: 11, W: 1, Dir: "H<-E", Name: "EventReport", Item: big}, &ref.Msg{Stream: 1, Function: 2, W: 0, Dir: "H->E"})
	for _, m := range msgs {
		bases = append(bases, tokenizePrinted(ref.PrintMsg(m)))
	}
	nvalid := len(bases)
	// two messages in one text
	bases = append(bases, append(append([]tok{}, bases[nvalid-2]...), bases[nvalid-1]...))
	// invalid: delete token j / duplicate token j of a subset of the valid bases
	step := 3
	if tier == "thorough" {
		step = 1
	}
	for b := 0; b <= nvalid; b += step {
		base := bases[b]
		for j := range base {
			del := append(append([]tok{}, base[:j]...), base[j+1:]...)
			bases = append(bases, del)
			if j%2 == 0 {
				dup := append(append(append([]tok{}, base[:j+1]...), base[j]), base[j+1:]...)
				bases = append(bases, dup)
			}
		}
	}
	// invalid: a foreign token inserted at every gap of a few valid bases (stray names, numbers, brackets)
	foreign := []tok{{"foo", 'o'}, {"s1f2", 'o'}, {"@", 'o'}, {"\"q\"", 'o'}, {"5", 'n'}, {"<", 'o'}, {">", 'o'}, {".", 'o'}}
	for _, b := range []int{nvalid - 2, nvalid - 1, 19, 27} {
		base := bases[b]
		for j := 0; j <= len(base); j++ {
			for fi, f := range foreign {
				if tier != "thorough" && (j+fi)%2 == 1 {
					continue
				}
				ins := append(append(append([]tok{}, base[:j]...), f), base[j:]...)
				bases = append(bases, ins)
			}
		}
	}
	// invalid: several diagnostics with IDENTICAL text in one message (their number must not depend on the layout)
	for _, t := range []string{
		"S1F1 W H->E Msg < U1 256 257 1 > .", "S1F1 < I1 200 300 -200 > .", "S1F1 < B 256 256 256 > .", "S1F1 < F4 1e39 1e39 > .", "S1F1 < L < U2 70000 > < U2 70000 > > .",
		"S1F1 < L x x x > .", "S1F1 < A 200 200 > .", "S1F1 < U8 -1 -1 > .", "S1F3 . S1F4 W . S1F6 W .", "S300F1 < U1 256 256 > . S300F1 .",
		"S1F1 < B 0x100 0b100000000 0o400 0xff > .", "S1F1 < U1 0x100 0xFF > .", "S1F1 < I1 -0x81 0x7f > .", "S1F1 < A 0x80 0x41 > .", "S1F1 < U2 0x10000 0xffff 0b1 > .",
		"S1F1 < F4 1e39 1E38 > .", "S1F1 < I8 0x8000000000000000 -0x8000000000000000 > .", "S1F1 < B 0b2 0xg > .", "S1F1 < F8 0x10 1e400 > .", "S1F1 < U4 0o40000000000 0o7 > .",
	} {
		var tk []tok
		for _, f := range strings.Fields(t) {
			k := byte('o')
			if f[0] >= '0' && f[0] <= '9' || f[0] == '-' {
				k = 'n'
			} else if len(tk) > 0 && tk[len(tk)-1].s == "<" {
				k = 'k' // type name
			}
			tk = append(tk, tok{f, k})
		}
		bases = append(bases, tk)
	}
	return bases
}

func init() {
	h.Register(&h.Check{
		ID:   "C08",
		Rule: "bases = printed messages covering every token kind plus every single-token deletion/duplication of them, foreign tokens inserted at every gap, and messages with several identical diagnostics (invalid sequences); for each base: every gap x every separator of a 13-separator alphabet (bound 1), uniform layouts, (thorough) every pair of gaps, a comment from a 273-text alphabet (all 255 final bytes, bare CR inside) appended to every line, blanks/tabs/line breaks inside size declarations, keyword/number-prefix case variants (all-lower, all-upper, each token alone); oracle: identical messages, identical diagnostic texts, diagnostic positions equal to the new line/column of the same token; non-trivial = transformed text parsed and compared with the baseline",
		Build: func(tier string, seed int64) []h.Space {
			bases := c08Bases(tier)
			var sp []h.Space
			describe := func(i uint64) interface{} {
				t, _ := layout(bases[i], uniform(len(bases[i]), " "))
				return t
			}
			sp = append(sp, h.Space{Name: "bases-x-all-layout-comment-case-transformations", Count: uint64(len(bases)), ChunkHint: 2,
				Describe: describe,
				Run: func(c *h.Ctx, i uint64) {
					toks := bases[i]
					n := len(toks)
					base := uniform(n, " ")
					t0, s0 := layout(toks, base)
					r0, pan := parseL(t0)
					c.Ops(1)
					if pan != "" {
						c.Fail("panic", strconv.Quote(t0), pan)
						c.Case(0, true, "bad")
						return
					}
					run := func(class string, tk []tok, seps []string, fold bool) {
						t1, s1 := layout(tk, seps)
						r1, pan := parseL(t1)
						c.Ops(1)
						if pan != "" {
							c.Fail(class+"-panic", strconv.Quote(t1), pan)
							c.Case(0, true, "bad")
							return
						}
						ok := compareLayouts(c, class, t0, s0, r0, t1, s1, r1, fold)
						valid := "valid"
						if len(r0.errs) > 0 {
							valid = "invalid"
						}
						c.Case(h.DigestS(t1), true, map[bool]string{true: class + "-" + valid + "-invariant", false: "bad"}[ok])
					}
					// bound 1: every gap (incl. before the first and after the last token) x every separator
					for g := 0; g <= n; g++ {
						for _, s := range sepAlphabet {
							seps := append([]string{}, base...)
							seps[g] = s
							run("layout1", toks, seps, false)
						}
					}
					// uniform layouts
					for _, s := range sepAlphabet {
						u := uniform(n, s)
						run("uniform", toks, u, false)
						u2 := append([]string{}, u...)
						u2[0], u2[n] = s, s
						run("uniform", toks, u2, false)
					}
					// bound 2: pairs of gaps
					if tier == "thorough" && n <= 14 {
						small := []string{"\n", "\r\n", " // c\n", "\t", "// …\n"}
						for g := 1; g < n; g++ {
							for g2 := g + 1; g2 <= n; g2++ {
								for _, s := range small {
									for _, s2 := range small {
										seps := append([]string{}, base...)
										seps[g], seps[g2] = s, s2
										run("layout2", toks, seps, false)
									}
								}
							}
						}
					}
					// comments appended to every line (one token per line)
					for ci, cm := range commentAlphabet {
						if tier != "thorough" && ci >= 18 && (int(i)+ci)%4 != 0 {
							continue // quick: every base sees a quarter of the 255 final bytes (rotating), thorough all
						}
						seps := uniform(n, " "+cm+"\n")
						seps[n] = " " + cm
						if ci%2 == 0 {
							seps[n] += "\n"
						}
						run("comment", toks, seps, false)
					}
					// whitespace inside a size declaration "[a..b]" (the lexer skips blanks, tabs and line breaks there)
					for j, t := range toks {
						if !strings.HasPrefix(t.s, "[") || !strings.HasSuffix(t.s, "]") || len(t.s) < 3 || strings.Trim(t.s, "[].0123456789") != "" {
							continue
						}
						// only a size that the lexer meets in text state right after "< TYPE" (in a damaged
						// sequence the same characters may be part of a message name)
						if j < 2 || toks[j-2].s != "<" || toks[j-1].kind != 'k' || (j >= 3 && toks[j-3].s == "<") {
							continue
						}
						inner := t.s[1 : len(t.s)-1]
						parts := []string{inner}
						if k := strings.Index(inner, ".."); k >= 0 {
							parts = []string{inner[:k], "..", inner[k+2:]}
						}
						// ... and a line that ends inside the brackets is a line: a comment may be appended to it
						for _, ws := range []string{" ", "\t", "\n", "\r\n", "\n\n ", " // c\n", "//]\n", "\t// 9..\r\n", "// [1\n// 2]\n"} {
							for gap := 0; gap <= len(parts); gap++ {
								v := "["
								for pi, pt := range parts {
									if pi == gap {
										v += ws
									}
									v += pt
								}
								if gap == len(parts) {
									v += ws
								}
								v += "]"
								tk := append([]tok{}, toks...)
								tk[j].s = v
								run("size-inner-whitespace", tk, base, false)
							}
							all := "[" + ws + strings.Join(parts, ws) + ws + "]"
							tk := append([]tok{}, toks...)
							tk[j].s = all
							run("size-inner-whitespace", tk, base, false)
						}
					}
					// letter case
					for _, up := range []bool{false, true} {
						if v, ch := caseVariant(toks, -1, up); ch {
							run("case", v, base, true)
						}
						for j := range toks {
							if v, ch := caseVariant(toks, j, up); ch {
								run("case", v, base, true)
							}
						}
					}
				}})
			return sp
		},
	})
}
