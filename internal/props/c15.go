package props

import (
	"fmt"
	"strconv"
	"strings"

	"github.com/wolimst/lib-secs2-hsms-go/pkg/ast"

	h "verif/internal/harness"
	"verif/internal/ref"
)

// C15 — declared sizes [n], [a..b], [a..], [..b] are enforced.

// declText renders a declaration form; lo/hi are -1 when absent from the form.
func declText(form int, a, b string) (text string) {
	switch form {
	case 0:
		return "[" + a + "]"
	case 1:
		return "[" + a + ".." + b + "]"
	case 2:
		return "[" + a + "..]"
	default:
		return "[.." + b + "]"
	}
}

// within reports whether count satisfies the declaration (missing bound = 0 / infinity).
func within(form, a, b, count int) bool {
	switch form {
	case 0:
		return count == a
	case 1:
		return a <= count && count <= b
	case 2:
		return a <= count
	default:
		return count <= b
	}
}

func elemsText(k ref.Kind, n int, variant int) string {
	var parts []string
	for i := 0; i < n; i++ {
		switch {
		case k == ref.L:
			parts = append(parts, "<U1 1>")
		case k == ref.BOOLEAN:
			parts = append(parts, "T")
		case k.IsFloat():
			parts = append(parts, "1.5")
		default:
			parts = append(parts, "1")
		}
	}
	if k == ref.A {
		switch variant {
		case 0: // one quoted string
			if n == 0 {
				return ""
			}
			return `"` + strings.Repeat("a", n) + `"`
		default: // character codes and single-character strings mixed
			parts = nil
			for i := 0; i < n; i++ {
				if i%2 == 0 {
					parts = append(parts, "0x41")
				} else {
					parts = append(parts, `"b"`)
				}
			}
		}
	} else if variant == 1 && n > 0 {
		parts[0] = "v0" // a variable counts as an element
	}
	return strings.Join(parts, " ")
}

func init() {
	h.Register(&h.Check{
		ID:   "C15",
		Rule: "complete product of the 4 declaration forms x 14 item types x (lower, upper, actual) in {0..4}^3 x 2 element renderings, plus huge/overflowing bounds; ASCII variables: 4 forms x bounds {0..4}^2 (incl. inverted) x fill strings of every length 0..6; each parsed / filled on the real code; oracle: accepted iff the count lies within the bounds, error positioned at the declaration, bounds kept/printed/enforced; non-trivial = text parsed and verdict compared",
		Build: func(tier string, seed int64) []h.Space {
			var sp []h.Space
			R := 5
			if tier == "thorough" {
				R = 7
			}
			sp = append(sp, h.Space{Name: "literal-items-form-x-type-x-bounds-x-actual", Count: product(4, 14, R, R, R, 2),
				Describe: func(i uint64) interface{} {
					d := unrank(i, 4, 14, R, R, R, 2)
					return fmt.Sprintf("<%s%s %s>", ref.Kinds[d[1]], declText(d[0], strconv.Itoa(d[2]), strconv.Itoa(d[3])), elemsText(ref.Kinds[d[1]], d[4], d[5]))
				},
				Run: func(c *h.Ctx, i uint64) {
					d := unrank(i, 4, 14, R, R, R, 2)
					form, k, a, b, actual, variant := d[0], ref.Kinds[d[1]], d[2], d[3], d[4], d[5]
					if (form == 0 || form == 2) && b != 0 || form == 3 && a != 0 {
						c.Case(0, false, "unused-bound")
						return
					}
					text := "S1F1 W\n<" + k.String() + declText(form, strconv.Itoa(a), strconv.Itoa(b)) + " " + elemsText(k, actual, variant) + ">\n."
					ms, errs, _, pan := smlRun(text)
					c.Ops(1)
					in := "sml.Parse(" + strconv.Quote(text) + ")"
					if pan != "" {
						c.Fail("panic", in, pan)
						c.Case(0, true, "bad")
						return
					}
					ok := within(form, a, b, actual)
					switch {
					case ok && len(errs) > 0:
						c.Fail("size-within-bounds-refused:"+k.String(), in, fmt.Sprint(errs))
					case !ok && len(errs) == 0:
						c.Fail("size-outside-bounds-accepted:"+k.String(), in, fmt.Sprintf("count %d accepted; stored %q", actual, body(ms[0].String())))
					case !ok:
						// an error at the declaration: line 2, column of '['
						wl, wc := 2, 2+len(k.String())
						found := false
						for _, e := range errs {
							if l, cc, good := diagPos(e); good && l == wl && cc == wc {
								found = true
							}
						}
						if !found {
							c.Fail("size-error-not-at-declaration", in, fmt.Sprintf("errors %v; want one at Ln %d, Col %d", errs, wl, wc))
						}
					case ok:
						if len(ms) != 1 || msgItem(ms[0]).Size() != actual {
							c.Fail("accepted-item-size", in, fmt.Sprintf("%d messages", len(ms)))
						}
					}
					c.Case(0, true, map[bool]string{true: "accepted", false: "refused"}[ok])
				}})
			// the same declarations written with blanks / line breaks inside the brackets
			wsIn := []string{" ", "\t", "\n", "\r\n", " \r\n\t ", " // 2 entries, [3..4] at most.\n", "//9\n", "\t// .. ]\r\n "}
			sp = append(sp, h.Space{Name: "declarations-with-inner-whitespace", Count: product(4, 3, 4, 4, 4, len(wsIn)),
				Describe: func(i uint64) interface{} {
					d := unrank(i, 4, 3, 4, 4, 4, len(wsIn))
					return fmt.Sprintf("form %d type %s bounds %d %d actual %d whitespace %q", d[0], []ref.Kind{ref.L, ref.A, ref.U2}[d[1]], d[2], d[3], d[4], wsIn[d[5]])
				},
				Run: func(c *h.Ctx, i uint64) {
					d := unrank(i, 4, 3, 4, 4, 4, len(wsIn))
					form, k, a, b, actual, ws := d[0], []ref.Kind{ref.L, ref.A, ref.U2}[d[1]], d[2], d[3], d[4], wsIn[d[5]]
					if (form == 0 || form == 2) && b != 0 || form == 3 && a != 0 {
						c.Case(0, false, "unused-bound")
						return
					}
					as, bs := strconv.Itoa(a), strconv.Itoa(b)
					var decl string
					switch form {
					case 0:
						decl = "[" + ws + as + ws + "]"
					case 1:
						decl = "[" + ws + as + ws + ".." + ws + bs + ws + "]"
					case 2:
						decl = "[" + ws + as + ws + ".." + ws + "]"
					default:
						decl = "[" + ws + ".." + ws + bs + ws + "]"
					}
					text := "S1F1 W\n<" + k.String() + decl + " " + elemsText(k, actual, 0) + ">\n."
					_, errs, _, pan := smlRun(text)
					c.Ops(1)
					in := "sml.Parse(" + strconv.Quote(text) + ")"
					ok := within(form, a, b, actual)
					switch {
					case pan != "":
						c.Fail("panic", in, pan)
					case ok && len(errs) > 0:
						c.Fail("size-within-bounds-refused:"+k.String(), in, fmt.Sprint(errs))
					case !ok && len(errs) == 0:
						c.Fail("size-outside-bounds-accepted:"+k.String(), in, fmt.Sprintf("count %d accepted", actual))
					case !ok:
						// however the declaration is laid out, it starts at the '[' on line 2
						if !errorAt(errs, 2, 2+len(k.String())) {
							c.Fail("size-error-not-at-declaration", in, fmt.Sprintf("errors %v; want one at Ln %d, Col %d", errs, 2, 2+len(k.String())))
						}
					}
					// an ASCII variable keeps the bounds written this way
					if k == ref.A && form == 1 && a <= b {
						vt := "S1F1 W\n<A" + decl + " v0>\n."
						ms, e2, _, _ := smlRun(vt)
						if len(e2) > 0 || len(ms) != 1 {
							c.Fail("ascii-variable-declaration-refused", "sml.Parse("+strconv.Quote(vt)+")", fmt.Sprint(e2))
						} else if an, isA := msgItem(ms[0]).(*ast.ASCIINode); !isA {
							c.Fail("ascii-variable-lost", vt, "")
						} else if mn, mx := an.FillInStringLength(); mn != a || mx != b {
							c.Fail("bounds-not-kept", "sml.Parse("+strconv.Quote(vt)+")", fmt.Sprintf("FillInStringLength()=(%d,%d) want (%d,%d)", mn, mx, a, b))
						}
					}
					c.Case(0, true, map[bool]string{true: "accepted", false: "refused"}[ok])
				}})
			// a violated declaration that comes after other (satisfied) items, in the same or in an earlier message, written
			// in various layouts: the error is reported at ITS '[' (line and column computed from the text)
			earlier := []string{"<U1[2] 1 2>", "<U1[\n2\n] 1 2>", "<A[1\n..\n3] \"ab\">", "<A[\n2..\n] v1>", "<L[\n1\n] <B 1>>", "<B[ 2 ]\n1 2>", "// [9]\n<U1 1>",
				"<A \"a\" 0x0A\n\"b\">", "<L[2]\n<F4[\r\n1] 1.5>\n<A[..\n8] v2>\n>", "<BOOLEAN[..2\n] T>"}
			violated := []string{"<U1[3] 1>", "<A[2] \"abc\">", "<L[1]>", "<B[..1] 1 2>", "<I2 [2..3] 1>", "<L[3..] <U1 1>>"}
			sp = append(sp, h.Space{Name: "violated-declaration-after-earlier-items", Count: product(len(earlier), len(violated), 3),
				Describe: func(i uint64) interface{} {
					d := unrank(i, len(earlier), len(violated), 3)
					return fmt.Sprintf("%q then %q, arrangement %d", earlier[d[0]], violated[d[1]], d[2])
				},
				Run: func(c *h.Ctx, i uint64) {
					d := unrank(i, len(earlier), len(violated), 3)
					e, v := earlier[d[0]], violated[d[1]]
					var text string
					switch d[2] {
					case 0:
						text = "S1F1 W\n<L\n  " + e + "\n  " + v + "\n>\n."
					case 1:
						text = "S1F1 W\n" + e + "\n.\nS1F2\n" + v + "\n."
					default:
						text = "S1F1 W <L " + e + " " + e + " " + v + ">."
					}
					off := strings.LastIndex(text, v) + strings.Index(v, "[")
					wl, wc := ref.LineCol(text, off)
					_, errs, _, pan := smlRun(text)
					c.Ops(1)
					in := "sml.Parse(" + strconv.Quote(text) + ")"
					switch {
					case pan != "":
						c.Fail("panic", in, pan)
					case len(errs) == 0:
						c.Fail("size-outside-bounds-accepted:after-earlier-items", in, "accepted")
					case !errorAt(errs, wl, wc):
						c.Fail("size-error-not-at-declaration", in, fmt.Sprintf("errors %v; want one at Ln %d, Col %d", errs, wl, wc))
					}
					c.Case(0, true, "refused")
				}})
			// sized lists around sized items: every level is checked against its OWN declaration
			sp = append(sp, h.Space{Name: "nested-declarations", Count: product(4, 4, 4, 4, 3),
				Describe: func(i uint64) interface{} {
					d := unrank(i, 4, 4, 4, 4, 3)
					return fmt.Sprintf("<L[%d] ...%d children each <%s[%d] ...> (inner actual %d)", d[0], d[1], []string{"A var", "A literal", "U1"}[d[4]], d[2], d[3])
				},
				Run: func(c *h.Ctx, i uint64) {
					d := unrank(i, 4, 4, 4, 4, 3)
					outerDecl, nChildren, innerDecl, innerActual := d[0], d[1], d[2], d[3]
					var child string
					innerOK := true
					switch d[4] {
					case 0:
						child = fmt.Sprintf("<A[%d] v%%d>", innerDecl) // a variable: its declaration is not a count to check
					case 1:
						child = fmt.Sprintf("<A[%d] %s>", innerDecl, elemsText(ref.A, innerActual, 0))
						innerOK = innerDecl == innerActual
					default:
						child = fmt.Sprintf("<U1[%d] %s>", innerDecl, elemsText(ref.U1, innerActual, 0))
						innerOK = innerDecl == innerActual
					}
					var kids []string
					for k := 0; k < nChildren; k++ {
						if strings.Contains(child, "%d") {
							kids = append(kids, fmt.Sprintf(child, k))
						} else {
							kids = append(kids, child)
						}
					}
					text := fmt.Sprintf("S1F1\n<L[%d] <L[%d] %s> <U1 1>>\n.", 2, outerDecl, strings.Join(kids, " "))
					_, errs, _, pan := smlRun(text)
					c.Ops(1)
					in := "sml.Parse(" + strconv.Quote(text) + ")"
					ok := outerDecl == nChildren && (innerOK || nChildren == 0)
					switch {
					case pan != "":
						c.Fail("panic", in, pan)
					case ok && len(errs) > 0:
						c.Fail("nested-size-within-bounds-refused", in, fmt.Sprint(errs))
					case !ok && len(errs) == 0:
						c.Fail("nested-size-outside-bounds-accepted", in, "accepted")
					}
					c.Case(0, true, map[bool]string{true: "accepted", false: "refused"}[ok])
				}})
			// two-digit counts and the byte boundaries (declaration written with several digits)
			mids := []int{9, 10, 11, 99, 100, 101, 255, 256, 257}
			mk := []ref.Kind{ref.L, ref.A, ref.U1, ref.B, ref.I8}
			sp = append(sp, h.Space{Name: "multi-digit-counts", Count: product(4, len(mk), len(mids), 3, 3),
				Describe: func(i uint64) interface{} {
					d := unrank(i, 4, len(mk), len(mids), 3, 3)
					return fmt.Sprintf("form %d type %s declared around %d (offsets %d,%d)", d[0], mk[d[1]], mids[d[2]], d[3]-1, d[4]-1)
				},
				Run: func(c *h.Ctx, i uint64) {
					d := unrank(i, 4, len(mk), len(mids), 3, 3)
					form, k, actual := d[0], mk[d[1]], mids[d[2]]
					a, b := actual+d[3]-1, actual+d[4]-1
					text := "S1F1 W\n<" + k.String() + declText(form, strconv.Itoa(a), strconv.Itoa(b)) + " " + elemsText(k, actual, 0) + ">\n."
					_, errs, _, pan := smlRun(text)
					c.Ops(1)
					in := "sml.Parse(" + strconv.Quote(trunc(text, 200)) + ")"
					ok := within(form, a, b, actual)
					switch {
					case pan != "":
						c.Fail("panic", in, pan)
					case ok && len(errs) > 0:
						c.Fail("size-within-bounds-refused:"+k.String(), in, fmt.Sprint(errs))
					case !ok && len(errs) == 0:
						c.Fail("size-outside-bounds-accepted:"+k.String(), in, fmt.Sprintf("count %d accepted for %s", actual, declText(form, strconv.Itoa(a), strconv.Itoa(b))))
					}
					c.Case(0, true, map[bool]string{true: "accepted", false: "refused"}[ok])
				}})
			// bounds written with leading zeros are decimal numbers like any other
			lz := []struct {
				text string
				v    int
			}{{"08", 8}, {"010", 10}, {"0010", 10}, {"09", 9}, {"00", 0}, {"007", 7}, {"012", 12}, {"0100", 100}}
			sp = append(sp, h.Space{Name: "leading-zero-declarations", Count: product(len(lz), 4, 3, 3),
				Describe: func(i uint64) interface{} {
					d := unrank(i, len(lz), 4, 3, 3)
					return fmt.Sprintf("bound written %q in form %d, type %s, actual = bound%+d", lz[d[0]].text, d[1], []ref.Kind{ref.L, ref.A, ref.U1}[d[2]], d[3]-1)
				},
				Run: func(c *h.Ctx, i uint64) {
					d := unrank(i, len(lz), 4, 3, 3)
					b, form, k := lz[d[0]], d[1], []ref.Kind{ref.L, ref.A, ref.U1}[d[2]]
					actual := b.v + d[3] - 1
					if actual < 0 {
						actual = 0
					}
					lo, hi := b.v, b.v
					loT, hiT := b.text, b.text
					if form == 1 {
						lo, loT = 1, "01"
					}
					text := "S1F1 W\n<" + k.String() + declText(form, loT, hiT) + " " + elemsText(k, actual, 0) + ">\n."
					ms, errs, _, pan := smlRun(text)
					c.Ops(1)
					in := "sml.Parse(" + strconv.Quote(trunc(text, 200)) + ")"
					ok := within(form, lo, hi, actual)
					switch {
					case pan != "":
						c.Fail("panic", in, pan)
					case ok && len(errs) > 0:
						c.Fail("size-within-bounds-refused:leading-zero", in, fmt.Sprint(errs))
					case !ok && len(errs) == 0:
						c.Fail("size-outside-bounds-accepted:leading-zero", in, fmt.Sprintf("count %d accepted", actual))
					}
					_ = ms
					// an ASCII variable keeps the decimal value
					if k == ref.A && form == 0 && d[3] == 1 {
						vt := "S1F1 W\n<A" + declText(0, b.text, b.text) + " v0>\n."
						m2, e2, _, _ := smlRun(vt)
						if len(e2) > 0 || len(m2) != 1 {
							c.Fail("ascii-variable-declaration-refused", "sml.Parse("+strconv.Quote(vt)+")", fmt.Sprint(e2))
						} else if an, isA := msgItem(m2[0]).(*ast.ASCIINode); !isA {
							c.Fail("ascii-variable-lost", vt, "")
						} else if mn, mx := an.FillInStringLength(); mn != b.v || mx != b.v {
							c.Fail("bounds-not-kept", "sml.Parse("+strconv.Quote(vt)+")", fmt.Sprintf("FillInStringLength()=(%d,%d) want (%d,%d)", mn, mx, b.v, b.v))
						}
					}
					c.Case(0, true, map[bool]string{true: "accepted", false: "refused"}[ok])
				}})
			// huge and overflowing bounds
			huge := []string{"16777215", "16777216", "4294967296", "9223372036854775807", "9223372036854775808", "100000000000000000000"}
			sp = append(sp, h.Space{Name: "huge-bounds", Count: product(4, 14, len(huge), 3),
				Describe: func(i uint64) interface{} {
					d := unrank(i, 4, 14, len(huge), 3)
					return fmt.Sprintf("<%s%s ...%d elements>", ref.Kinds[d[1]], declText(d[0], huge[d[2]], huge[d[2]]), d[3])
				},
				Run: func(c *h.Ctx, i uint64) {
					d := unrank(i, 4, 14, len(huge), 3)
					form, k := d[0], ref.Kinds[d[1]]
					a, b := huge[d[2]], huge[d[2]]
					if form == 1 {
						a = "1"
					}
					text := "S1F1 W\n<" + k.String() + declText(form, a, b) + " " + elemsText(k, d[3], 0) + ">\n."
					ms, errs, _, pan := smlRun(text)
					c.Ops(1)
					in := "sml.Parse(" + strconv.Quote(text) + ")"
					if pan != "" {
						c.Fail("panic", in, pan)
						c.Case(0, true, "bad")
						return
					}
					// verdict with the huge number as a mathematical bound: count (0..2) is below every huge value
					var ok bool
					switch form {
					case 0, 2:
						ok = false // count == huge / count >= huge never holds
					case 1:
						ok = d[3] >= 1
					default:
						ok = true
					}
					if ok != (len(errs) == 0) {
						c.Fail("huge-bound-verdict:"+k.String(), in, fmt.Sprintf("want accepted=%v, errors %v, %d messages", ok, errs, len(ms)))
					}
					c.Case(0, true, map[bool]string{true: "accepted", false: "refused"}[ok])
				}})
			// ASCII variables
			sp = append(sp, h.Space{Name: "ascii-variable-bounds-x-fill-length", Count: product(5, R, R),
				Describe: func(i uint64) interface{} {
					d := unrank(i, 5, R, R)
					if d[0] == 4 {
						return "<A v0> filled with strings of length 0..6"
					}
					return fmt.Sprintf("<A%s v0> filled with strings of length 0..6", declText(d[0], strconv.Itoa(d[1]), strconv.Itoa(d[2])))
				},
				Run: func(c *h.Ctx, i uint64) {
					d := unrank(i, 5, R, R)
					form, a, b := d[0], d[1], d[2]
					if (form == 0 || form == 2 || form == 4) && b != 0 || (form == 3 || form == 4) && a != 0 {
						c.Case(0, false, "unused-bound")
						return
					}
					decl := ""
					min, max := 0, -1
					switch form {
					case 0:
						min, max = a, a
					case 1:
						min, max = a, b
					case 2:
						min = a
					case 3:
						max = b
					}
					if form != 4 {
						decl = declText(form, strconv.Itoa(a), strconv.Itoa(b))
					}
					text := "S1F1 W\n<L <A" + decl + " v0> <U1 1>>\n."
					ms, errs, _, pan := smlRun(text)
					c.Ops(1)
					in := "sml.Parse(" + strconv.Quote(text) + ")"
					if pan != "" {
						c.Fail("panic", in, pan)
						c.Case(0, true, "bad")
						return
					}
					if form == 1 && a > b {
						if len(errs) == 0 {
							c.Fail("inverted-bounds-accepted", in, "no error for a lower bound above the upper bound")
						}
						c.Case(0, true, "inverted")
						return
					}
					if len(errs) > 0 || len(ms) != 1 {
						c.Fail("ascii-variable-declaration-refused", in, fmt.Sprint(errs))
						c.Case(0, true, "bad")
						return
					}
					m := ms[0]
					// bounds kept in the template
					lst := msgItem(m)
					var an *ast.ASCIINode
					if l, isL := lst.(*ast.ListNode); isL {
						an = listChild(l, 0)
					}
					if an == nil {
						c.Fail("ascii-variable-lost", in, itemString(lst))
						c.Case(0, true, "bad")
						return
					}
					if gmin, gmax := an.FillInStringLength(); gmin != min || gmax != max {
						c.Fail("bounds-not-kept", in, fmt.Sprintf("FillInStringLength()=(%d,%d) want (%d,%d)", gmin, gmax, min, max))
					}
					// printed back and re-parsed
					want := ref.Print(ref.List(ref.AsciiVar("v0", min, max), ref.Uints(ref.U1, 1))) + "\n."
					if got := body(m.String()); got != want {
						c.Fail("bounds-not-printed", in, fmt.Sprintf("%q want %q", got, want))
					}
					fixedPoint(c, "ascii-variable", in, m)
					// enforced on fill
					for n := 0; n <= 6; n++ {
						s := strings.Repeat("q", n)
						var res *ast.DataMessage
						p := catch(func() { res = m.FillVariables(map[string]interface{}{"v0": s}) })
						c.Ops(1)
						okLen := n >= min && (max == -1 || n <= max)
						switch {
						case okLen && p != nil:
							c.Fail("fill-within-bounds-refused", in, fmt.Sprintf("fill with %d characters: %v", n, p))
						case !okLen && p == nil:
							c.Fail("fill-outside-bounds-accepted", in, fmt.Sprintf("fill with %d characters accepted: %q", n, body(res.String())))
						case okLen:
							w := ref.Print(ref.List(ref.Ascii(s), ref.Uints(ref.U1, 1))) + "\n."
							if g := body(res.String()); g != w {
								c.Fail("fill-result", in, fmt.Sprintf("%q want %q", g, w))
							}
						}
					}
					c.Case(0, true, "ascii-variable")
				}})
			// bounds must also be enforced when the same FillVariables call expands an ellipsis
			// (the variable inside or outside the repeated group; count 0, 1, 2)
			shapes := []string{"S1F1 <L <A[2..4] v> <U1 1> ...> .", "S1F1 <L <U1 1> ... <A[2..4] v>> .", "S1F1 <L <L <A[3] v> ...> <A[..2] w> ...> ."}
			sp = append(sp, h.Space{Name: "ascii-variable-bounds-with-ellipsis-in-the-same-call", Count: product(len(shapes), 3, 7, 2),
				Describe: func(i uint64) interface{} {
					d := unrank(i, len(shapes), 3, 7, 2)
					return fmt.Sprintf("%s filled in one call with every ellipsis=%d and a string of length %d (message=%v)", shapes[d[0]], d[1], d[2], d[3] == 1)
				},
				Run: func(c *h.Ctx, i uint64) {
					d := unrank(i, len(shapes), 3, 7, 2)
					ms, errs, _, pan := smlRun(shapes[d[0]])
					if pan != "" || len(errs) > 0 || len(ms) != 1 {
						c.Fail("template-not-parsed", shapes[d[0]], fmt.Sprint(pan, errs))
						c.Case(0, true, "bad")
						return
					}
					cnt, n := d[1], d[2]
					str := strings.Repeat("q", n)
					fill := map[string]interface{}{}
					for _, v := range ms[0].Variables() {
						if strings.HasPrefix(v, "...") {
							fill[v] = cnt
						}
					}
					// the name the variable has after the expansion (same call): suffix [0] per enclosing expanded group
					var name string
					var min, max int
					switch d[0] {
					case 0:
						name, min, max = "v", 2, 4
						if cnt > 0 {
							name = "v[0]"
						}
					case 1:
						name, min, max = "v", 2, 4
					default:
						name, min, max = "v", 3, 3
						if cnt > 0 {
							name = "v[0][0]"
						}
					}
					fill[name] = str
					in := fmt.Sprintf("%s filled with %s", shapes[d[0]], showMap(fill))
					var p interface{}
					var res string
					if d[3] == 1 {
						p = catch(func() { res = ms[0].FillVariables(fill).String() })
					} else {
						p = catch(func() { res = itemString(msgItem(ms[0]).FillVariables(fill)) })
					}
					c.Ops(1)
					ok := n >= min && n <= max
					switch {
					case ok && p != nil:
						c.Fail("fill-within-bounds-refused", in, fmt.Sprint(p))
					case !ok && p == nil:
						c.Fail("fill-outside-bounds-accepted", in, fmt.Sprintf("a %d-character string was accepted for [%d..%d]: %s", n, min, max, strings.ReplaceAll(res, "\n", " ")))
					case ok && !strings.Contains(res, "\""+str+"\""):
						c.Fail("fill-result", in, res)
					}
					c.Case(0, true, map[bool]string{true: "accepted", false: "refused"}[ok])
				}})
			// the same bounds through the factory (not only the parser)
			sp = append(sp, h.Space{Name: "ascii-variable-factory-bounds", Count: product(R+2, R+2),
				Describe: func(i uint64) interface{} {
					d := unrank(i, R+2, R+2)
					return fmt.Sprintf("NewASCIINodeVariable(v, %d, %d)", d[0]-1, d[1]-2)
				},
				Run: func(c *h.Ctx, i uint64) {
					d := unrank(i, R+2, R+2)
					min, max := d[0]-1, d[1]-2
					var it ast.ItemNode
					p := catch(func() { it = ast.NewASCIINodeVariable("v", min, max) })
					valid := min >= 0 && max >= -1 && (max == -1 || min <= max)
					in := fmt.Sprintf("NewASCIINodeVariable(v, %d, %d)", min, max)
					if valid != (p == nil) {
						c.Fail("factory-bounds-validity", in, fmt.Sprintf("valid=%v panic=%v", valid, p))
					} else if valid {
						for n := 0; n <= 6; n++ {
							pp := catch(func() { it.FillVariables(map[string]interface{}{"v": strings.Repeat("z", n)}) })
							okLen := n >= min && (max == -1 || n <= max)
							if okLen != (pp == nil) {
								c.Fail("factory-fill-enforcement", in, fmt.Sprintf("fill length %d: within=%v panic=%v", n, okLen, pp))
							}
						}
					}
					c.Ops(8)
					c.Case(0, true, "factory")
				}})
			// the bounds stay attached to each variable through every history of other fills, expansions (which rename
			// the variables), printing and re-parsing: all operation sequences up to depth 3 (thorough 4), then every
			// ASCII variable of the reached template is filled with every length 0..6 and judged by the bounds of its base name
			histDepth := 3
			if tier == "thorough" {
				histDepth = 4
			}
			histCount := uint64(0)
			for d, p := 0, uint64(1); d <= histDepth; d, p = d+1, p*uint64(len(c15HistOps)) {
				histCount += p
			}
			sp = append(sp, h.Space{Name: "ascii-variable-bounds-through-histories", Count: histCount,
				Describe: func(i uint64) interface{} {
					return fmt.Sprintf("%s; operations %v; then every ASCII variable filled with lengths 0..6", c15HistTemplate, c15HistNames(c15HistSeq(i)))
				},
				Run: func(c *h.Ctx, i uint64) { c15History(c, c15HistSeq(i)) }})
			return sp
		},
	})
}

// listChild returns child i of a list if it is an ASCII node (via the public printed form there is no accessor).
func listChild(l *ast.ListNode, i int) *ast.ASCIINode {
	vals := privateField(l, "values")
	if vals.Len() <= i {
		return nil
	}
	a, _ := vals.Index(i).Interface().(*ast.ASCIINode)
	return a
}

// errorAt reports whether one of the diagnostics is positioned at the given line and column.
func errorAt(errs []string, line, col int) bool {
	for _, e := range errs {
		if l, cc, good := diagPos(e); good && l == line && cc == col {
			return true
		}
	}
	return false
}

// ---- ASCII variable bounds through histories ----

// c15HistTemplate holds five ASCII variables with five different declarations, two of them inside repeated groups
// of two nested ellipses, next to variables of other kinds.
const c15HistTemplate = "S1F1 W Hist\n<L <A[1..3] va> <L <A[2] vb> <U1 ux> <L <A[..1] vf> ...> ...> <A[..2] vc> <A[4..] vd> <A ve> <BOOLEAN bx>>\n."

var c15HistBounds = map[string][2]int{"va": {1, 3}, "vb": {2, 2}, "vc": {0, 2}, "vd": {4, -1}, "ve": {0, -1}, "vf": {0, 1}}

var c15HistOps = []string{"fill-every-U1", "expand-every-ellipsis-2", "expand-first-ellipsis-1", "expand-every-ellipsis-0", "print-and-reparse", "fill-ve", "fill-va-valid", "fill-bx", "refused-fill-of-vd"}

func c15HistSeq(i uint64) []int {
	n := uint64(len(c15HistOps))
	l := 0
	for p := uint64(1); i >= p; p *= n {
		i -= p
		l++
	}
	seq := make([]int, l)
	for k := l - 1; k >= 0; k-- {
		seq[k] = int(i % n)
		i /= n
	}
	return seq
}

func c15HistNames(seq []int) []string {
	out := make([]string, len(seq))
	for k, o := range seq {
		out[k] = c15HistOps[o]
	}
	return out
}

// c15Base strips the [i] suffixes an expansion appends.
func c15Base(name string) string {
	if k := strings.IndexByte(name, '['); k >= 0 {
		return name[:k]
	}
	return name
}

func c15History(c *h.Ctx, seq []int) {
	ms, errs, _, pan := smlRun(c15HistTemplate)
	if pan != "" || len(errs) > 0 || len(ms) != 1 {
		c.Fail("template-not-parsed", c15HistTemplate, fmt.Sprint(pan, errs))
		c.Case(0, true, "bad")
		return
	}
	m := ms[0]
	in := fmt.Sprintf("%q after %v", c15HistTemplate, c15HistNames(seq))
	step := func(what string, fill map[string]interface{}) bool {
		if len(fill) == 0 {
			return true
		}
		var res *ast.DataMessage
		p := catch(func() { res = m.FillVariables(fill) })
		c.Ops(1)
		if p != nil || res == nil {
			c.Fail("history-step-refused", in, fmt.Sprintf("%s with %s: %v", what, showMap(fill), p))
			return false
		}
		m = res
		return true
	}
	for _, o := range seq {
		vars := m.Variables()
		fill := map[string]interface{}{}
		switch c15HistOps[o] {
		case "fill-every-U1":
			for _, v := range vars {
				if c15Base(v) == "ux" {
					fill[v] = 7
				}
			}
		case "expand-every-ellipsis-2", "expand-every-ellipsis-0":
			n := 2
			if c15HistOps[o] == "expand-every-ellipsis-0" {
				n = 0
			}
			for _, v := range vars {
				if strings.HasPrefix(v, "...") {
					fill[v] = n
				}
			}
		case "expand-first-ellipsis-1":
			for _, v := range vars {
				if strings.HasPrefix(v, "...") {
					fill[v] = 1
					break
				}
			}
		case "print-and-reparse":
			text := m.String()
			ms2, errs2, _, pan2 := smlRun(text)
			c.Ops(1)
			if pan2 != "" || len(errs2) > 0 || len(ms2) != 1 {
				c.Fail("printed-template-not-parsed", in, fmt.Sprintf("%q: %v %v", text, pan2, errs2))
				c.Case(0, true, "bad")
				return
			}
			m = ms2[0]
		case "fill-ve":
			for _, v := range vars {
				if v == "ve" {
					fill[v] = "hello world"
				}
			}
		case "fill-va-valid":
			for _, v := range vars {
				if v == "va" {
					fill[v] = "ab"
				}
			}
		case "fill-bx":
			for _, v := range vars {
				if v == "bx" {
					fill[v] = true
				}
			}
		case "refused-fill-of-vd":
			// a refused fill (too short) must leave the template as it was
			for _, v := range vars {
				if v == "vd" {
					before := m.String()
					p := catch(func() { m.FillVariables(map[string]interface{}{"vd": "abc"}) })
					c.Ops(1)
					if p == nil {
						c.Fail("fill-outside-bounds-accepted", in, "vd [4..] accepted a 3-character string")
					}
					if m.String() != before {
						c.Fail("refused-fill-changed-template", in, m.String())
					}
				}
			}
		}
		if !step(c15HistOps[o], fill) {
			c.Case(0, true, "bad")
			return
		}
	}
	// every ASCII variable that is left: declaration printed, bounds enforced for every length
	vars := m.Variables()
	text := m.String()
	nvars := 0
	for _, v := range vars {
		bd, isA := c15HistBounds[c15Base(v)]
		if !isA {
			continue
		}
		nvars++
		min, max := bd[0], bd[1]
		if want := ref.Print(ref.AsciiVar(v, min, max)); !strings.Contains(text, want) {
			c.Fail("bounds-not-printed", in, fmt.Sprintf("%q is not in %q", want, text))
		}
		for n := 0; n <= 6; n++ {
			s := strings.Repeat("k", n)
			var res *ast.DataMessage
			p := catch(func() { res = m.FillVariables(map[string]interface{}{v: s}) })
			c.Ops(1)
			okLen := n >= min && (max == -1 || n <= max)
			switch {
			case okLen && p != nil:
				c.Fail("fill-within-bounds-refused", in, fmt.Sprintf("%s [%d..%d] filled with %d characters: %v", v, min, max, n, p))
			case !okLen && p == nil:
				c.Fail("fill-outside-bounds-accepted", in, fmt.Sprintf("%s [%d..%d] accepted %d characters", v, min, max, n))
			case okLen:
				// exactly this variable is gone, the others keep their declarations
				left := res.Variables()
				if len(left) != len(vars)-1 {
					c.Fail("fill-result", in, fmt.Sprintf("filling %s: variables %v -> %v", v, vars, left))
				}
				rt := res.String()
				for _, w := range left {
					if bw, isA2 := c15HistBounds[c15Base(w)]; isA2 {
						if want := ref.Print(ref.AsciiVar(w, bw[0], bw[1])); !strings.Contains(rt, want) {
							c.Fail("bounds-lost-by-sibling-fill", in, fmt.Sprintf("after filling %s: %q is not in %q", v, want, rt))
						}
					}
				}
			}
		}
	}
	// all ASCII variables at once with their longest legal strings (one call, many bounds)
	all := map[string]interface{}{}
	for _, v := range vars {
		if bd, isA := c15HistBounds[c15Base(v)]; isA {
			n := bd[1]
			if n == -1 {
				n = bd[0] + 3
			}
			all[v] = strings.Repeat("m", n)
		}
	}
	if len(all) > 0 {
		if p := catch(func() { m.FillVariables(all) }); p != nil {
			c.Fail("fill-within-bounds-refused", in, fmt.Sprintf("all ASCII variables with their longest legal strings %s: %v", showMap(all), p))
		}
		c.Ops(1)
		// ... and with one of them one character too long: refused as a whole
		for _, v := range vars {
			if bd, isA := c15HistBounds[c15Base(v)]; isA && bd[1] != -1 {
				bad := map[string]interface{}{}
				for k, x := range all {
					bad[k] = x
				}
				bad[v] = strings.Repeat("m", bd[1]+1)
				if p := catch(func() { m.FillVariables(bad) }); p == nil {
					c.Fail("fill-outside-bounds-accepted", in, fmt.Sprintf("%s one character too long among %d filled variables", v, len(bad)))
				}
				c.Ops(1)
			}
		}
	}
	c.Case(0, true, fmt.Sprintf("ascii-variables-left=%d", nvars))
}
