package props

import (
	"bytes"
	"fmt"
	"reflect"
	"strings"
	"unsafe"

	"github.com/wolimst/lib-secs2-hsms-go/pkg/ast"
	"github.com/wolimst/lib-secs2-hsms-go/pkg/parser/hsms"

	h "verif/internal/harness"
	"verif/internal/ref"
)

// C13 — the 16,777,215-byte limit and the length header: full sweep of the
// header routine through the verif-tagged export, real items at every boundary,
// decoder read-back of every length field form.

// msgItem reads the private dataItem field of a DataMessage (there is no accessor).
func msgItem(m *ast.DataMessage) ast.ItemNode {
	f := reflect.ValueOf(m).Elem().FieldByName("dataItem")
	if !f.IsValid() {
		panic("DataMessage.dataItem field not found")
	}
	return reflect.NewAt(f.Type(), unsafe.Pointer(f.UnsafeAddr())).Elem().Interface().(ast.ItemNode)
}

func headerSweepOne(c *h.Ctx, k ref.Kind, n int) {
	w := k.Width()
	got, err := ast.VerifHeaderBytes(k.LibName(), n)
	bl := ast.VerifDataByteLength(k.LibName(), n)
	c.Ops(2)
	if bl != n*w {
		c.Fail("byte-length", fmt.Sprintf("getDataByteLength(%q,%d)", k.LibName(), n), fmt.Sprintf("=%d want %d", bl, n*w))
	}
	if n*w > ref.MaxBytes {
		if err == nil {
			c.Fail("limit-not-enforced", fmt.Sprintf("getHeaderBytes(%q,%d)", k.LibName(), n), fmt.Sprintf("%d bytes > 16777215 accepted: %x", n*w, got))
		}
		return
	}
	if err != nil {
		c.Fail("limit-too-strict", fmt.Sprintf("getHeaderBytes(%q,%d)", k.LibName(), n), fmt.Sprintf("%d bytes <= 16777215 refused: %v", n*w, err))
		return
	}
	want := ref.ItemHeader(k, n*w, 0)
	if !bytes.Equal(got, want) {
		c.Fail("header-bytes", fmt.Sprintf("getHeaderBytes(%q,%d)", k.LibName(), n), fmt.Sprintf("=%x want %x", got, want))
	}
}

// buildSized builds a real item of kind k with n elements through the factory.
func buildSized(k ref.Kind, n int) ast.ItemNode {
	vals := make([]interface{}, n)
	switch {
	case k == ref.L:
		child := ast.NewUintNode(1, 7)
		for i := range vals {
			vals[i] = child
		}
		return ast.NewListNode(vals...)
	case k == ref.A:
		return ast.NewASCIINode(string(bytes.Repeat([]byte{'a'}, n)))
	case k == ref.B:
		for i := range vals {
			vals[i] = 0x5A
		}
		return ast.NewBinaryNode(vals...)
	case k == ref.BOOLEAN:
		for i := range vals {
			vals[i] = true
		}
		return ast.NewBooleanNode(vals...)
	case k.IsInt():
		for i := range vals {
			vals[i] = -2
		}
		return ast.NewIntNode(k.Width(), vals...)
	case k.IsUint():
		for i := range vals {
			vals[i] = 3
		}
		return ast.NewUintNode(k.Width(), vals...)
	default:
		for i := range vals {
			vals[i] = 1.5
		}
		return ast.NewFloatNode(k.Width(), vals...)
	}
}

func elemBytes(k ref.Kind) []byte {
	switch {
	case k == ref.L:
		return []byte{0xA5, 0x01, 0x07}
	case k == ref.A:
		return []byte{'a'}
	case k == ref.B:
		return []byte{0x5A}
	case k == ref.BOOLEAN:
		return []byte{1}
	case k.IsInt():
		return append(bytes.Repeat([]byte{0xFF}, k.Width()-1), 0xFE)
	case k.IsUint():
		return append(bytes.Repeat([]byte{0}, k.Width()-1), 3)
	case k == ref.F4:
		return []byte{0x3F, 0xC0, 0, 0}
	default:
		return []byte{0x3F, 0xF8, 0, 0, 0, 0, 0, 0}
	}
}

func init() {
	h.Register(&h.Check{
		ID:          "C13",
		Rule:        "the header routine is swept over sizes x 14 formats (thorough: EVERY size 0..limit+64) and compared with the reference header; real items are built by the factories at every boundary size for all 14 formats (constructible iff n*w <= 16777215, header exact, decoded count equal); the decoder reads back every payload length of the sweep in every admissible 1/2/3-length-byte form; non-trivial = a header or decoded count was compared",
		MemLimitGiB: 24,
		Workers:     16,
		WatchdogSec: 3600, // items of 16,777,215 elements legitimately take minutes; these checks have no hang oracle
		Build: func(tier string, seed int64) []h.Space {
			var sp []h.Space
			const blk = 4096
			for _, k := range ref.Kinds {
				k := k
				max := ref.MaxBytes/k.Width() + 64
				// ranges of n to sweep
				var ranges [][2]int
				if tier == "thorough" {
					ranges = [][2]int{{0, max + 1}}
				} else {
					lo := ref.MaxBytes/k.Width() - 70000
					ranges = [][2]int{{0, 70001}, {lo, max + 1}}
					if k.Width() > 1 { // the 1|2|3 length-byte switch points in BYTES
						for _, b := range []int{255, 65535} {
							ranges = append(ranges, [2]int{b/k.Width() - 8, b/k.Width() + 9})
						}
					}
				}
				var blocks [][2]int
				for _, r := range ranges {
					for lo := r[0]; lo < r[1]; lo += blk {
						hi := lo + blk
						if hi > r[1] {
							hi = r[1]
						}
						if lo < 0 {
							lo = 0
						}
						blocks = append(blocks, [2]int{lo, hi})
					}
				}
				sp = append(sp, h.Space{Name: "header-sweep-" + k.String(), Count: uint64(len(blocks)),
					Describe: func(i uint64) interface{} {
						return fmt.Sprintf("getHeaderBytes(%q, n) for n in [%d,%d)", k.LibName(), blocks[i][0], blocks[i][1])
					},
					Run: func(c *h.Ctx, i uint64) {
						for n := blocks[i][0]; n < blocks[i][1]; n++ {
							headerSweepOne(c, k, n)
							c.Case(0, true, "hdr")
						}
					}})
			}
			// headers stay exact when items are encoded one after the other and inside each other: every ordered pair of
			// small items (14 formats x 0..3 elements): the first one's bytes are kept while the second is encoded, both are
			// nested in lists with equal and different counts, and the header routine's result is extended by the caller
			smallN := 4
			sp = append(sp, h.Space{Name: "headers-of-items-encoded-in-turn-and-nested", Count: product(14, smallN, 14, smallN),
				Describe: func(i uint64) interface{} {
					d := unrank(i, 14, smallN, 14, smallN)
					return fmt.Sprintf("%s[%d] then %s[%d]: bytes of the first kept, both nested in lists", ref.Kinds[d[0]], d[1], ref.Kinds[d[2]], d[3])
				},
				Run: func(c *h.Ctx, i uint64) {
					d := unrank(i, 14, smallN, 14, smallN)
					k1, n1, k2, n2 := ref.Kinds[d[0]], d[1], ref.Kinds[d[2]], d[3]
					expect := func(k ref.Kind, n int) []byte {
						out := ref.ItemHeader(k, n*k.Width(), 0)
						if k == ref.L {
							out = ref.ItemHeader(k, n, 0)
						}
						for j := 0; j < n; j++ {
							out = append(out, elemBytes(k)...)
						}
						return out
					}
					it1, it2 := buildSized(k1, n1), buildSized(k2, n2)
					in := fmt.Sprintf("%s[%d] and %s[%d]", k1, n1, k2, n2)
					b1 := it1.ToBytes()
					b2 := it2.ToBytes()
					b1again := it1.ToBytes()
					c.Ops(3)
					w1, w2 := expect(k1, n1), expect(k2, n2)
					if !bytes.Equal(b1, w1) || !bytes.Equal(b2, w2) || !bytes.Equal(b1again, w1) {
						c.Fail("bytes-of-items-encoded-in-turn", in, fmt.Sprintf("first (kept) %x, second %x, first again %x; want %x and %x", b1, b2, b1again, w1, w2))
					}
					// nested: <L it1 <L it2 it1> it2 <L it1 it2>>
					nest := ast.NewListNode(it1, ast.NewListNode(it2, it1), it2, ast.NewListNode(it1, it2))
					wn := append([]byte{0x01, 0x04}, w1...)
					wn = append(append(append(wn, 0x01, 0x02), w2...), w1...)
					wn = append(wn, w2...)
					wn = append(append(append(wn, 0x01, 0x02), w1...), w2...)
					if got := nest.ToBytes(); !bytes.Equal(got, wn) {
						c.Fail("bytes-of-nested-items", "<L a <L b a> b <L a b>> with a="+in, fmt.Sprintf("%x want %x", got, wn))
					}
					c.Ops(1)
					// the header routine hands out a slice the caller may extend
					h1, e1 := ast.VerifHeaderBytes(k1.LibName(), n1)
					if e1 == nil {
						h1 = append(h1, 0xAA, 0xAA, 0xAA, 0xAA, 0xAA, 0xAA, 0xAA, 0xAA)
						for j := range h1 {
							h1[j] = 0xAA
						}
						h2, _ := ast.VerifHeaderBytes(k1.LibName(), n1)
						want := ref.ItemHeader(k1, n1*k1.Width(), 0)
						if !bytes.Equal(h2, want) {
							c.Fail("header-bytes-after-the-caller-extended-an-earlier-result", fmt.Sprintf("getHeaderBytes(%q,%d)", k1.LibName(), n1), fmt.Sprintf("=%x want %x", h2, want))
						}
						c.Ops(2)
					}
					c.Case(0, true, "in-turn")
				}})
			// A items that hold characters above 0x7F (as text or as received bytes): refused - or, where an implementation
			// accepts them, the length in the header is still the number of body bytes that follow, equals Size(), decodes
			// back to an equal item, and the limit is still count x width
			hi := []string{"\u00b5m", "\u00e9", "caf\u00e9", "\u00ff\u00fe", "a\u0080", "\u0100", "\u20ac", "\xb5m", "\xe9", "\xff"}
			hiN := []int{1, 2, 127, 128, 200, 255, 256, 65535, 65536}
			sp = append(sp, h.Space{Name: "ascii-items-with-characters-above-0x7F", Count: product(len(hi), len(hiN), 2),
				Describe: func(i uint64) interface{} {
					d := unrank(i, len(hi), len(hiN), 2)
					return fmt.Sprintf("A item of %d x %q (%s)", hiN[d[1]], hi[d[0]], []string{"NewASCIINode", "decoded from the bytes"}[d[2]])
				},
				Run: func(c *h.Ctx, i uint64) {
					d := unrank(i, len(hi), len(hiN), 2)
					str := strings.Repeat(hi[d[0]], hiN[d[1]])
					in := fmt.Sprintf("A item of %d x %q", hiN[d[1]], hi[d[0]])
					var it ast.ItemNode
					if d[2] == 0 {
						var pan string
						it, pan = tryItem(func() ast.ItemNode { return ast.NewASCIINode(str) })
						c.Ops(1)
						if pan != "" {
							c.Case(0, true, "refused")
							return
						}
					} else {
						msg := append([]byte{0, 0, 0, 0, 0, 9, 0x01, 0x01, 0, 0, 1, 2, 3, 4}, ref.ItemHeader(ref.A, len(str), 0)...)
						msg = setLen(append(msg, str...))
						m, ok := hsms.Parse(msg)
						c.Ops(1)
						if !ok || m == nil {
							c.Case(0, true, "refused")
							return
						}
						in += " decoded from " + h.Hex(truncB(msg, 40))
						dm, isData := m.(*ast.DataMessage)
						if !isData {
							c.Fail("data-decoded-as-control", in, m.Type())
							c.Case(0, true, "bad")
							return
						}
						it = msgItem(dm)
					}
					b := it.ToBytes()
					if len(b) < 2 || len(b) < 1+int(b[0]&3) {
						c.Fail("accepted-item-header", in, fmt.Sprintf("ToBytes()=%x", truncB(b, 12)))
						c.Case(0, true, "bad")
						return
					}
					nlen := int(b[0] & 3)
					decl := 0
					for j := 0; j < nlen; j++ {
						decl = decl<<8 | int(b[1+j])
					}
					body := len(b) - 1 - nlen
					switch {
					case b[0]&0xFC != 0x40 || nlen == 0:
						c.Fail("accepted-item-header", in, fmt.Sprintf("format byte %02x", b[0]))
					case decl != body:
						c.Fail("accepted-item-length-field", in, fmt.Sprintf("header declares %d bytes, %d follow (%x...)", decl, body, truncB(b, 12)))
					case it.Size() != body:
						c.Fail("accepted-item-size", in, fmt.Sprintf("Size()=%d but %d body bytes", it.Size(), body))
					case (body > 255) != (nlen > 1) || (body > 65535) != (nlen > 2):
						c.Fail("accepted-item-length-bytes", in, fmt.Sprintf("%d length bytes for %d body bytes", nlen, body))
					default:
						msg := setLen(append([]byte{0, 0, 0, 0, 0, 9, 0x01, 0x01, 0, 0, 1, 2, 3, 4}, b...))
						if m, ok := hsms.Parse(msg); !ok || m == nil || !bytes.Equal(m.ToBytes(), msg) {
							c.Fail("accepted-item-does-not-decode-back", in, fmt.Sprintf("hsms.Parse of its own encoding (%x...) ok=%v", truncB(msg, 24), ok))
						}
					}
					c.Ops(2)
					c.Case(0, true, "accepted-and-consistent")
				}})
			// lane patterns: every size whose byte length has 00/01/7F/80/FF in each lane
			lane := []int{0x00, 0x01, 0x7F, 0x80, 0xFF}
			sp = append(sp, h.Space{Name: "header-lane-patterns", Count: product(14, 5, 5, 5),
				Describe: func(i uint64) interface{} {
					d := unrank(i, 14, 5, 5, 5)
					return fmt.Sprintf("%s byte length %02x%02x%02x", ref.Kinds[d[0]], lane[d[1]], lane[d[2]], lane[d[3]])
				},
				Run: func(c *h.Ctx, i uint64) {
					d := unrank(i, 14, 5, 5, 5)
					k := ref.Kinds[d[0]]
					bl := lane[d[1]]<<16 | lane[d[2]]<<8 | lane[d[3]]
					n := bl / k.Width()
					headerSweepOne(c, k, n)
					headerSweepOne(c, k, n+1)
					c.Case(0, true, "lane")
				}})
			// negative and absurd sizes never yield a header that claims success with garbage
			// real items at boundary sizes
			type sz struct {
				k      ref.Kind
				n      int
				decode bool
			}
			var sizes []sz
			for _, k := range ref.Kinds {
				w := k.Width()
				m := ref.MaxBytes / w
				set := map[int]bool{}
				for _, b := range []int{0, 1, 2, 254, 255, 256, 257, 65534, 65535, 65536, 65537} {
					set[b] = true
					set[b/w] = true
					set[b/w+1] = true
				}
				for n := range set {
					sizes = append(sizes, sz{k, n, true})
				}
				big := []int{m - 1, m, m + 1}
				if k == ref.L && tier != "thorough" {
					// a list of 16,777,215 children takes ~1 minute to build (per-child
					// Variables()/ToBytes()); quick checks the refusal just above the limit
					// and leaves the two constructible giants to the thorough tier
					big = []int{m + 1}
				}
				for _, n := range big {
					dec := k != ref.L || tier == "thorough"
					if tier != "thorough" && w == 1 && k != ref.A && k != ref.U1 && k != ref.L {
						dec = n == m // B, BOOLEAN, I1: decode only the exact limit in quick
					}
					sizes = append(sizes, sz{k, n, dec})
				}
			}
			sp = append(sp, h.Space{Name: "real-items-at-boundaries", Count: uint64(len(sizes)), ChunkHint: 1,
				Describe: func(i uint64) interface{} {
					s := sizes[i]
					return fmt.Sprintf("%s with %d elements (decode=%v)", s.k, s.n, s.decode)
				},
				Run: func(c *h.Ctx, i uint64) {
					s := sizes[i]
					w := s.k.Width()
					in := fmt.Sprintf("%s with %d elements (%d bytes)", s.k, s.n, s.n*w)
					it, pan := tryItem(func() ast.ItemNode { return buildSized(s.k, s.n) })
					c.Ops(1)
					if s.n*w > ref.MaxBytes {
						if pan == "" {
							c.Fail("oversize-constructed", in, "factory accepted an item above 16,777,215 bytes")
						}
						c.Case(0, true, "refused")
						return
					}
					if pan != "" {
						c.Fail("constructible-refused", in, pan)
						c.Case(0, true, "bad")
						return
					}
					if it.Size() != s.n {
						c.Fail("size", in, fmt.Sprintf("Size()=%d", it.Size()))
					}
					b := it.ToBytes()
					hd := ref.ItemHeader(s.k, s.n*w, 0)
					eb := elemBytes(s.k)
					c.Ops(1)
					if len(b) == 0 {
						c.Fail("constructible-does-not-encode", in, "ToBytes() is empty")
						c.Case(0, true, "bad")
						return
					}
					if len(b) != len(hd)+s.n*len(eb) || !bytes.Equal(b[:len(hd)], hd) {
						c.Fail("encoded-header", in, fmt.Sprintf("ToBytes() has %d bytes starting %x; want %d bytes starting %x", len(b), truncB(b, 6), len(hd)+s.n*len(eb), hd))
						c.Case(0, true, "bad")
						return
					}
					if s.n > 0 && (!bytes.Equal(b[len(hd):len(hd)+len(eb)], eb) || !bytes.Equal(b[len(b)-len(eb):], eb)) {
						c.Fail("encoded-payload", in, fmt.Sprintf("first element %x last %x want %x", b[len(hd):len(hd)+len(eb)], b[len(b)-len(eb):], eb))
					}
					if !s.decode {
						c.Case(0, true, "built")
						return
					}
					x := hdr(1, 1, b)
					m, ok := hsms.Parse(x)
					c.Ops(1)
					if !ok {
						c.Fail("boundary-item-not-decoded", in, "hsms.Parse refused the framed item")
						c.Case(0, true, "bad")
						return
					}
					di := msgItem(m.(*ast.DataMessage))
					if di.Size() != s.n || typeName(di) != typeName(it) {
						c.Fail("decoded-count", in, fmt.Sprintf("decoded %s with Size()=%d", typeName(di), di.Size()))
					}
					if re := m.ToBytes(); !bytes.Equal(re, x) {
						c.Fail("decoded-reencode", in, fmt.Sprintf("re-encoded %d bytes starting %x", len(re), truncB(re, 24)))
					}
					c.Case(0, true, "built+decoded")
				}})
			// the limit also holds for items that come into being through FillVariables
			fillSizes := []int{ref.MaxBytes - 1, ref.MaxBytes, ref.MaxBytes + 1, ref.MaxBytes + 4096}
			sp = append(sp, h.Space{Name: "limit-through-fill", Count: uint64(len(fillSizes) * 3), ChunkHint: 1,
				Describe: func(i uint64) interface{} {
					return fmt.Sprintf("ASCII variable (shape %d) filled with a string of %d bytes", i%3, fillSizes[i/3])
				},
				Run: func(c *h.Ctx, i uint64) {
					n, shape := fillSizes[i/3], int(i%3)
					str := string(bytes.Repeat([]byte{'f'}, n))
					var tmpl ast.ItemNode
					switch shape {
					case 0:
						tmpl = ast.NewASCIINodeVariable("v", 0, -1)
					case 1:
						tmpl = ast.NewListNode(ast.NewASCIINodeVariable("v", 1, 1<<40), ast.NewUintNode(1, 1))
					default:
						tmpl = ast.NewListNode(ast.NewListNode(ast.NewASCIINodeVariable("v", 0, -1)))
					}
					var it ast.ItemNode
					p := catch(func() { it = tmpl.FillVariables(map[string]interface{}{"v": str}) })
					c.Ops(1)
					in := fmt.Sprintf("ASCII variable (shape %d) filled with %d bytes", shape, n)
					if n > ref.MaxBytes {
						if p == nil {
							c.Fail("oversize-constructed", in, fmt.Sprintf("fill accepted; len(ToBytes())=%d", len(it.ToBytes())))
						}
						c.Case(0, true, "refused")
						return
					}
					if p != nil {
						c.Fail("constructible-refused", in, fmt.Sprint(p))
					} else if b := it.ToBytes(); len(b) < n {
						c.Fail("constructible-does-not-encode", in, fmt.Sprintf("len(ToBytes())=%d", len(b)))
					}
					c.Case(0, true, "built")
				}})
			// decoder: every length in the sweep, every admissible length-byte form, U1 payloads and lists
			var lens []int
			if tier == "thorough" {
				for n := 0; n <= 70000; n++ {
					lens = append(lens, n)
				}
			} else {
				for n := 0; n <= 1024; n++ {
					lens = append(lens, n)
				}
				for n := 65280; n <= 65792; n++ {
					lens = append(lens, n)
				}
			}
			for _, a := range lane {
				for _, b := range lane {
					for _, cc := range lane {
						lens = append(lens, a<<16|b<<8|cc)
					}
				}
			}
			decKinds := []ref.Kind{ref.U1, ref.A, ref.I2, ref.F8}
			sp = append(sp, h.Space{Name: "decoder-length-readback", Count: uint64(len(lens) * len(decKinds) * 3), ChunkHint: 24,
				Describe: func(i uint64) interface{} {
					d := unrank(i, len(lens), len(decKinds), 3)
					return fmt.Sprintf("%s payload of %d bytes declared with %d length byte(s)", decKinds[d[1]], lens[d[0]]/decKinds[d[1]].Width()*decKinds[d[1]].Width(), d[2]+1)
				},
				Run: func(c *h.Ctx, i uint64) {
					d := unrank(i, len(lens), len(decKinds), 3)
					k := decKinds[d[1]]
					bl := lens[d[0]] / k.Width() * k.Width()
					nl := d[2] + 1
					if bl >= 1<<(8*uint(nl)) {
						c.Case(0, false, "form-too-small")
						return
					}
					eb := elemBytes(k)
					text := append(ref.ItemHeader(k, bl, nl), bytes.Repeat(eb, bl/k.Width())...)
					x := hdr(1, 1, text)
					m, ok := hsms.Parse(x)
					c.Ops(1)
					in := fmt.Sprintf("%s payload of %d bytes declared with %d length byte(s)", k, bl, nl)
					if !ok {
						c.Fail("length-form-refused", in, "hsms.Parse refused")
						c.Case(0, true, "bad")
						return
					}
					di := msgItem(m.(*ast.DataMessage))
					if di.Size() != bl/k.Width() {
						c.Fail("decoded-count", in, fmt.Sprintf("decoded Size()=%d want %d", di.Size(), bl/k.Width()))
					}
					want := hdr(1, 1, append(ref.ItemHeader(k, bl, 0), text[1+nl:]...))
					if re := m.ToBytes(); !bytes.Equal(re, want) {
						c.Fail("decoded-reencode", in, fmt.Sprintf("re-encoded %d bytes starting %x want %d starting %x", len(re), truncB(re, 20), len(want), truncB(want, 20)))
					}
					c.Case(0, true, "readback")
				}})
			// lists: child counts across the boundaries in every length form
			var cnts []int
			for n := 0; n <= 300; n++ {
				cnts = append(cnts, n)
			}
			cnts = append(cnts, 65534, 65535, 65536, 65537, 70000)
			childForms := [][]byte{{0xA5, 0x01, 0x07}, {0x01, 0x00}, {0x41, 0x00}, {0xB1, 0x00}}
			sp = append(sp, h.Space{Name: "decoder-list-count-readback", Count: uint64(len(cnts) * 3 * len(childForms)), ChunkHint: 8,
				Describe: func(i uint64) interface{} {
					return fmt.Sprintf("list of %d children %x declared with %d length byte(s)", cnts[i/3%uint64(len(cnts))], childForms[i/3/uint64(len(cnts))], i%3+1)
				},
				Run: func(c *h.Ctx, i uint64) {
					child := childForms[i/3/uint64(len(cnts))]
					i = i % uint64(len(cnts)*3)
					n, nl := cnts[i/3], int(i%3)+1
					if n >= 1<<(8*uint(nl)) {
						c.Case(0, false, "form-too-small")
						return
					}
					text := append(ref.ItemHeader(ref.L, n, nl), bytes.Repeat(child, n)...)
					x := hdr(1, 1, text)
					m, ok := hsms.Parse(x)
					c.Ops(1)
					in := fmt.Sprintf("list of %d children %x declared with %d length byte(s)", n, child, nl)
					if !ok {
						c.Fail("length-form-refused", in, "hsms.Parse refused")
						c.Case(0, true, "bad")
						return
					}
					di := msgItem(m.(*ast.DataMessage))
					if di.Size() != n {
						c.Fail("decoded-count", in, fmt.Sprintf("decoded Size()=%d", di.Size()))
					}
					want := hdr(1, 1, append(ref.ItemHeader(ref.L, n, 0), text[1+nl:]...))
					if re := m.ToBytes(); !bytes.Equal(re, want) {
						c.Fail("decoded-reencode", in, fmt.Sprintf("re-encoded %d bytes starting %x", len(re), truncB(re, 20)))
					}
					c.Case(0, true, "list-readback")
				}})
			return sp
		},
	})
}

// privateField reads an unexported struct field through reflect+unsafe.
func privateField(ptr interface{}, name string) reflect.Value {
	f := reflect.ValueOf(ptr).Elem().FieldByName(name)
	if !f.IsValid() {
		panic("field not found: " + name)
	}
	return reflect.NewAt(f.Type(), unsafe.Pointer(f.UnsafeAddr())).Elem()
}
