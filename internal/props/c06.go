package props

import (
	"fmt"
	"strconv"
	"strings"

	h "verif/internal/harness"
	"verif/internal/ref"
)

// C06 — the SML parser is total and all-or-nothing (E3, isolated workers).

// byte contexts: prefixes that put the lexer into each of its states.
var byteContexts = []struct{ name, prefix string }{
	{"start", ""},
	{"after-stream-function", "S1F1 "},
	{"name-position", "S1F1 W H->E "},
	{"text-state", "S1F1 W <L "},
	{"inside-ascii-item", "S1F1 <A "},
	{"inside-open-quote", `S1F1 <A "`},
	{"inside-size-bracket", "S1F1 <A["},
	{"inside-comment", "S1F1 // "},
	{"inside-number-item", "S1F1 <U1 1 "},
	{"after-message-end", "S1F1 .\n"},
	{"after-top-level-item", "S1F1 <A \"x\"> "},
	{"after-nested-item", "S1F1 <L <U1 1> "},
}

var byteSuffixes = []string{"", ">\n.", "\n.\n"}

// magnitude alphabet for every numeric slot
var magnitudes = []string{"0", "1", "16777215", "16777216", "2147483648", "1099511627776", "4611686018427387904",
	"9223372036854775807", "9223372036854775808", "18446744073709551615", "18446744073709551616", "1000000000000000000000000000000"}

// slots that take a number: %s is replaced by each magnitude
var numberSlots = []string{
	"S%sF1 .", "S1F%s .", "S%sF%s W .",
	"S1F1 <L[%s] > .", "S1F1 <A[%s] \"a\"> .", "S1F1 <A[%s..] x> .", "S1F1 <A[..%s] x> .", "S1F1 <A[%s..%s] x> .", "S1F1 <A[1..%s] x> .",
	"S1F1 <L <A[%s] x> <A[%s] x>> .", "S1F1 <L <A[%s..] x> <A[%s..] x>> .", "S1F1 <L <U1 x> <A[%s] x>> .", "S1F1 <L <A[%s] x> <A x>> .",
	"S1F1 <L <U1 1> ...[%s]> .", "S1F1 <U1[%s] 1> .", "S1F1 <U8 %s> .", "S1F1 <I8 -%s> .", "S1F1 <F4 %s> .", "S1F1 <F8 1e%s> .", "S1F1 <B %s> .",
	"S1F1 <A %s> .", "S1F1 <BOOLEAN[%s] T> .", "S1F1 <L x[%s] x[%s]> .", "S1F1 <U1 0x%s> .", "S1F1 <F8 0.%s> .", "S1F1 <I1 0b%s> .",
}

func init() {
	h.Register(&h.Check{
		ID:          "C06",
		Rule:        "all fragment sequences up to k over a 40-fragment SML/hostile vocabulary; 10 lexer-state prefixes x every byte string up to 2 (thorough 3 for 4 contexts) x 3 suffixes; every magnitude in every numeric slot; nesting depths; every Unicode space and every byte value at the first position of each lexer state; printed messages concatenated k times; each parsed by the real parser in an rlimited worker (death/hang = violation after 5 confirmations); oracle: normal return, errors => no messages, diagnostics formatted and positioned inside the input, accepted messages re-print/re-parse to themselves; non-trivial = distinct input text parsed",
		WatchdogSec: 600,
		Build: func(tier string, seed int64) []h.Space {
			var sp []h.Space
			k := 4
			if tier == "thorough" {
				k = 5
			}
			sp = append(sp, h.Space{Name: fmt.Sprintf("token-soups-le%d", k), Count: soupCount(k),
				Describe: func(i uint64) interface{} { return soupText(i) },
				Run: func(c *h.Ctx, i uint64) {
					text := soupText(i)
					ms, out := totalParse(c, "soup", text)
					for _, m := range ms {
						fixedPoint(c, "accepted", "sml.Parse("+strconv.Quote(text)+")", m)
					}
					c.Case(0, true, out)
				}})
			// byte contexts
			nb := uint64(1 + 256 + 65536)
			bytesOf := func(j uint64) string {
				switch {
				case j == 0:
					return ""
				case j <= 256:
					return string([]byte{byte(j - 1)})
				default:
					j -= 257
					return string([]byte{byte(j >> 8), byte(j)})
				}
			}
			sp = append(sp, h.Space{Name: "lexer-state-x-all-byte-strings-le2-x-suffix", Count: uint64(len(byteContexts)) * nb * uint64(len(byteSuffixes)),
				Describe: func(i uint64) interface{} {
					d := unrank(i, len(byteContexts), int(nb), len(byteSuffixes))
					return fmt.Sprintf("%s: %q", byteContexts[d[0]].name, byteContexts[d[0]].prefix+bytesOf(uint64(d[1]))+byteSuffixes[d[2]])
				},
				Run: func(c *h.Ctx, i uint64) {
					d := unrank(i, len(byteContexts), int(nb), len(byteSuffixes))
					text := byteContexts[d[0]].prefix + bytesOf(uint64(d[1])) + byteSuffixes[d[2]]
					ms, out := totalParse(c, "bytes:"+byteContexts[d[0]].name, text)
					for _, m := range ms {
						fixedPoint(c, "accepted", "sml.Parse("+strconv.Quote(text)+")", m)
					}
					c.Case(0, true, out)
				}})
			if tier == "thorough" {
				ctx3 := []int{0, 2, 3, 5}
				sp = append(sp, h.Space{Name: "lexer-state-x-all-byte-strings-of-3", Count: uint64(len(ctx3)) << 24, ChunkHint: 1 << 16,
					Describe: func(i uint64) interface{} {
						return fmt.Sprintf("%s: %q", byteContexts[ctx3[i>>24]].name, byteContexts[ctx3[i>>24]].prefix+string([]byte{byte(i >> 16), byte(i >> 8), byte(i)}))
					},
					Run: func(c *h.Ctx, i uint64) {
						cx := byteContexts[ctx3[i>>24]]
						text := cx.prefix + string([]byte{byte(i >> 16), byte(i >> 8), byte(i)}) + ">\n."
						_, out := totalParse(c, "bytes3:"+cx.name, text)
						c.Case(0, true, out)
					}})
			}
			// every lexer state x all triples over a 32-fragment alphabet (digits, signs, multi-byte characters, brackets...)
			frs := []string{"5", "12", "+", "-", ".", "..", "e", "E", "x", "_", "0x", "0b", "é", "語", "\xff", "\xc3", " ", "\n", "\t", "<", ">", "[", "]", "\"", "/", "//", "T", "L", "A", "W", "S1F1", "1.5"}
			nf := len(frs)
			sp = append(sp, h.Space{Name: "lexer-state-x-fragment-triples", Count: uint64(len(byteContexts) * nf * nf * nf),
				Describe: func(i uint64) interface{} {
					d := unrank(i, len(byteContexts), nf, nf, nf)
					return fmt.Sprintf("%s: %q", byteContexts[d[0]].name, byteContexts[d[0]].prefix+frs[d[1]]+frs[d[2]]+frs[d[3]])
				},
				Run: func(c *h.Ctx, i uint64) {
					d := unrank(i, len(byteContexts), nf, nf, nf)
					text := byteContexts[d[0]].prefix + frs[d[1]] + frs[d[2]] + frs[d[3]] + byteSuffixes[int(i)%len(byteSuffixes)]
					ms, out := totalParse(c, "fragments:"+byteContexts[d[0]].name, text)
					for _, m := range ms {
						fixedPoint(c, "accepted", "sml.Parse("+strconv.Quote(text)+")", m)
					}
					c.Case(0, true, out)
				}})
			// magnitudes
			sp = append(sp, h.Space{Name: "magnitudes-x-numeric-slots", Count: uint64(len(numberSlots) * len(magnitudes) * len(magnitudes)),
				Describe: func(i uint64) interface{} {
					d := unrank(i, len(numberSlots), len(magnitudes), len(magnitudes))
					return fillSlots(numberSlots[d[0]], magnitudes[d[1]], magnitudes[d[2]])
				},
				Run: func(c *h.Ctx, i uint64) {
					d := unrank(i, len(numberSlots), len(magnitudes), len(magnitudes))
					if strings.Count(numberSlots[d[0]], "%s") < 2 && d[2] != 0 {
						c.Case(0, false, "dup")
						return
					}
					text := fillSlots(numberSlots[d[0]], magnitudes[d[1]], magnitudes[d[2]])
					ms, out := totalParse(c, "magnitude", text)
					for _, m := range ms {
						fixedPoint(c, "accepted", "sml.Parse("+strconv.Quote(text)+")", m)
					}
					c.Case(h.DigestS(text), true, out)
				}})
			// nesting depth
			depths := []int{1, 2, 3, 10, 50, 100, 500, 1000}
			if tier == "thorough" {
				depths = append(depths, 2000)
			}
			depths = append(depths, 16, 24, 32, 48, 64, 200)
			sp = append(sp, h.Space{Name: "nesting-depth", Count: uint64(len(depths) * 5), ChunkHint: 1,
				Describe: func(i uint64) interface{} { return fmt.Sprintf("depth %d variant %d", depths[i/5], i%5) },
				Run: func(c *h.Ctx, i uint64) {
					d := depths[i/5]
					var text string
					switch i % 5 {
					case 3: // balanced, a variable in the innermost list (every enclosing list has to list it)
						text = "S1F1 " + strings.Repeat("<L ", d) + "<U2 svid>" + strings.Repeat(">", d) + " ."
					case 4: // balanced, an ASCII variable and a list variable in the innermost list, a value beside every level
						text = "S1F1 " + strings.Repeat("<L <B 1> ", d) + "<A[..8] nm> item" + strings.Repeat(">", d) + " ."
					case 0: // balanced
						text = "S1F1 " + strings.Repeat("<L ", d) + strings.Repeat(">", d) + " ."
					case 1: // unbalanced (never closed)
						text = "S1F1 " + strings.Repeat("<L ", d)
					default: // balanced with a leaf and an ellipsis at every level
						text = "S1F1 " + strings.Repeat("<L <U1 1> ", d) + strings.Repeat("... >", d) + " ."
					}
					ms, out := totalParse(c, "nesting", text)
					if i%5 != 1 && out == "rejected" {
						c.Fail("valid-nesting-rejected", fmt.Sprintf("depth %d variant %d", d, i%5), "rejected")
					}
					_ = ms
					c.Case(0, true, out)
				}})
			// list openers that are never closed, far beyond any sensible depth: the parser descends once per opener
			// before it can know that the input ends, and has to come back with a verdict (a goroutine stack is finite)
			udepths := []int{10000, 10001, 100000, 1000000}
			if tier == "thorough" {
				udepths = append(udepths, 4000000)
			}
			useps := []string{"\n", " ", ""}
			sp = append(sp, h.Space{Name: "unclosed-list-openers", Count: product(len(udepths), len(useps), 2), ChunkHint: 1,
				Describe: func(i uint64) interface{} {
					d := unrank(i, len(udepths), len(useps), 2)
					return fmt.Sprintf("%d x \"<L%s\" (%s), never closed", udepths[d[0]], strconv.Quote(useps[d[1]]), []string{"bare", "each with a leaf before the next opener"}[d[2]])
				},
				Run: func(c *h.Ctx, i uint64) {
					d := unrank(i, len(udepths), len(useps), 2)
					open := "<L" + useps[d[1]]
					if d[2] == 1 {
						open = "<L" + useps[d[1]] + "<U1 1>" + useps[d[1]]
					}
					text := "S1F1 H->E " + strings.Repeat(open, udepths[d[0]])
					_, out := totalParse(c, "unclosed-openers", text)
					if out != "rejected" && out != "panic" && out != "bad" {
						c.Fail("unclosed-input-accepted", fmt.Sprintf("%d unclosed list openers", udepths[d[0]]), out)
					}
					c.Case(0, true, out)
				}})
			// more sibling lists than the nesting limit, none of them nested: the limit counts depth, not lists
			sibs := []int{10001, 20000}
			sp = append(sp, h.Space{Name: "more-sibling-lists-than-the-nesting-limit", Count: uint64(len(sibs)) * 2, ChunkHint: 1,
				Describe: func(i uint64) interface{} { return fmt.Sprintf("one list of %d lists (variant %d)", sibs[i/2], i%2) },
				Run: func(c *h.Ctx, i uint64) {
					child := "<L>\n"
					if i%2 == 1 {
						child = "<L <L <U1 1>>>\n"
					}
					text := "S1F1 H->E\n<L\n" + strings.Repeat(child, sibs[i/2]) + ">\n."
					ms, out := totalParse(c, "sibling-lists", text)
					if out != "accepted-1" || len(ms) != 1 || msgItem(ms[0]).Size() != sibs[i/2] {
						c.Fail("valid-sibling-lists-rejected", fmt.Sprintf("one list of %d lists (variant %d)", sibs[i/2], i%2), out)
					}
					c.Case(0, true, out)
				}})
			// many items that reuse one ASCII variable name, each with a huge declared size: the memory needed must not be
			// (number of duplicates) x (declared size)
			dupCounts := []int{2, 17, 300}
			if tier == "thorough" {
				dupCounts = append(dupCounts, 2000)
			}
			// "+i": every duplicate declares one character more than the one before (a placeholder that is rebuilt whenever
			// the declared size grows is no better than one per duplicate)
			dupDecls := []string{"[16777215]", "[1099511627776]", "[16777215..]", "[..16777215]", "[1000000]", "", "+i",
				"[4611686018427387904]", "[4611686018427387905]", "[9223372036854775807..]", "[9223372036854775807]", "[99999999999999999999]", "[4611686018427387905..9223372036854775807]"}
			sp = append(sp, h.Space{Name: "duplicated-ascii-variables-with-huge-declarations", Count: product(len(dupCounts), len(dupDecls), 2), ChunkHint: 1,
				Describe: func(i uint64) interface{} {
					d := unrank(i, len(dupCounts), len(dupDecls), 2)
					return fmt.Sprintf("<A x> followed by %d x <A%s x>, %s", dupCounts[d[0]], dupDecls[d[1]], []string{"in one list", "in nested lists"}[d[2]])
				},
				Run: func(c *h.Ctx, i uint64) {
					d := unrank(i, len(dupCounts), len(dupDecls), 2)
					item := "<A" + dupDecls[d[1]] + " x> "
					text := "S1F1 H->E <L <A x> " + strings.Repeat(item, dupCounts[d[0]]) + "> ."
					if d[2] == 1 {
						text = "S1F1 H->E <L <A x> " + strings.Repeat("<L "+item, dupCounts[d[0]]) + strings.Repeat(">", dupCounts[d[0]]) + "> ."
					}
					if dupDecls[d[1]] == "+i" {
						var sb strings.Builder
						sb.WriteString("S1F1 H->E <L <A x> ")
						for j := 0; j < dupCounts[d[0]]; j++ {
							if d[2] == 1 {
								sb.WriteString("<L ")
							}
							fmt.Fprintf(&sb, "<A[%d] x> ", 16777215-dupCounts[d[0]]+j)
						}
						if d[2] == 1 {
							sb.WriteString(strings.Repeat(">", dupCounts[d[0]]))
						}
						sb.WriteString("> .")
						text = sb.String()
					}
					_, out := totalParse(c, "duplicated-ascii-variables", text)
					if out != "rejected" && out != "panic" && out != "bad" {
						c.Fail("duplicate-names-accepted", fmt.Sprintf("%d duplicates", dupCounts[d[0]]), out)
					}
					c.Case(0, true, out)
				}})
			// nested items that each declare a (huge) size: the declared sizes are checks, not allocation hints
			szs := []string{"16777215", "16777216", "65536", "4294967295"}
			ndep := []int{1, 2, 4, 8, 16, 32, 64, 256}
			sp = append(sp, h.Space{Name: "nested-lists-with-declared-sizes", Count: uint64(len(szs) * len(ndep) * 3), ChunkHint: 1,
				Describe: func(i uint64) interface{} {
					d := unrank(i, len(szs), len(ndep), 3)
					return fmt.Sprintf("%d nested <L[%s] ... (variant %d)", ndep[d[1]], szs[d[0]], d[2])
				},
				Run: func(c *h.Ctx, i uint64) {
					d := unrank(i, len(szs), len(ndep), 3)
					open := "<L[" + szs[d[0]] + "] "
					var text string
					switch d[2] {
					case 0:
						text = "S1F1 " + strings.Repeat(open, ndep[d[1]]) + strings.Repeat(">", ndep[d[1]]) + " ."
					case 1:
						text = "S1F1 " + strings.Repeat(open+"<A[16777215] \"a\"> ", ndep[d[1]]) + strings.Repeat(">", ndep[d[1]]) + " ."
					default:
						text = "S1F1 " + strings.Repeat("<L["+szs[d[0]]+"..] <U1["+szs[d[0]]+"] 1> ", ndep[d[1]])
					}
					_, out := totalParse(c, "nested-sizes", text)
					c.Case(0, true, out)
				}})
			// every Unicode White_Space rune, and every single byte, first in each lexer state and between tokens
			spaces := []string{"\t", "\n", "\v", "\f", "\r", " ", "\u0085", "\u00a0", "\u1680", "\u2000", "\u2001", "\u2002", "\u2003", "\u2004", "\u2005",
				"\u2006", "\u2007", "\u2008", "\u2009", "\u200a", "\u2028", "\u2029", "\u202f", "\u205f", "\u3000", "\ufeff", "\u200b", "\xc2", "\xa0", "\x85", "\xe2\x80", "\x00"}
			tmpl := []string{"%sS1F1 .", "S1F1%s.", "S1F1 %s W .", "S1F1 W %s H->E .", "S1F1 H->E %s name .", "S1F1 name%s.", "S1F1 %s<L> .", "S1F1 <%sL> .", "S1F1 <L%s> .",
				"S1F1 <L[%s1] <A>> .", "S1F1 <U1 1%s2> .", "S1F1 <A \"a%sb\"> .", "S1F1 <L>%s.", "S1F1 <L> .%s", "S1F1 // c%s\n.", "S1F1 <L <A x>%s...> .", "%s"}
			sp = append(sp, h.Space{Name: "unicode-spaces-and-odd-bytes-x-positions", Count: uint64(len(spaces) * len(tmpl)),
				Describe: func(i uint64) interface{} {
					d := unrank(i, len(spaces), len(tmpl))
					return fmt.Sprintf("%q", strings.Replace(tmpl[d[1]], "%s", spaces[d[0]], 1))
				},
				Run: func(c *h.Ctx, i uint64) {
					d := unrank(i, len(spaces), len(tmpl))
					text := strings.Replace(tmpl[d[1]], "%s", spaces[d[0]], 1)
					ms, out := totalParse(c, "space", text)
					for _, m := range ms {
						fixedPoint(c, "accepted", "sml.Parse("+strconv.Quote(text)+")", m)
					}
					c.Case(0, true, out)
				}})
			// bursts of adjacent single-character tokens (no separator): compactly closed nestings and stray runs
			runs := []int{1, 2, 3, 4, 8, 15, 16, 17, 18, 31, 32, 33, 64, 65, 100, 257}
			chs := []string{">", "<", ".", "<L", "<L>", "\"\"", "[1]", "...", "x ", "1 ", "T"}
			sp = append(sp, h.Space{Name: "runs-of-adjacent-tokens", Count: uint64(len(runs) * len(chs) * 3),
				Describe: func(i uint64) interface{} {
					d := unrank(i, len(runs), len(chs), 3)
					return fmt.Sprintf("%d x %q in context %d", runs[d[0]], chs[d[1]], d[2])
				},
				Run: func(c *h.Ctx, i uint64) {
					d := unrank(i, len(runs), len(chs), 3)
					n, ch := runs[d[0]], chs[d[1]]
					var text string
					switch d[2] {
					case 0: // balanced compact nesting closed by a run of '>' (or the run inside a list)
						if ch == ">" {
							text = "S1F1 " + strings.Repeat("<L", n) + strings.Repeat(">", n) + "."
						} else {
							text = "S1F1 <L " + strings.Repeat(ch, n) + "> ."
						}
					case 1:
						text = "S1F1 " + strings.Repeat(ch, n) + " ."
					default:
						text = "S1F1 <A " + strings.Repeat(ch, n)
					}
					ms, out := totalParse(c, "token-run", text)
					if d[2] == 0 && ch == ">" && out == "rejected" {
						c.Fail("valid-nesting-rejected", strconv.Quote(text), "rejected")
					}
					for _, m := range ms {
						fixedPoint(c, "accepted", "sml.Parse("+strconv.Quote(text)+")", m)
					}
					c.Case(0, true, out)
				}})
			// structured: k printed messages in one text are all returned, in order
			ts := NewTreeScope(smlAtoms(), 3, 3, 2)
			sp = append(sp, h.Space{Name: "k-printed-messages-returned-in-order", Count: ts.Count(),
				Describe: func(i uint64) interface{} { return "3 messages around " + ref.Print(ts.Nth(i)) },
				Run: func(c *h.Ctx, i uint64) {
					n := ts.Nth(i)
					if !nameTemplate(n) {
						c.Case(0, false, "invalid-template")
						return
					}
					m1 := &ref.Msg{Stream: 1, Function: 1, W: 1, Dir: "H->E", Name: "first", Item: n}
					m2 := &ref.Msg{Stream: 2, Function: 2, W: 0, Dir: "H<-E"}
					m3 := &ref.Msg{Stream: 3, Function: 3, W: 2, Dir: "H<->E", Name: "third", Item: n}
					text := ref.PrintMsg(m1) + "\n" + ref.PrintMsg(m2) + ref.PrintMsg(m3)
					ms, out := totalParse(c, "k-messages", text)
					if len(ms) != 3 {
						c.Fail("messages-lost", strconv.Quote(text), fmt.Sprintf("outcome %s: %d messages returned for 3 in the input", out, len(ms)))
					} else {
						for j, want := range []*ref.Msg{m1, m2, m3} {
							if ms[j].String() != ref.PrintMsg(want) {
								c.Fail("message-order-or-content", strconv.Quote(text), fmt.Sprintf("message %d is %q want %q", j, ms[j].String(), ref.PrintMsg(want)))
							}
						}
					}
					c.Case(0, true, out)
				}})
			return sp
		},
	})
}

func fillSlots(t, a, b string) string {
	if strings.Count(t, "%s") >= 2 {
		t = strings.Replace(t, "%s", a, 1)
		return strings.Replace(t, "%s", b, 1)
	}
	return strings.Replace(t, "%s", a, 1)
}
