package props

import (
	"fmt"
	"math"
	"math/big"
	"reflect"
	"strings"
	"unicode"

	"github.com/wolimst/lib-secs2-hsms-go/pkg/ast"

	h "verif/internal/harness"
	"verif/internal/ref"
)

// C12 — constructors store exactly what was passed or refuse it.

// goArg is one Go value of one accepted argument type with its mathematical value.
type goArg struct {
	v    interface{}
	typ  string
	x    *big.Float // exact mathematical value (nil for NaN)
	isFl bool
	nan  bool
	inf  bool
}

func bigOfInt(v int64) *big.Float   { return new(big.Float).SetPrec(200).SetInt64(v) }
func bigOfUint(v uint64) *big.Float { return new(big.Float).SetPrec(200).SetUint64(v) }

// intTypeValues enumerates boundary values of every Go integer type.
func goIntArgs() []goArg {
	var out []goArg
	cand := []int64{math.MinInt64, math.MinInt64 + 1, math.MinInt32 - 1, math.MinInt32, math.MinInt32 + 1, -65537, -65536, -32769, -32768, -32767, -257, -256, -255, -129, -128, -127, -2, -1,
		0, 1, 2, 126, 127, 128, 129, 254, 255, 256, 257, 32766, 32767, 32768, 32769, 65534, 65535, 65536, 65537, math.MaxInt32 - 1, math.MaxInt32, math.MaxInt32 + 1,
		math.MaxUint32 - 1, math.MaxUint32, math.MaxUint32 + 1, 1 << 53, 1<<53 + 1, math.MaxInt64 - 1, math.MaxInt64}
	ucand := []uint64{1 << 63, 1<<63 + 1, math.MaxUint64 - 1, math.MaxUint64, 1<<63 - 1, 1<<53 + 1, 1<<24 + 1}
	for _, v := range cand {
		out = append(out, goArg{v: int64(v), typ: "int64", x: bigOfInt(v)}, goArg{v: int(v), typ: "int", x: bigOfInt(v)})
		if v >= math.MinInt32 && v <= math.MaxInt32 {
			out = append(out, goArg{v: int32(v), typ: "int32", x: bigOfInt(v)})
		}
		if v >= math.MinInt16 && v <= math.MaxInt16 {
			out = append(out, goArg{v: int16(v), typ: "int16", x: bigOfInt(v)})
		}
		if v >= math.MinInt8 && v <= math.MaxInt8 {
			out = append(out, goArg{v: int8(v), typ: "int8", x: bigOfInt(v)})
		}
		if v >= 0 {
			out = append(out, goArg{v: uint64(v), typ: "uint64", x: bigOfInt(v)}, goArg{v: uint(v), typ: "uint", x: bigOfInt(v)})
			if v <= math.MaxUint32 {
				out = append(out, goArg{v: uint32(v), typ: "uint32", x: bigOfInt(v)})
			}
			if v <= math.MaxUint16 {
				out = append(out, goArg{v: uint16(v), typ: "uint16", x: bigOfInt(v)})
			}
			if v <= math.MaxUint8 {
				out = append(out, goArg{v: uint8(v), typ: "uint8", x: bigOfInt(v)})
			}
		}
	}
	for _, v := range ucand {
		out = append(out, goArg{v: uint64(v), typ: "uint64", x: bigOfUint(v)}, goArg{v: uint(v), typ: "uint", x: bigOfUint(v)})
	}
	// 64-bit integers whose conversion to F4 is sensitive to double rounding
	for _, v := range []int64{1<<53 + 1<<29 + 1, 1<<60 + 1<<36 + 1, -(1<<53 + 1<<29 + 1), 1<<24 + 1, 1<<25 + 3} {
		out = append(out, goArg{v: int64(v), typ: "int64", x: bigOfInt(v)})
		if v > 0 {
			out = append(out, goArg{v: uint64(v), typ: "uint64", x: bigOfInt(v)})
		}
	}
	return out
}

func goFloatArgs() []goArg {
	var out []goArg
	add64 := func(f float64) {
		a := goArg{v: f, typ: "float64", isFl: true}
		switch {
		case math.IsNaN(f):
			a.nan = true
		case math.IsInf(f, 0):
			a.inf = true
		default:
			a.x = new(big.Float).SetPrec(200).SetFloat64(f)
		}
		out = append(out, a)
	}
	add32 := func(f float32) {
		a := goArg{v: f, typ: "float32", isFl: true}
		switch {
		case f != f:
			a.nan = true
		case math.IsInf(float64(f), 0):
			a.inf = true
		default:
			a.x = new(big.Float).SetPrec(200).SetFloat64(float64(f))
		}
		out = append(out, a)
	}
	vals := append(append([]float64{}, f4Bounds...), f8Bounds...)
	vals = append(vals, math.NaN(), math.Inf(1), math.Inf(-1),
		math.MaxFloat32*(1+1.0/(1<<25)), math.MaxFloat32*(1-1.0/(1<<25)), -math.MaxFloat32*(1+1.0/(1<<25)), math.MaxFloat32*(1+1.0/(1<<23)), math.Nextafter(math.MaxFloat32, math.Inf(1)),
		3.5e38, -3.5e38, 1e39, 1e-46, 1e-50, 255.5, -0.5, 0.4999)
	for _, f := range vals {
		add64(f)
		add64(-f)
		add32(float32(f))
	}
	return out
}

// expectNumeric decides what a factory of kind k must do with argument a:
// ("value", node) | ("refuse", nil) | ("either", node-or-nil) | ("any", nil) = not judged beyond exactness.
func expectNumeric(k ref.Kind, a goArg) (string, *ref.Elem) {
	if a.nan || a.inf {
		return "refuse", nil
	}
	x := a.x
	switch {
	case k.IsInt() || k.IsUint() || k == ref.B:
		if a.isFl {
			return "refuse", nil // a float is not an integer argument
		}
		xi, _ := x.Int(nil)
		var lo, hi *big.Int
		switch {
		case k.IsInt():
			hi = new(big.Int).Lsh(big.NewInt(1), uint(8*k.Width()-1))
			lo = new(big.Int).Neg(hi)
			hi.Sub(hi, big.NewInt(1))
		case k.IsUint():
			lo, hi = big.NewInt(0), new(big.Int).Sub(new(big.Int).Lsh(big.NewInt(1), uint(8*k.Width())), big.NewInt(1))
		default:
			lo, hi = big.NewInt(0), big.NewInt(255)
		}
		if xi.Cmp(lo) < 0 || xi.Cmp(hi) > 0 {
			return "refuse", nil
		}
		if k.IsInt() {
			return "value", &ref.Elem{I: xi.Int64()}
		}
		return "value", &ref.Elem{U: xi.Uint64()}
	case k.IsFloat():
		// rounded once to the item's width
		var f float64
		if k == ref.F4 {
			f32, _ := x.Float32()
			f = float64(f32)
		} else {
			f, _ = x.Float64()
		}
		max := math.MaxFloat64
		if k == ref.F4 {
			max = math.MaxFloat32
		}
		ax := new(big.Float).Abs(x)
		if ax.Cmp(new(big.Float).SetFloat64(max)) > 0 {
			if math.IsInf(f, 0) {
				return "refuse", nil
			}
			return "either", &ref.Elem{F: f} // strictly between MaxFloat and the rounding boundary
		}
		if f == 0 && x.Signbit() {
			f = math.Copysign(0, -1)
		}
		return "value", &ref.Elem{F: f}
	}
	panic("kind")
}

func mkNumeric(k ref.Kind, vals ...interface{}) ast.ItemNode {
	switch {
	case k.IsInt():
		return ast.NewIntNode(k.Width(), vals...)
	case k.IsUint():
		return ast.NewUintNode(k.Width(), vals...)
	case k.IsFloat():
		return ast.NewFloatNode(k.Width(), vals...)
	case k == ref.B:
		return ast.NewBinaryNode(vals...)
	case k == ref.BOOLEAN:
		return ast.NewBooleanNode(vals...)
	}
	panic("mkNumeric")
}

// judge compares the outcome of a factory/fill call with the expectation.
func judge(c *h.Ctx, how string, k ref.Kind, argDesc string, it ast.ItemNode, pan string, verdict string, e *ref.Elem, pos int, filler ref.Elem) string {
	in := fmt.Sprintf("%s %s with %s", how, k, argDesc)
	cls := fmt.Sprintf("%s:%s:%s", how, k, argClass(argDesc))
	if pan != "" {
		if verdict == "value" {
			return "in-range-refused" // allowed by the statement (stores exactly OR refuses); counted, not judged
		}
		return "refused"
	}
	if verdict == "refuse" {
		c.Fail("out-of-domain-accepted:"+cls, in, fmt.Sprintf("accepted and stored as %s", itemString(it)))
		return "bad"
	}
	want := &ref.Node{Kind: k, Elems: []ref.Elem{filler, filler, filler}}
	want.Elems[pos] = *e
	if d := matchesRef(it, want); d != "" {
		c.Fail("stored-value-differs:"+cls, in, d)
		return "bad"
	}
	return "stored-exactly"
}

func argClass(d string) string {
	if i := strings.IndexByte(d, '('); i > 0 {
		return d[:i]
	}
	return d
}

// validVarName is the documented grammar: letter or underscore, then word characters, then any number of [digits] groups.
func validVarName(s string) bool {
	i := 0
	isW := func(b byte) bool {
		return b == '_' || (b >= '0' && b <= '9') || (b >= 'a' && b <= 'z') || (b >= 'A' && b <= 'Z')
	}
	if len(s) == 0 || !isW(s[0]) || (s[0] >= '0' && s[0] <= '9') {
		return false
	}
	for i < len(s) && isW(s[i]) {
		i++
	}
	for i < len(s) {
		if s[i] != '[' {
			return false
		}
		j := i + 1
		for j < len(s) && s[j] >= '0' && s[j] <= '9' {
			j++
		}
		if j == i+1 || j >= len(s) || s[j] != ']' {
			return false
		}
		i = j + 1
	}
	return true
}

func validEllipsis(s string) bool {
	if s == "..." {
		return true
	}
	if !strings.HasPrefix(s, "...[") || !strings.HasSuffix(s, "]") || len(s) < 6 {
		return false
	}
	for _, b := range s[4 : len(s)-1] {
		if b < '0' || b > '9' {
			return false
		}
	}
	return true
}

func init() {
	h.Register(&h.Check{
		ID:          "C12",
		WatchdogSec: 30, // every case is a handful of constructor calls; half a minute without progress is a hang
		Rule:        "every accepted Go argument type x boundary value set x all 13 scalar formats x position, through the factory and through FillVariables; all int16 and uint16 values into I1/U1/B; every 0b-string over a 6-symbol alphabet up to length 4 plus long forms; float alphabet incl. NaN/Inf/above-max; every byte in ASCII strings; complete small products of message-constructor arguments; every variable name up to length 4 over an 8-symbol alphabet, duplicate/ellipsis placements; oracle computed with math/big: in range => stored exactly (String and ToBytes), out of range => panic; non-trivial = constructor called and judged",
		Build: func(tier string, seed int64) []h.Space {
			var sp []h.Space
			args := append(goIntArgs(), goFloatArgs()...)
			args = append(args, goArg{v: true, typ: "bool"}, goArg{v: []byte{1}, typ: "[]byte"}, goArg{v: nil, typ: "nil"}, goArg{v: 'a', typ: "rune"})
			kinds := []ref.Kind{ref.I1, ref.I2, ref.I4, ref.I8, ref.U1, ref.U2, ref.U4, ref.U8, ref.F4, ref.F8, ref.B}
			sp = append(sp, h.Space{Name: "go-type-x-value-x-format-x-position-x-route", Count: product(len(args), len(kinds), 3, 2),
				Describe: func(i uint64) interface{} {
					d := unrank(i, len(args), len(kinds), 3, 2)
					return fmt.Sprintf("%s(%v) into %s position %d via %s", args[d[0]].typ, args[d[0]].v, kinds[d[1]], d[2], []string{"factory", "FillVariables"}[d[3]])
				},
				Run: func(c *h.Ctx, i uint64) {
					d := unrank(i, len(args), len(kinds), 3, 2)
					a, k, pos := args[d[0]], kinds[d[1]], d[2]
					var verdict string
					var e *ref.Elem
					switch a.typ {
					case "bool", "[]byte", "nil":
						verdict = "refuse"
					case "rune": // rune is int32
						verdict, e = expectNumeric(k, goArg{v: a.v, typ: "int32", x: bigOfInt(int64('a'))})
					default:
						verdict, e = expectNumeric(k, a)
					}
					if k == ref.B && a.typ != "int" && verdict != "refuse" {
						verdict = "either" // NewBinaryNode documents int and strings only: other integer types may be refused
					}
					filler := ref.Elem{I: 1, U: 1, F: 1}
					var fillerArg interface{} = 1
					vals := []interface{}{fillerArg, fillerArg, fillerArg}
					desc := fmt.Sprintf("%s(%v)", a.typ, a.v)
					var it ast.ItemNode
					var pan string
					if d[3] == 0 {
						vals[pos] = a.v
						it, pan = tryItem(func() ast.ItemNode { return mkNumeric(k, vals...) })
					} else {
						vals[pos] = "v0"
						tmpl := mkNumeric(k, vals...)
						it, pan = tryItem(func() ast.ItemNode { return tmpl.FillVariables(map[string]interface{}{"v0": a.v}) })
					}
					c.Ops(2)
					how := []string{"factory", "fill"}[d[3]]
					var out string
					if verdict == "either" {
						if pan != "" {
							out = "either-refused"
						} else if e != nil {
							out = judge(c, how, k, desc, it, pan, "value", e, pos, filler)
						} else {
							out = "either-unjudged"
						}
					} else {
						out = judge(c, how, k, desc, it, pan, verdict, e, pos, filler)
					}
					c.Case(0, true, out)
				}})
			// the same arguments in other company: a factory may take a different path when no argument has a wide Go type.
			// companions: 1 of the argument's own Go type / variable names / none (a single-element item)
			companies := []string{"same-go-type", "variables", "alone"}
			sp = append(sp, h.Space{Name: "go-type-x-value-x-format-x-position-x-company", Count: product(len(args), len(kinds), 3, len(companies)),
				Describe: func(i uint64) interface{} {
					d := unrank(i, len(args), len(kinds), 3, len(companies))
					return fmt.Sprintf("%s(%v) into %s position %d, companions: %s", args[d[0]].typ, args[d[0]].v, kinds[d[1]], d[2], companies[d[3]])
				},
				Run: func(c *h.Ctx, i uint64) {
					d := unrank(i, len(args), len(kinds), 3, len(companies))
					a, k, pos := args[d[0]], kinds[d[1]], d[2]
					if a.typ == "bool" || a.typ == "[]byte" || a.typ == "nil" || (companies[d[3]] == "alone" && pos != 0) {
						c.Case(0, false, "not-applicable")
						return
					}
					var verdict string
					var e *ref.Elem
					if a.typ == "rune" {
						verdict, e = expectNumeric(k, goArg{v: a.v, typ: "int32", x: bigOfInt(int64('a'))})
					} else {
						verdict, e = expectNumeric(k, a)
					}
					if k == ref.B && a.typ != "int" && verdict != "refuse" {
						verdict = "either"
					}
					desc := fmt.Sprintf("%s(%v)", a.typ, a.v)
					var it ast.ItemNode
					var pan string
					var vals []interface{}
					switch companies[d[3]] {
					case "same-go-type":
						one := reflect.ValueOf(1).Convert(reflect.TypeOf(a.v)).Interface()
						vals = []interface{}{one, one, one}
						vals[pos] = a.v
						it, pan = tryItem(func() ast.ItemNode { return mkNumeric(k, vals...) })
					case "variables":
						vals = []interface{}{"w0", "w1", "w2"}
						vals[pos] = a.v
						it, pan = tryItem(func() ast.ItemNode {
							return mkNumeric(k, vals...).FillVariables(map[string]interface{}{"w0": 1, "w1": 1, "w2": 1})
						})
					default:
						it, pan = tryItem(func() ast.ItemNode { return mkNumeric(k, a.v) })
					}
					c.Ops(2)
					how := "factory-" + companies[d[3]]
					in := fmt.Sprintf("%s %s with %s", how, k, desc)
					cls := fmt.Sprintf("%s:%s:%s", how, k, argClass(desc))
					out := "refused"
					switch {
					case pan != "" && verdict == "value":
						out = "in-range-refused"
					case pan != "":
					case verdict == "refuse":
						c.Fail("out-of-domain-accepted:"+cls, in, fmt.Sprintf("accepted and stored as %s", itemString(it)))
						out = "bad"
					case e == nil:
						out = "either-unjudged"
					default:
						filler := ref.Elem{I: 1, U: 1, F: 1}
						want := &ref.Node{Kind: k, Elems: []ref.Elem{filler, filler, filler}}
						if companies[d[3]] == "alone" {
							want.Elems = want.Elems[:1]
						}
						want.Elems[pos] = *e
						out = "stored-exactly"
						if df := matchesRef(it, want); df != "" {
							c.Fail("stored-value-differs:"+cls, in, df)
							out = "bad"
						}
					}
					c.Case(0, true, out)
				}})
			// all int16 / uint16 values into the 1-byte formats
			small := []ref.Kind{ref.I1, ref.U1, ref.B}
			sp = append(sp, h.Space{Name: "all-16-bit-values-into-1-byte-formats", Count: product(65536, 2, 3),
				Describe: func(i uint64) interface{} {
					d := unrank(i, 65536, 2, 3)
					if d[1] == 0 {
						return fmt.Sprintf("int16(%d) into %s", int16(d[0]), small[d[2]])
					}
					return fmt.Sprintf("uint16(%d) into %s", d[0], small[d[2]])
				},
				Run: func(c *h.Ctx, i uint64) {
					d := unrank(i, 65536, 2, 3)
					k := small[d[2]]
					var a goArg
					if d[1] == 0 {
						a = goArg{v: int16(d[0]), typ: "int16", x: bigOfInt(int64(int16(d[0])))}
					} else {
						a = goArg{v: uint16(d[0]), typ: "uint16", x: bigOfInt(int64(d[0]))}
					}
					if k == ref.B { // binary takes int
						a = goArg{v: int(int16(d[0])), typ: "int", x: bigOfInt(int64(int16(d[0])))}
						if d[1] == 1 {
							a = goArg{v: int(d[0]), typ: "int", x: bigOfInt(int64(d[0]))}
						}
					}
					verdict, e := expectNumeric(k, a)
					it, pan := tryItem(func() ast.ItemNode { return mkNumeric(k, 1, a.v, 1) })
					c.Ops(1)
					c.Case(0, true, judge(c, "factory", k, fmt.Sprintf("%s(%v)", a.typ, a.v), it, pan, verdict, e, 1, ref.Elem{I: 1, U: 1}))
				}})
			// binary strings
			sym := []byte{'0', '1', '2', '_', '-', 'x'}
			var bstr []string
			var gen func(prefix string, n int)
			gen = func(prefix string, n int) {
				bstr = append(bstr, prefix)
				if n == 0 {
					return
				}
				for _, s := range sym {
					gen(prefix+string(s), n-1)
				}
			}
			gen("0b", 4)
			bstr = append(bstr, "0b11111111", "0b100000000", "0b011111111", "0b"+strings.Repeat("1", 70), "0b"+strings.Repeat("0", 70)+"1", "0B1", "0b 1", "0b1 ", " 0b1", "0b١", "0b1.0", "0b1e1", "0b+1")
			sp = append(sp, h.Space{Name: "binary-string-literals", Count: uint64(len(bstr) * 2),
				Describe: func(i uint64) interface{} { return fmt.Sprintf("NewBinaryNode(%q) route %d", bstr[i/2], i%2) },
				Run: func(c *h.Ctx, i uint64) {
					s := bstr[i/2]
					digits := strings.TrimPrefix(s, "0b")
					verdict := "refuse"
					var e *ref.Elem
					wellFormed := strings.HasPrefix(s, "0b") && len(digits) > 0 && strings.Trim(digits, "01") == ""
					if wellFormed {
						v, _ := new(big.Int).SetString(digits, 2)
						if v.Cmp(big.NewInt(255)) <= 0 {
							verdict, e = "value", &ref.Elem{U: v.Uint64()}
						}
					} else if strings.HasPrefix(s, "0b") && strings.Contains(digits, "_") && strings.Trim(digits, "01_") == "" {
						verdict = "either-any" // Go-style digit separators: not judged
					} else if !strings.HasPrefix(s, "0b") {
						verdict = "name" // not a binary literal: it is a (possibly invalid) variable name
					}
					var it ast.ItemNode
					var pan string
					if i%2 == 0 {
						it, pan = tryItem(func() ast.ItemNode { return ast.NewBinaryNode(1, s, 1) })
					} else {
						tmpl := ast.NewBinaryNode(1, "v0", 1)
						it, pan = tryItem(func() ast.ItemNode { return tmpl.FillVariables(map[string]interface{}{"v0": s}) })
					}
					c.Ops(1)
					how := []string{"factory", "fill"}[i%2]
					switch verdict {
					case "either-any":
						c.Case(0, true, "either")
					case "name":
						if pan == "" && !validVarName(s) {
							c.Fail("invalid-name-accepted:B", fmt.Sprintf("%s NewBinaryNode(%q)", how, s), itemString(it))
						}
						c.Case(0, true, "name")
					default:
						c.Case(0, true, judge(c, how, ref.B, fmt.Sprintf("binary-string(%q)", s), it, pan, verdict, e, 1, ref.Elem{U: 1}))
					}
				}})
			// ASCII: every byte in a 1- and 3-character string, multi-byte UTF-8
			sp = append(sp, h.Space{Name: "ascii-bytes", Count: 256*3 + 6,
				Describe: func(i uint64) interface{} { return fmt.Sprintf("NewASCIINode with byte/rune case %d", i) },
				Run: func(c *h.Ctx, i uint64) {
					var s string
					if i < 768 {
						b := byte(i / 3)
						s = []string{string([]byte{b}), "a" + string([]byte{b}) + "z", string([]byte{b, b})}[i%3]
					} else {
						s = []string{"é", "語", "a\u0080", "\u007f\u0080", "\xc3", "a\xffb"}[i-768]
					}
					ok := true
					for j := 0; j < len(s); j++ {
						if s[j] >= 0x80 {
							ok = false
						}
					}
					for r := 0; r < 2; r++ {
						var it ast.ItemNode
						var pan string
						if r == 0 {
							it, pan = tryItem(func() ast.ItemNode { return ast.NewASCIINode(s) })
						} else {
							it, pan = tryItem(func() ast.ItemNode {
								return ast.NewASCIINodeVariable("v", 0, -1).FillVariables(map[string]interface{}{"v": s})
							})
						}
						c.Ops(1)
						in := fmt.Sprintf("route %d NewASCIINode(%q)", r, s)
						if !ok && pan == "" {
							c.Fail("non-ascii-accepted", in, itemString(it))
						} else if ok && pan == "" {
							if d := matchesRef(it, ref.Ascii(s)); d != "" {
								c.Fail("ascii-stored-differs", in, d)
							}
						}
					}
					c.Case(0, true, map[bool]string{true: "ascii", false: "non-ascii"}[ok])
				}})
			// message constructors
			// beside the boundaries: values whose low 8/16/32 bits are in range (a narrowed field would accept them)
			streams := []int{-1, 0, 1, 127, 128, 255, 256, 257, -255, 1<<32 + 1, math.MinInt64}
			funcs := []int{-1, 0, 1, 2, 255, 256, 257, 513, 1<<32 + 1, math.MinInt64}
			wbits := []int{-1, 0, 1, 2, 3, 256, 257, 1 << 32, 1<<32 + 1}
			sessions := []int{-2, -1, 0, 1, 65535, 65536, 65541, 1 << 31, 1<<32 - 1, 1 << 32, 1<<32 + 5, 3<<32 + 300, math.MaxInt64, math.MinInt64, -1 << 32, -1<<32 - 1}
			dirs := []string{"H->E", "H<-E", "H<->E", "", "h->e", "E->H", "H<>E"}
			sp = append(sp, h.Space{Name: "message-constructor-arguments", Count: product(len(streams), len(funcs), len(wbits), len(sessions), len(dirs), 3),
				Describe: func(i uint64) interface{} {
					d := unrank(i, len(streams), len(funcs), len(wbits), len(sessions), len(dirs), 3)
					return fmt.Sprintf("ctor %d: stream %d function %d waitBit %d session %d direction %q", d[5], streams[d[0]], funcs[d[1]], wbits[d[2]], sessions[d[3]], dirs[d[4]])
				},
				Run: func(c *h.Ctx, i uint64) {
					d := unrank(i, len(streams), len(funcs), len(wbits), len(sessions), len(dirs), 3)
					s, f, w, sid, dir := streams[d[0]], funcs[d[1]], wbits[d[2]], sessions[d[3]], dirs[d[4]]
					valid := s >= 0 && s < 128 && f >= 0 && f < 256 && w >= 0 && w <= 2 && !(w == 1 && f%2 == 0) && (dir == "H->E" || dir == "H<-E" || dir == "H<->E")
					var m *ast.DataMessage
					var pan interface{}
					item := ast.NewUintNode(1, 7)
					switch d[5] {
					case 0: // NewDataMessage, then SetSessionIDAndSystemBytes
						pan = catch(func() { m = ast.NewDataMessage("n", s, f, w, dir, item) })
						if pan == nil && valid {
							validS := sid >= -1 && sid < 65536
							var m2 *ast.DataMessage
							p2 := catch(func() { m2 = m.SetSessionIDAndSystemBytes(sid, []byte{1, 2, 3, 4}) })
							if validS != (p2 == nil) {
								c.Fail("session-id-validity", fmt.Sprintf("SetSessionIDAndSystemBytes(%d)", sid), fmt.Sprintf("valid=%v panic=%v", validS, p2))
							} else if p2 == nil && m2.SessionID() != sid {
								c.Fail("session-id-stored", fmt.Sprintf("SetSessionIDAndSystemBytes(%d)", sid), fmt.Sprint(m2.SessionID()))
							}
						}
					case 1: // NewHSMSDataMessage
						valid = valid && w != 2 && sid >= 0 && sid < 65536
						pan = catch(func() { m = ast.NewHSMSDataMessage("n", s, f, w, dir, item, sid, []byte{1, 2, 3, 4}) })
					case 2: // optional wait bit then SetWaitBit(true/false)
						if w != 2 {
							c.Case(0, false, "skip")
							return
						}
						pan = catch(func() { m = ast.NewDataMessage("n", s, f, 2, dir, item) })
						if pan == nil && valid {
							want := sid%2 == 0
							var m2 *ast.DataMessage
							p2 := catch(func() { m2 = m.SetWaitBit(want) })
							okW := !(want && f%2 == 0)
							if okW != (p2 == nil) {
								c.Fail("setwaitbit-validity", fmt.Sprintf("S%dF%d.SetWaitBit(%v)", s, f, want), fmt.Sprintf("valid=%v panic=%v", okW, p2))
							} else if p2 == nil && m2.WaitBit() != map[bool]string{true: "true", false: "false"}[want] {
								c.Fail("setwaitbit-stored", fmt.Sprintf("S%dF%d.SetWaitBit(%v)", s, f, want), m2.WaitBit())
							}
						}
					}
					c.Ops(2)
					in := fmt.Sprintf("ctor %d: stream %d function %d waitBit %d session %d direction %q", d[5], s, f, w, sid, dir)
					if valid && pan != nil {
						c.Case(0, true, "in-range-refused")
						return
					}
					if !valid && pan == nil {
						c.Fail("invalid-message-accepted", in, m.Header())
						c.Case(0, true, "bad")
						return
					}
					if valid {
						if m.StreamCode() != s || m.FunctionCode() != f || m.WaitBit() != ref.WaitBitName(w) || m.Direction() != dir || m.Name() != "n" {
							c.Fail("message-fields-differ", in, hsmsMsgFields(m))
						}
					}
					c.Case(0, true, map[bool]string{true: "valid", false: "refused"}[valid])
				}})
			// names with every Unicode space
			var spaceRunes []rune
			for r := rune(0); r < 0x3100; r++ {
				if unicode.IsSpace(r) {
					spaceRunes = append(spaceRunes, r)
				}
			}
			sp = append(sp, h.Space{Name: "message-name-with-each-space-rune", Count: uint64(len(spaceRunes) * 3),
				Describe: func(i uint64) interface{} {
					return fmt.Sprintf("name with U+%04X at position %d", spaceRunes[i/3], i%3)
				},
				Run: func(c *h.Ctx, i uint64) {
					r := string(spaceRunes[i/3])
					name := []string{r + "ab", "a" + r + "b", "ab" + r}[i%3]
					if p := catch(func() { ast.NewDataMessage(name, 1, 1, 0, "H->E", ast.NewEmptyItemNode()) }); p == nil {
						c.Fail("name-with-whitespace-accepted", fmt.Sprintf("%q", name), "accepted")
					}
					c.Ops(1)
					c.Case(0, true, "refused")
				}})
			// variable names: every string up to length 4 over an 8-symbol alphabet, in every node kind
			nsym := []byte{'a', 'Z', '_', '0', '[', ']', '.', ' '}
			var names []string
			var gen2 func(p string, n int)
			gen2 = func(p string, n int) {
				if p != "" {
					names = append(names, p)
				}
				if n == 0 {
					return
				}
				for _, s := range nsym {
					gen2(p+string(s), n-1)
				}
			}
			gen2("", 4)
			names = append(names, "", "a[0]", "a[01]", "a[0][1]", "a[0]b", "a[]", "a[-1]", "a[0", "a0]", "9a", "_9", "é", "aé", "a[٣]", "...", "...[0]", "...[12]", "....", "..", "...[a]", "...[0][1]", "a...", "...a", "0b1", "a-b", "a.b", "T", "L", "BOOLEAN", "a\n", "\ta")
			nodeKinds := []ref.Kind{ref.I2, ref.U4, ref.F8, ref.B, ref.BOOLEAN, ref.A, ref.L}
			// the same judgement must not depend on what was validated before: a second pass visits the
			// node kinds in the opposite order (lists, where "..." is legal, first) for every name
			revKinds := []ref.Kind{ref.L, ref.A, ref.BOOLEAN, ref.B, ref.F8, ref.U4, ref.I2}
			sp = append(sp, h.Space{Name: "variable-names-lists-first", Count: uint64(len(names)), ChunkHint: 4096,
				Describe: func(i uint64) interface{} {
					return fmt.Sprintf("name %q in a list, then in every other node kind", names[i])
				},
				Run: func(c *h.Ctx, i uint64) {
					name := names[i]
					for _, k := range revKinds {
						if k == ref.B && strings.HasPrefix(name, "0b") {
							continue
						}
						valid := validVarName(name)
						var it ast.ItemNode
						var pan string
						switch k {
						case ref.A:
							it, pan = tryItem(func() ast.ItemNode { return ast.NewASCIINodeVariable(name, 0, -1) })
						case ref.L:
							it, pan = tryItem(func() ast.ItemNode { return ast.NewListNode(ast.NewUintNode(1, 1), name) })
							valid = valid || validEllipsis(name)
						case ref.BOOLEAN:
							it, pan = tryItem(func() ast.ItemNode { return ast.NewBooleanNode(true, name) })
						default:
							it, pan = tryItem(func() ast.ItemNode { return mkNumeric(k, 1, name) })
						}
						c.Ops(1)
						if !valid && pan == "" {
							c.Fail("invalid-variable-name-accepted:"+k.String(), fmt.Sprintf("variable name %q in %s (after it was used in a list)", name, k), itemString(it))
						}
					}
					c.Case(0, true, "names-lists-first")
				}})
			sp = append(sp, h.Space{Name: "variable-names-x-node-kind", Count: uint64(len(names) * len(nodeKinds)),
				Describe: func(i uint64) interface{} {
					return fmt.Sprintf("variable name %q in %s", names[i/uint64(len(nodeKinds))], nodeKinds[i%uint64(len(nodeKinds))])
				},
				Run: func(c *h.Ctx, i uint64) {
					name, k := names[i/uint64(len(nodeKinds))], nodeKinds[i%uint64(len(nodeKinds))]
					valid := validVarName(name)
					if k == ref.B && strings.HasPrefix(name, "0b") {
						c.Case(0, false, "binary-literal")
						return
					}
					var it ast.ItemNode
					var pan string
					switch k {
					case ref.A:
						it, pan = tryItem(func() ast.ItemNode { return ast.NewASCIINodeVariable(name, 0, -1) })
					case ref.L:
						it, pan = tryItem(func() ast.ItemNode { return ast.NewListNode(ast.NewUintNode(1, 1), name) })
						if validEllipsis(name) {
							valid = true // an ellipsis after the first item is a legal list variable
						}
					case ref.BOOLEAN:
						it, pan = tryItem(func() ast.ItemNode { return ast.NewBooleanNode(true, name) })
					default:
						it, pan = tryItem(func() ast.ItemNode { return mkNumeric(k, 1, name) })
					}
					c.Ops(1)
					in := fmt.Sprintf("variable name %q in %s", name, k)
					switch {
					case !valid && pan == "":
						c.Fail("invalid-variable-name-accepted:"+k.String(), in, itemString(it))
					case valid && pan == "":
						if v := it.Variables(); len(v) != 1 || v[0] != name {
							c.Fail("variable-name-stored", in, fmt.Sprint(v))
						}
					}
					c.Case(0, true, map[bool]string{true: "valid-name", false: "invalid-name"}[valid])
				}})
			// duplicates and ellipsis placement
			type dupCase struct {
				name string
				mk   func() ast.ItemNode
				ok   bool
			}
			u := func(v ...interface{}) ast.ItemNode { return ast.NewUintNode(1, v...) }
			dups := []dupCase{
				{"duplicate within an int node", func() ast.ItemNode { return ast.NewIntNode(2, "x", 1, "x") }, false},
				{"duplicate within a float node", func() ast.ItemNode { return ast.NewFloatNode(4, "x", "x") }, false},
				{"duplicate within a binary node", func() ast.ItemNode { return ast.NewBinaryNode("x", "x") }, false},
				{"duplicate within a boolean node", func() ast.ItemNode { return ast.NewBooleanNode("x", true, "x") }, false},
				{"duplicate list variables", func() ast.ItemNode { return ast.NewListNode("x", "x") }, false},
				{"duplicate across siblings", func() ast.ItemNode { return ast.NewListNode(u("x"), u("x")) }, false},
				{"duplicate list variable vs child", func() ast.ItemNode { return ast.NewListNode(u("x"), "x") }, false},
				{"duplicate across depth", func() ast.ItemNode {
					return ast.NewListNode(u("x"), ast.NewListNode(ast.NewListNode(ast.NewASCIINodeVariable("x", 0, -1))))
				}, false},
				{"duplicate ascii vs boolean", func() ast.ItemNode {
					return ast.NewListNode(ast.NewASCIINodeVariable("x", 0, -1), ast.NewBooleanNode("x"))
				}, false},
				{"distinct names", func() ast.ItemNode { return ast.NewListNode(u("x"), u("y"), "z", ast.NewListNode(u("x0"))) }, true},
				{"names differing in index", func() ast.ItemNode { return ast.NewListNode(u("x[0]"), u("x[1]"), u("x")) }, true},
				{"ellipsis first", func() ast.ItemNode { return ast.NewListNode("...", u(1)) }, false},
				{"ellipsis alone", func() ast.ItemNode { return ast.NewListNode("...") }, false},
				{"numbered ellipsis first", func() ast.ItemNode { return ast.NewListNode("...[0]", u(1)) }, false},
				{"ellipsis twice", func() ast.ItemNode { return ast.NewListNode(u(1), "...", "...[1]") }, false},
				{"ellipsis twice same name", func() ast.ItemNode { return ast.NewListNode(u(1), "...", "...") }, false},
				{"two numbered ellipses", func() ast.ItemNode { return ast.NewListNode(u(1), "...[0]", u(2), "...[1]") }, false},
				{"ellipsis second", func() ast.ItemNode { return ast.NewListNode(u(1), "...") }, true},
				{"ellipsis last of three", func() ast.ItemNode { return ast.NewListNode(u(1), "v", "...[3]") }, true},
				{"ellipsis in the middle", func() ast.ItemNode { return ast.NewListNode(u(1), "...", u(2)) }, true},
				{"ellipses in nested lists", func() ast.ItemNode { return ast.NewListNode(ast.NewListNode(u(1), "...[0]"), "...[1]") }, true},
				{"same ellipsis name in nested lists", func() ast.ItemNode { return ast.NewListNode(ast.NewListNode(u(1), "..."), "...") }, false},
				{"ellipsis in an int node", func() ast.ItemNode { return ast.NewIntNode(1, 1, "...") }, false},
				{"ellipsis in a uint node", func() ast.ItemNode { return ast.NewUintNode(1, 1, "...") }, false},
				{"ellipsis in a float node", func() ast.ItemNode { return ast.NewFloatNode(8, 1.0, "...[0]") }, false},
				{"ellipsis in a binary node", func() ast.ItemNode { return ast.NewBinaryNode(1, "...") }, false},
				{"ellipsis in a boolean node", func() ast.ItemNode { return ast.NewBooleanNode(true, "...") }, false},
				{"ellipsis as ascii variable", func() ast.ItemNode { return ast.NewASCIINodeVariable("...", 0, -1) }, false},
				{"non-item non-string in list", func() ast.ItemNode { return ast.NewListNode(u(1), 5) }, false},
				{"nil in list", func() ast.ItemNode { return ast.NewListNode(u(1), nil) }, false},
				{"invalid int byte size", func() ast.ItemNode { return ast.NewIntNode(3, 1) }, false},
				{"invalid uint byte size", func() ast.ItemNode { return ast.NewUintNode(0, 1) }, false},
				{"invalid float byte size", func() ast.ItemNode { return ast.NewFloatNode(2, 1.0) }, false},
				{"float byte size 16", func() ast.ItemNode { return ast.NewFloatNode(16, 1.0) }, false},
			}
			sp = append(sp, h.Space{Name: "duplicates-ellipsis-placement-byte-sizes", Count: uint64(len(dups)),
				Describe: func(i uint64) interface{} { return dups[i].name },
				Run: func(c *h.Ctx, i uint64) {
					it, pan := tryItem(dups[i].mk)
					c.Ops(1)
					if dups[i].ok && pan != "" {
						c.Case(0, true, "in-range-refused")
						return
					}
					if !dups[i].ok && pan == "" {
						c.Fail("invalid-structure-accepted", dups[i].name, itemString(it))
					}
					c.Case(0, true, map[bool]string{true: "valid", false: "refused"}[dups[i].ok])
				}})
			// renames through FillVariables (a string given for a variable of a numeric/boolean/binary item or for a list-level
			// variable is its new name): every simultaneous assignment of {untouched, a value, each of four names} to the two
			// variables of an item, bare and next to a sibling that holds a third name; the result is refused iff the factory
			// would refuse the resulting names (a duplicate), otherwise the names are exactly the substituted ones, in order
			rnKinds := []string{"I2", "U1", "U8", "F4", "B", "BOOLEAN", "L"}
			rnOpts := []string{"", "=value", "x", "y", "z", "q"}
			sp = append(sp, h.Space{Name: "renames-through-fill", Count: product(len(rnKinds), len(rnOpts), len(rnOpts), 2),
				Describe: func(i uint64) interface{} {
					d := unrank(i, len(rnKinds), len(rnOpts), len(rnOpts), 2)
					return fmt.Sprintf("<%s x 1 y>%s filled with x:%q y:%q", rnKinds[d[0]], []string{"", " inside <L . <U1 z>>"}[d[3]], rnOpts[d[1]], rnOpts[d[2]])
				},
				Run: func(c *h.Ctx, i uint64) {
					d := unrank(i, len(rnKinds), len(rnOpts), len(rnOpts), 2)
					kind := rnKinds[d[0]]
					var one, val interface{} = 1, 5
					if kind == "BOOLEAN" {
						one, val = true, false
					}
					var tmpl ast.ItemNode
					switch kind {
					case "I2":
						tmpl = ast.NewIntNode(2, "x", one, "y")
					case "U1":
						tmpl = ast.NewUintNode(1, "x", one, "y")
					case "U8":
						tmpl = ast.NewUintNode(8, "x", one, "y")
					case "F4":
						tmpl = ast.NewFloatNode(4, "x", one, "y")
					case "B":
						tmpl = ast.NewBinaryNode("x", one, "y")
					case "BOOLEAN":
						tmpl = ast.NewBooleanNode("x", one, "y")
					default:
						tmpl = ast.NewListNode("x", ast.NewUintNode(1, 1), "y")
						val = ast.NewUintNode(1, 5)
					}
					names := []string{"x", "y"}
					if d[3] == 1 {
						tmpl = ast.NewListNode(tmpl, ast.NewUintNode(1, "z"))
						names = append(names, "z")
					}
					fill := map[string]interface{}{}
					var want []string
					for j, o := range []string{rnOpts[d[1]], rnOpts[d[2]]} {
						switch o {
						case "":
							want = append(want, names[j])
						case "=value":
							fill[names[j]] = val
						default:
							fill[names[j]] = o
							want = append(want, o)
						}
					}
					want = append(want, names[2:]...)
					dup := false
					for a := range want {
						for b := a + 1; b < len(want); b++ {
							dup = dup || want[a] == want[b]
						}
					}
					in := fmt.Sprintf("%s filled with %s", strings.ReplaceAll(itemString(tmpl), "\n", " "), showMap(fill))
					before := itemString(tmpl)
					it, pan := tryItem(func() ast.ItemNode { return tmpl.FillVariables(fill) })
					c.Ops(1)
					switch {
					case dup && pan == "":
						c.Fail("duplicate-name-accepted-by-rename", in, fmt.Sprintf("names would be %v; stored as %s", want, strings.ReplaceAll(itemString(it), "\n", " ")))
					case !dup && pan != "":
						c.Fail("valid-rename-refused", in, pan)
					case !dup:
						if got := it.Variables(); !eqStrings(got, want) {
							c.Fail("rename-result", in, fmt.Sprintf("Variables()=%v want %v", got, want))
						}
					}
					if itemString(tmpl) != before {
						c.Fail("template-changed-by-rename", in, itemString(tmpl))
					}
					c.Case(0, true, map[bool]string{true: "duplicate-refused", false: "renamed"}[dup])
				}})
			// repeat counts given to ellipses: a count that denotes no expansion (negative, larger than any item may
			// be, not a Go int) is refused - it is never dropped silently, alone or together with the other keys of the call
			type rc struct {
				v     interface{}
				valid bool
			}
			counts := []rc{{0, true}, {1, true}, {3, true}, {-1, false}, {-2, false}, {-3, false}, {math.MinInt64, false}, {math.MinInt64 + 1, false}, {math.MaxInt64, false},
				{math.MaxInt64 - 1, false}, {1 << 33, false}, {1 << 24, false}, {int64(1), false}, {uint8(1), false}, {1.0, false}, {"1", false}, {true, false}, {nil, false}}
			rcTemplates := []struct {
				name string
				mk   func() ast.ItemNode
				keys []string // ellipsis names, outermost first
			}{
				{"<L <U1 a> ...>", func() ast.ItemNode { return ast.NewListNode(ast.NewUintNode(1, "a"), "...") }, []string{"..."}},
				{"<L <L <U1 a> ...[0]> ...[1]>", func() ast.ItemNode {
					return ast.NewListNode(ast.NewListNode(ast.NewUintNode(1, "a"), "...[0]"), "...[1]")
				}, []string{"...[1]", "...[0]"}},
				{"<L <U1 a> ...[0] <L <U1 b> ...[1]>>", func() ast.ItemNode {
					return ast.NewListNode(ast.NewUintNode(1, "a"), "...[0]", ast.NewListNode(ast.NewUintNode(1, "b"), "...[1]"))
				}, []string{"...[0]", "...[1]"}},
			}
			sp = append(sp, h.Space{Name: "ellipsis-repeat-counts", Count: product(len(rcTemplates), len(counts), len(counts)+1, 2), ChunkHint: 8,
				Describe: func(i uint64) interface{} {
					d := unrank(i, len(rcTemplates), len(counts), len(counts)+1, 2)
					return fmt.Sprintf("%s first count #%d second count #%d with-value=%v", rcTemplates[d[0]].name, d[1], d[2], d[3] == 1)
				},
				Run: func(c *h.Ctx, i uint64) {
					d := unrank(i, len(rcTemplates), len(counts), len(counts)+1, 2)
					t := rcTemplates[d[0]]
					fill := map[string]interface{}{t.keys[0]: counts[d[1]].v}
					valid := counts[d[1]].valid
					if d[2] < len(counts) {
						if len(t.keys) < 2 {
							c.Case(0, false, "one-ellipsis-template")
							return
						}
						fill[t.keys[1]] = counts[d[2]].v
						valid = valid && counts[d[2]].valid
					}
					if d[3] == 1 {
						fill["a"] = 7
					}
					var res ast.ItemNode
					pan := catch(func() { res = t.mk().FillVariables(fill) })
					c.Ops(1)
					desc := fmt.Sprintf("%s.FillVariables(%s)", t.name, showMap(fill))
					switch {
					case !valid && pan == nil:
						c.Fail("invalid-repeat-count-accepted", desc, fmt.Sprintf("no panic; result %q", itemString(res)))
					case valid && pan != nil:
						c.Fail("valid-repeat-count-refused", desc, fmt.Sprint(pan))
					}
					c.Case(0, true, map[bool]string{true: "expanded", false: "refused"}[valid])
				}})
			return sp
		},
	})
}
