package props

import (
	"fmt"
	"math"
	"math/big"
	"strconv"
	"strings"

	h "verif/internal/harness"
	"verif/internal/ref"
)

// C05 — literals denote exactly the stored values. A finite literal grammar,
// every production x every item type x every position, with denotations
// computed independently (math/big).

type literal struct {
	Text  string
	Class string // int | float | bool | string | var
	// int
	Int     *big.Int   // signed mathematical value
	Plus    bool       // written with '+'
	NegZero bool       // "-0"
	Based   bool       // 0x / 0o / 0b prefix
	Alts    []*big.Int // leading-zero forms: acceptable readings
	// float
	Rat       *big.Rat
	Neg       bool
	EmptyFrac bool
	// bool / string / var
	Bool bool
	Str  string
}

var intMagnitudes = func() []*big.Int {
	var r []*big.Int
	for _, s := range []string{"0", "1", "2", "7", "8", "9", "10", "15", "16", "100", "126", "127", "128", "129", "254", "255", "256", "257",
		"32767", "32768", "32769", "65535", "65536", "2147483647", "2147483648", "2147483649", "4294967295", "4294967296",
		"9223372036854775807", "9223372036854775808", "9223372036854775809", "18446744073709551615", "18446744073709551616", "1000000000000000000000000000000",
		"18446744073709551617", "18446744078004518912", "20000000000000000000", "20496382304121724017", "25000000000000000000", "30000000000000000000", "36893488147419103231",
		"36893488147419103232", "36893488147419103233", "50000000000000000000", "99999999999999999999", "100000000000000000000", "184467440737095516150", "73786976294838206464",
		"1180591620717411303424", "170141183460469231731687303715884105727", "340282366920938463463374607431768211456", "13835058055282163712", "27670116110564327424"} {
		v, _ := new(big.Int).SetString(s, 10)
		r = append(r, v)
	}
	return r
}()

func intLiterals() []literal {
	var out []literal
	type form struct {
		prefix string
		base   int
		upper  bool
	}
	forms := []form{{"", 10, false}, {"0x", 16, false}, {"0X", 16, true}, {"0x", 16, true}, {"0o", 8, false}, {"0O", 8, false}, {"0b", 2, false}, {"0B", 2, false}}
	for _, sign := range []string{"", "+", "-"} {
		for _, f := range forms {
			for _, m := range intMagnitudes {
				digits := m.Text(f.base)
				if f.upper {
					digits = strings.ToUpper(digits)
				}
				if f.base == 16 && f.upper && digits == strings.ToLower(digits) && f.prefix == "0x" {
					continue // no letters: same text as the lower-case form
				}
				v := new(big.Int).Set(m)
				if sign == "-" {
					v.Neg(v)
				}
				out = append(out, literal{Text: sign + f.prefix + digits, Class: "int", Int: v, Plus: sign == "+",
					NegZero: sign == "-" && m.Sign() == 0, Based: f.base != 10})
			}
		}
	}
	// leading-zero forms: decimal reading, legacy-octal reading, or an error
	lz := func(text string, alts ...int64) {
		l := literal{Text: text, Class: "int", Int: big.NewInt(alts[0])}
		for _, a := range alts {
			l.Alts = append(l.Alts, big.NewInt(a))
		}
		out = append(out, l)
	}
	lz("010", 10, 8)
	lz("08", 8)
	lz("007", 7)
	lz("0100", 100, 64)
	lz("-017", -17, -15)
	lz("00", 0)
	return out
}

func floatLiterals() []literal {
	var out []literal
	mants := []string{"0", "1", "15", "123456789", ".5", "0.5", "5.", "1.25", "3.4028235", "3.4028236", "1.7976931348623157", "1.7976931348623159",
		"4.9", "2.4", "1.4", "0.7", "16777217", "9007199254740993", "0.1", "1.17549435", "2.2250738585072014", "7.0064923216240853546"}
	exps := []string{"", "e0", "e+1", "e-1", "E38", "e39", "e-45", "e-46", "E+308", "e309", "e-324", "e-325", "e400", "e-400", "e-38", "e-308", "e10"}
	for _, sign := range []string{"", "+", "-"} {
		for _, m := range mants {
			for _, e := range exps {
				if e == "" && !strings.Contains(m, ".") {
					continue // that is an integer literal
				}
				text := sign + m + e
				mm := m
				if strings.HasSuffix(mm, ".") {
					mm += "0"
				}
				if strings.HasPrefix(mm, ".") {
					mm = "0" + mm
				}
				r, ok := new(big.Rat).SetString(mm)
				if !ok {
					panic("rat " + mm)
				}
				if e != "" {
					ev, _ := strconv.Atoi(strings.TrimLeft(e[1:], "+"))
					p := new(big.Int).Exp(big.NewInt(10), big.NewInt(int64(abs(ev))), nil)
					if ev >= 0 {
						r.Mul(r, new(big.Rat).SetInt(p))
					} else {
						r.Quo(r, new(big.Rat).SetInt(p))
					}
				}
				if sign == "-" {
					r.Neg(r)
				}
				out = append(out, literal{Text: text, Class: "float", Rat: r, Neg: sign == "-", EmptyFrac: strings.HasSuffix(m, "."), Plus: sign == "+"})
			}
		}
	}
	return out
}

func abs(x int) int {
	if x < 0 {
		return -x
	}
	return x
}

func otherLiterals() []literal {
	out := []literal{
		{Text: "T", Class: "bool", Bool: true}, {Text: "F", Class: "bool"}, {Text: "t", Class: "bool", Bool: true}, {Text: "f", Class: "bool"},
		{Text: `"a"`, Class: "string", Str: "a"}, {Text: `"1"`, Class: "string", Str: "1"}, {Text: `"T"`, Class: "string", Str: "T"}, {Text: `""`, Class: "string", Str: ""},
		{Text: `"a b"`, Class: "string", Str: "a b"}, {Text: `"\n"`, Class: "string", Str: `\n`}, {Text: `"C:\temp\x"`, Class: "string", Str: `C:\temp\x`},
		{Text: `"<L>"`, Class: "string", Str: "<L>"}, {Text: `"// no comment"`, Class: "string", Str: "// no comment"}, {Text: `"..."`, Class: "string", Str: "..."},
		{Text: `"\"`, Class: "string", Str: `\`}, {Text: `"é"`, Class: "string", Str: "é"}, {Text: "\"\xff\"", Class: "string", Str: "\xff"},
	}
	for _, v := range []string{"x", "Xy_1", "foo[1]", "v[0][12]", "_a", "tt", "L1", "W", "S1F1", "e5", "x0b1"} {
		out = append(out, literal{Text: v, Class: "var", Str: v})
	}
	// number-like tokens of wrong syntax: a digit outside the base, a letter glued to a number, a bare base
	// prefix. No item type can represent them and they are not two values either (values are separated by blanks).
	for _, v := range []string{"0b12", "0b2", "0b102", "0b19", "-0b12", "0o8", "0o79", "0o18", "-0o79", "0o1018", "0B12", "0O79",
		"0x1G", "0xG", "12ab", "1x", "1_000", "0b", "0x", "0o", "0b1_", "0o7_", "0b1x", "0b01b", "0o17o", "0b1T", "0o7F", "1T",
		// two numbers glued together by a sign or a point are not two values
		"1.2.3", "192.168.0.1", "2e28.2", "0x1Fe+5", "1-2", "1+2", "1.5-2", "5.5.5", "1e5.0", "0b1-1", "3-", "3+",
		// a sign that stands alone (or is doubled, or is separated from its digits) is not a number
		"+", "-", "- 1", "+ 1", "--1", "++1", "+-1", "-+1", "-0x", "+0b",
		// a line end inside the quotes (also directly after the opening quote) leaves the string unclosed
		"\"\n\"", "\"\r\"", "\"\r\n\"", "\"a\nb\"", "\"a\n\"", "\"\na\""} {
		out = append(out, literal{Text: v, Class: "malformed"})
	}
	return out
}

// verdicts
const (
	vValue = iota
	vError
	vEither // error, or one of the acceptable values
)

// expectElem computes the expectation for a literal in a numeric/boolean/binary item.
func expectElem(k ref.Kind, l literal) (int, []ref.Elem) {
	switch l.Class {
	case "var":
		return vValue, []ref.Elem{{Var: l.Str}}
	case "bool":
		if k == ref.BOOLEAN {
			return vValue, []ref.Elem{{T: l.Bool}}
		}
		return vError, nil
	case "string", "malformed":
		return vError, nil
	case "int":
		if k == ref.BOOLEAN {
			return vError, nil
		}
		verdict := vValue
		vals := []*big.Int{l.Int}
		if len(l.Alts) > 0 {
			verdict, vals = vEither, l.Alts
		}
		if k.IsFloat() {
			if l.Based {
				verdict = vEither // hex/octal/binary literal in a float item: its integer value, or an error
			}
			var es []ref.Elem
			for _, v := range vals {
				f, ok := roundRat(k, new(big.Rat).SetInt(v), l.NegZero)
				if !ok {
					return vError, nil
				}
				es = append(es, ref.Elem{F: f})
			}
			return verdict, es
		}
		if k.IsUint() || k == ref.B {
			if l.Plus || l.NegZero {
				verdict = vEither // "+5" / "-0" where no sign is meaningful
			}
		}
		var lo, hi *big.Int
		switch {
		case k.IsInt():
			hi = new(big.Int).Lsh(big.NewInt(1), uint(8*k.Width()-1))
			lo = new(big.Int).Neg(hi)
			hi.Sub(hi, big.NewInt(1))
		case k.IsUint():
			lo = big.NewInt(0)
			hi = new(big.Int).Lsh(big.NewInt(1), uint(8*k.Width()))
			hi.Sub(hi, big.NewInt(1))
		case k == ref.B:
			lo, hi = big.NewInt(0), big.NewInt(255)
		}
		var es []ref.Elem
		for _, v := range vals {
			if v.Cmp(lo) < 0 || v.Cmp(hi) > 0 {
				if verdict == vEither && len(vals) > 1 {
					continue
				}
				return vError, nil
			}
			if k.IsInt() {
				es = append(es, ref.Elem{I: v.Int64()})
			} else {
				es = append(es, ref.Elem{U: v.Uint64()})
			}
		}
		if len(es) == 0 {
			return vError, nil
		}
		return verdict, es
	case "float":
		if !k.IsFloat() {
			return vError, nil
		}
		f, ok := roundRat(k, l.Rat, l.Neg && l.Rat.Sign() == 0)
		if !ok {
			// within half an ulp above MaxFloat is an either-cell
			if nearMax(k, l.Rat) {
				return vEither, nil
			}
			return vError, nil
		}
		if l.EmptyFrac {
			return vEither, []ref.Elem{{F: f}}
		}
		return vValue, []ref.Elem{{F: f}}
	}
	panic("class")
}

// roundRat rounds exactly once to the item's width; ok=false on overflow.
func roundRat(k ref.Kind, r *big.Rat, negZero bool) (float64, bool) {
	var f float64
	if k == ref.F4 {
		f32, _ := r.Float32()
		f = float64(f32)
	} else {
		f, _ = r.Float64()
	}
	if math.IsInf(f, 0) {
		return 0, false
	}
	if f == 0 && (negZero || r.Sign() < 0) {
		f = math.Copysign(0, -1)
	}
	return f, true
}

func nearMax(k ref.Kind, r *big.Rat) bool {
	max := math.MaxFloat64
	ulp := math.MaxFloat64 - math.Nextafter(math.MaxFloat64, 0)
	if k == ref.F4 {
		max = math.MaxFloat32
		ulp = float64(math.MaxFloat32) - float64(math.Nextafter32(math.MaxFloat32, 0))
	}
	a := new(big.Rat).Abs(r)
	lim := new(big.Rat).SetFloat64(max)
	half := new(big.Rat).SetFloat64(ulp / 2)
	up := new(big.Rat).Add(lim, half)
	return a.Cmp(lim) > 0 && a.Cmp(up) <= 0
}

// runLiteralPair puts the SAME literal text into two items of different (or equal) types inside one
// message: each item must be judged on its own (no state shared between conversions of one input).
func runLiteralPair(c *h.Ctx, ka, kb ref.Kind, l literal) string {
	text := "S1F1 W H->E n\n<L <" + ka.String() + " " + l.Text + "> <" + kb.String() + " " + l.Text + ">>\n."
	ms, errs, _, pan := smlRun(text)
	c.Ops(1)
	in := fmt.Sprintf("sml.Parse(%s)", strconv.Quote(text))
	cls := fmt.Sprintf("%s-literal-in-%s-then-%s", l.Class, ka, kb)
	if pan != "" {
		c.Fail("panic:"+cls, in, pan)
		return "panic"
	}
	va, wa := expectItem(ka, l, 3)
	vb, wb := expectItem(kb, l, 3)
	if va == vError || vb == vError {
		if len(errs) == 0 {
			c.Fail("silently-accepted:"+cls, in, fmt.Sprintf("stored %q", body(ms[0].String())))
			return "bad"
		}
		return "error-as-expected"
	}
	if len(errs) > 0 {
		if va == vValue && vb == vValue {
			c.Fail("refused-valid:"+cls, in, fmt.Sprint(errs))
			return "bad"
		}
		return "either-error"
	}
	if len(ms) != 1 {
		c.Fail("message-count:"+cls, in, fmt.Sprint(len(ms)))
		return "bad"
	}
	got := body(ms[0].String())
	if len(wa) == 0 || len(wb) == 0 {
		return "either-accepted-unjudged"
	}
	for _, x := range wa {
		for _, y := range wb {
			if got == ref.Print(ref.List(x, y))+"\n." {
				return "value-as-expected"
			}
		}
	}
	c.Fail("silent-substitution:"+cls, in, fmt.Sprintf("stored %q; the literal denotes %q then %q", got, ref.Print(wa[0]), ref.Print(wb[0])))
	return "bad"
}

// expectItem computes the expectation for literal l at position pos (3 = single element) of an item of kind k
// whose other elements are the fillers used by runLiteral.
func expectItem(k ref.Kind, l literal, pos int) (int, []*ref.Node) {
	fillElem := ref.Elem{I: 1, U: 1, F: 1}
	if k == ref.BOOLEAN {
		fillElem = ref.Elem{T: true}
	}
	verdict := vValue
	var wants []*ref.Node
	mk := func(e ref.Elem) *ref.Node {
		n := &ref.Node{Kind: k, Elems: []ref.Elem{fillElem, fillElem, fillElem}}
		if pos == 3 {
			n.Elems = []ref.Elem{e}
		} else {
			n.Elems[pos] = e
		}
		return n
	}
	switch k {
	case ref.L:
		if l.Class == "var" {
			ch := []*ref.Node{ref.Uints(ref.U1, 1), ref.Uints(ref.U1, 1), ref.Uints(ref.U1, 1)}
			if pos == 3 {
				ch = []*ref.Node{ref.Var(l.Str)}
			} else {
				ch[pos] = ref.Var(l.Str)
			}
			wants = []*ref.Node{ref.List(ch...)}
		} else {
			verdict = vError
		}
	case ref.A:
		switch l.Class {
		case "string":
			ok := true
			for i := 0; i < len(l.Str); i++ {
				if l.Str[i] >= 0x80 {
					ok = false
				}
			}
			if !ok {
				verdict = vError
				break
			}
			s := []string{"z", "z", "z"}
			if pos == 3 {
				s = []string{l.Str}
			} else {
				s[pos] = l.Str
			}
			wants = []*ref.Node{ref.Ascii(strings.Join(s, ""))}
		case "int":
			vals := []*big.Int{l.Int}
			if len(l.Alts) > 0 {
				verdict, vals = vEither, l.Alts
			}
			if l.Plus || l.NegZero {
				verdict = vEither
			}
			for _, v := range vals {
				if v.Sign() < 0 || v.Cmp(big.NewInt(127)) > 0 {
					continue
				}
				s := []string{"z", "z", "z"}
				if pos == 3 {
					s = []string{string([]byte{byte(v.Int64())})}
				} else {
					s[pos] = string([]byte{byte(v.Int64())})
				}
				wants = append(wants, ref.Ascii(strings.Join(s, "")))
			}
			if len(wants) == 0 {
				verdict = vError
			}
		case "var":
			if pos == 3 {
				wants = []*ref.Node{ref.AsciiVar(l.Str, 0, -1)}
			} else {
				verdict = vError // a variable cannot co-exist with other literals in an ASCII item
			}
		default:
			verdict = vError
		}
	default:
		var es []ref.Elem
		verdict, es = expectElem(k, l)
		for _, e := range es {
			wants = append(wants, mk(e))
		}
	}
	return verdict, wants
}

// runLiteral builds the text for literal l in position pos of a 3-element item of kind k and checks it.
func runLiteral(c *h.Ctx, k ref.Kind, l literal, pos int, lower bool) string {
	filler := "1"
	switch k {
	case ref.BOOLEAN:
		filler = "T"
	case ref.A:
		filler = `"z"`
	case ref.L:
		filler = "<U1 1>"
	}
	toks := []string{filler, filler, filler}
	if pos == 3 { // single element
		toks = []string{l.Text}
	} else {
		toks[pos] = l.Text
	}
	head, typ, end := "S1F1 W H->E n\n<", k.String(), ">\n."
	if lower {
		head, typ = "s1f1 w h->e n\n<", strings.ToLower(typ)
	}
	text := head + typ + " " + strings.Join(toks, " ") + end
	ms, errs, _, pan := smlRun(text)
	c.Ops(1)
	in := fmt.Sprintf("sml.Parse(%s)", strconv.Quote(text))
	cls := fmt.Sprintf("%s-literal-in-%s", l.Class, k)
	if pan != "" {
		c.Fail("panic:"+cls, in, pan)
		return "panic"
	}
	if len(errs) > 0 && len(ms) > 0 {
		c.Fail("messages-with-errors", in, fmt.Sprint(errs))
		return "bad"
	}
	// expectation
	verdict, wants := expectItem(k, l, pos)
	// compare
	switch verdict {
	case vError:
		if len(errs) == 0 {
			got := "<no message>"
			if len(ms) == 1 {
				got = body(ms[0].String())
			}
			c.Fail("silently-accepted:"+cls, in, fmt.Sprintf("no error for a literal the item cannot represent; stored %q", got))
			return "bad"
		}
		return "error-as-expected"
	case vEither:
		if len(errs) > 0 {
			return "either-error"
		}
		if len(wants) == 0 {
			return "either-accepted-unjudged"
		}
	case vValue:
		if len(errs) > 0 {
			c.Fail("refused-valid:"+cls, in, fmt.Sprintf("errors %v; expected value %s", errs, ref.Print(wants[0])))
			return "bad"
		}
	}
	if len(ms) != 1 {
		c.Fail("message-count:"+cls, in, fmt.Sprintf("%d messages", len(ms)))
		return "bad"
	}
	got := body(ms[0].String())
	for _, w := range wants {
		if got == ref.Print(w)+"\n." {
			// also the encoded value, once complete
			if w.Complete() {
				b := ms[0].SetSessionIDAndSystemBytes(1, []byte{0, 0, 0, 1}).ToBytes()
				want := ref.EncodeMsg(&ref.Msg{Stream: 1, Function: 1, W: 1, Session: 1, System: [4]byte{0, 0, 0, 1}, Item: w})
				c.Ops(2)
				if !sameBytes(b, want) {
					c.Fail("stored-bytes-differ:"+cls, in, fmt.Sprintf("ToBytes()=%x want %x", b, want))
					return "bad"
				}
			}
			if verdict == vEither {
				return "either-value"
			}
			return "value-as-expected"
		}
	}
	var ws []string
	for _, w := range wants {
		ws = append(ws, ref.Print(w))
	}
	c.Fail("silent-substitution:"+cls, in, fmt.Sprintf("stored %q; the literal denotes %q", got, ws))
	return "bad"
}

func init() {
	h.Register(&h.Check{
		ID:   "C05",
		Rule: "every literal of a finite grammar (signs x 8 base forms x 34 magnitudes; signs x 22 mantissas x 17 exponents; T/F; quoted strings incl. every 1- and 2-character printable string; character codes; variables) x all 14 item types x positions first/middle/last/single x letter case; denotation computed with math/big; three-valued expectation (value / error / either); oracle: error and no message, or exactly the denoted value in String() and ToBytes(); non-trivial = distinct text parsed and judged",
		Build: func(tier string, seed int64) []h.Space {
			var sp []h.Space
			lits := append(append(intLiterals(), floatLiterals()...), otherLiterals()...)
			sp = append(sp, h.Space{Name: "literal-x-type-x-position-x-case", Count: product(len(lits), 14, 4, 2),
				Describe: func(i uint64) interface{} {
					d := unrank(i, len(lits), 14, 4, 2)
					return fmt.Sprintf("literal %q in %s position %d lower=%v", lits[d[0]].Text, ref.Kinds[d[1]], d[2], d[3] == 1)
				},
				Run: func(c *h.Ctx, i uint64) {
					d := unrank(i, len(lits), 14, 4, 2)
					l, k := lits[d[0]], ref.Kinds[d[1]]
					if d[3] == 1 && (d[2] != 1 || l.Class == "string" || l.Class == "var") {
						c.Case(0, false, "skip-case-variant") // lower-case skeleton only in the middle position, number/bool literals
						return
					}
					out := runLiteral(c, k, l, d[2], d[3] == 1)
					c.Case(0, true, out)
				}})
			// literals written just below / exactly at / just above the midpoint of two neighbouring
			// float32 (float64) values: they must be rounded ONCE, directly to the item's width
			type mid struct {
				k    ref.Kind
				text string
				rat  *big.Rat
			}
			var mids []mid
			addMid := func(k ref.Kind, lo, hi float64) {
				m := new(big.Rat).Add(new(big.Rat).SetFloat64(lo), new(big.Rat).SetFloat64(hi))
				m.Quo(m, big.NewRat(2, 1))
				exact := m.FloatString(160)
				exact = strings.TrimRight(strings.TrimRight(exact, "0"), ".")
				if !strings.Contains(exact, ".") {
					exact += ".0"
				}
				for _, t := range []string{exact, exact + "0000000001", exact + "1"} {
					r, _ := new(big.Rat).SetString(t)
					mids = append(mids, mid{k, t, r})
				}
				// just below: decrement the last digit of the exact expansion (it is never 0 after trimming) and append 9s
				b := []byte(exact)
				if last := len(b) - 1; b[last] > '0' && b[last] <= '9' {
					b[last]--
					t := string(b) + "9999999999"
					r, _ := new(big.Rat).SetString(t)
					mids = append(mids, mid{k, t, r})
				}
				// 17-20 significant digits around the midpoint (what a double-rounding conversion gets wrong)
				f := new(big.Float).SetPrec(400).SetRat(m)
				for _, digits := range []int{17, 18, 19, 20, 25} {
					for _, delta := range []int64{-1, 0, 1} {
						t := f.Text('e', digits-1)
						// bump the last mantissa digit by delta through a rational re-rendering
						r, ok := new(big.Rat).SetString(t)
						if !ok {
							continue
						}
						if delta != 0 {
							ulp := new(big.Rat).Mul(new(big.Rat).Abs(r), new(big.Rat).SetFrac(big.NewInt(delta), new(big.Int).Exp(big.NewInt(10), big.NewInt(int64(digits-1)), nil)))
							r.Add(r, ulp)
							t = new(big.Float).SetPrec(400).SetRat(r).Text('e', digits+2)
							r, _ = new(big.Rat).SetString(t)
						}
						mids = append(mids, mid{k, t, r})
					}
				}
			}
			for _, b := range []uint32{0x3f800000, 0x3f800001, 0x4b800000, 0x4b7fffff, 0x3dcccccd, 0x7f7ffffe, 0x00800000, 0x00000001, 0x007fffff, 0x42c80000, 0x0da24260, 0x5d5e0b6b} {
				addMid(ref.F4, float64(math.Float32frombits(b)), float64(math.Float32frombits(b+1)))
			}
			for _, b := range []uint64{0x3ff0000000000000, 0x3ff0000000000001, 0x4340000000000000, 0x3fb999999999999a, 0x7feffffffffffffe, 0x0010000000000000, 0x0000000000000001} {
				addMid(ref.F8, math.Float64frombits(b), math.Float64frombits(b+1))
			}
			sp = append(sp, h.Space{Name: "float-literals-around-rounding-midpoints", Count: uint64(len(mids) * 2),
				Describe: func(i uint64) interface{} {
					return fmt.Sprintf("%s literal %s sign %d", mids[i/2].k, trunc(mids[i/2].text, 60), i%2)
				},
				Run: func(c *h.Ctx, i uint64) {
					m := mids[i/2]
					l := literal{Text: m.text, Class: "float", Rat: m.rat}
					if i%2 == 1 {
						l.Text, l.Rat, l.Neg = "-"+m.text, new(big.Rat).Neg(m.rat), true
					}
					c.Case(h.DigestS(l.Text, m.k.String()), true, runLiteral(c, m.k, l, int(i%3), false))
				}})
			// the same literal text in two items of one message (every ordered pair of the 13 scalar types)
			pl := []literal{}
			for _, l := range append(intLiterals(), floatLiterals()...) {
				switch l.Text {
				case "0.1", "1", "255", "-0", "-1", "0x10", "1e39", "1.5", "16777217", "3.4028235e39", "0.7", "+5", "256", "65536", "2.4e-45", "9007199254740993":
					pl = append(pl, l)
				}
			}
			pl = append(pl, literal{Text: "T", Class: "bool", Bool: true}, literal{Text: `"a"`, Class: "string", Str: "a"})
			nk := len(ref.ScalarKinds)
			sp = append(sp, h.Space{Name: "same-literal-in-two-items-of-one-message", Count: uint64(len(pl) * nk * nk),
				Describe: func(i uint64) interface{} {
					d := unrank(i, len(pl), nk, nk)
					return fmt.Sprintf("<L <%s %s> <%s %s>>", ref.ScalarKinds[d[1]], pl[d[0]].Text, ref.ScalarKinds[d[2]], pl[d[0]].Text)
				},
				Run: func(c *h.Ctx, i uint64) {
					d := unrank(i, len(pl), nk, nk)
					c.Case(0, true, runLiteralPair(c, ref.ScalarKinds[d[1]], ref.ScalarKinds[d[2]], pl[d[0]]))
				}})
			// a refused parse directly followed by a good one: no text, number or state of the refused input
			// may leak into the next result (conversion state kept across Parse calls)
			refused := []string{
				"S1F1 <A \"LEFTOVER\" T> .", "S1F1 <A \"LEFT\" 65 $> .", "S1F1 <A \"abc\" \"unclosed> .", "S1F1 <A \"x\" y> .", "S1F1 <A 200> .", "S1F1 <A \"é\"> .",
				"S1F1 <U1 256 7> .", "S1F1 <F4 1e39 0.5> .", "S1F1 <B 1 2 300> .", "S1F1 <L <U1 1> <A \"in list\" 1.5>> .", "S1F1 <BOOLEAN T 1> .", "S1F1 <I8 9223372036854775808> .",
				"S1F1 <L <A x> <A x>> .", "S1F1 <L[2] <A \"one\">> .", "S1F1 <A \"tail\"", "S1F1 <F8 0.1 x x> .",
			}
			good := []struct {
				k ref.Kind
				l literal
			}{}
			for _, l := range lits {
				switch l.Text {
				case `"a"`, `"a b"`, "65", "0x41", "0.1", "1", "255", "-1", "T", "x", "1.5", "1e39", "16777217":
					for _, k := range []ref.Kind{ref.A, ref.U1, ref.F4, ref.F8, ref.B, ref.BOOLEAN, ref.I8} {
						good = append(good, struct {
							k ref.Kind
							l literal
						}{k, l})
					}
				}
			}
			sp = append(sp, h.Space{Name: "refused-parse-then-good-parse", Count: uint64(len(refused) * len(good)),
				Describe: func(i uint64) interface{} {
					return fmt.Sprintf("after sml.Parse(%q): literal %q in %s", refused[i/uint64(len(good))], good[i%uint64(len(good))].l.Text, good[i%uint64(len(good))].k)
				},
				Run: func(c *h.Ctx, i uint64) {
					bad, g := refused[i/uint64(len(good))], good[i%uint64(len(good))]
					_, errs, _, pan := smlRun(bad)
					if pan != "" {
						c.Fail("panic", strconv.Quote(bad), pan)
					} else if len(errs) == 0 {
						c.Note("refused-text-was-accepted", 1)
					}
					out := runLiteral(c, g.k, g.l, 3, false)
					out2 := runLiteral(c, g.k, g.l, 1, false)
					if out == "bad" || out2 == "bad" {
						c.Fail("result-depends-on-a-previous-refused-parse", fmt.Sprintf("sml.Parse(%s) and then literal %q in %s", strconv.Quote(bad), g.l.Text, g.k), "see the accompanying violation of this case")
					}
					c.Case(0, true, "after-refusal:"+out)
				}})
			// every 1- and 2-character printable ASCII string (minus the quote), verbatim
			const lo, hi = 32, 126
			n1 := hi - lo + 1
			sp = append(sp, h.Space{Name: "all-printable-strings-le2", Count: uint64(n1 + n1*n1),
				Describe: func(i uint64) interface{} { return strOf(i, lo, n1) },
				Run: func(c *h.Ctx, i uint64) {
					s := strOf(i, lo, n1)
					if strings.Contains(s, `"`) {
						c.Case(0, false, "contains-quote")
						return
					}
					out := runLiteral(c, ref.A, literal{Text: `"` + s + `"`, Class: "string", Str: s}, int(i%4), false)
					c.Case(0, true, out)
				}})
			// 3-character strings with a backslash in each position over a small alphabet
			alpha := []byte{'\\', 'n', 't', 'x', '0', 'u', ' ', '/', 'a', '\''}
			sp = append(sp, h.Space{Name: "backslash-strings-of-3", Count: 1000,
				Describe: func(i uint64) interface{} {
					d := unrank(i, 10, 10, 10)
					return string([]byte{alpha[d[0]], alpha[d[1]], alpha[d[2]]})
				},
				Run: func(c *h.Ctx, i uint64) {
					d := unrank(i, 10, 10, 10)
					s := string([]byte{alpha[d[0]], alpha[d[1]], alpha[d[2]]})
					out := runLiteral(c, ref.A, literal{Text: `"` + s + `"`, Class: "string", Str: s}, 3, false)
					c.Case(0, true, out)
				}})
			// character codes 0..200 in all bases, inside mixed ASCII items
			sp = append(sp, h.Space{Name: "character-codes-0-200-x-base", Count: 201 * 4,
				Describe: func(i uint64) interface{} { return fmt.Sprintf("code %d base form %d", i/4, i%4) },
				Run: func(c *h.Ctx, i uint64) {
					v := int64(i / 4)
					text := []string{strconv.FormatInt(v, 10), "0x" + strconv.FormatInt(v, 16), "0o" + strconv.FormatInt(v, 8), "0b" + strconv.FormatInt(v, 2)}[i%4]
					out := runLiteral(c, ref.A, literal{Text: text, Class: "int", Int: big.NewInt(v), Based: i%4 != 0}, 1, false)
					c.Case(0, true, out)
				}})
			return sp
		},
	})
}

func strOf(i uint64, lo, n1 int) string {
	if i < uint64(n1) {
		return string([]byte{byte(lo + int(i))})
	}
	i -= uint64(n1)
	return string([]byte{byte(lo + int(i)/n1), byte(lo + int(i)%n1)})
}
