package props

import (
	"fmt"
	"math"

	"verif/internal/ref"
)

// smlAtoms is the leaf alphabet for SML-side spaces: values of every format,
// variables in every kind of item (placeholder name "?"), the four ASCII bound
// forms, list-level variables and ellipses.
func smlAtoms() []*ref.Node {
	v := func(k ref.Kind, e ...ref.Elem) *ref.Node { return &ref.Node{Kind: k, Elems: e} }
	q := ref.Elem{Var: "?"}
	return []*ref.Node{
		ref.Ints(ref.I1, -128), ref.Ints(ref.I2, -2, 3), ref.Ints(ref.I4), ref.Ints(ref.I8, math.MinInt64),
		ref.Uints(ref.U1, 255), ref.Uints(ref.U2, 256, 1), ref.Uints(ref.U4, math.MaxUint32), ref.Uints(ref.U8, math.MaxUint64),
		ref.Floats(ref.F4, -1.5), ref.Floats(ref.F4, math.MaxFloat32), ref.Floats(ref.F8, 0.1, 1e300), ref.Floats(ref.F8, math.SmallestNonzeroFloat64),
		ref.Bin(0x80, 0x7f), ref.Bin(), ref.Bools(true, false), ref.Ascii("ab"), ref.Ascii(""), ref.Ascii("\x00q\"\\ //\x7f"), ref.List(),
		v(ref.I2, q, ref.Elem{I: 5}), v(ref.U1, ref.Elem{U: 5}, q), v(ref.U4, q, q, q), v(ref.F4, q), v(ref.F8, ref.Elem{F: 1.5}, q),
		v(ref.B, q, ref.Elem{U: 1}), v(ref.BOOLEAN, q, ref.Elem{T: true}), v(ref.I8, q),
		ref.AsciiVar("?", 0, -1), ref.AsciiVar("?", 2, 2), ref.AsciiVar("?", 1, -1), ref.AsciiVar("?", 0, 3), ref.AsciiVar("?", 1, 3),
		ref.Var("?"), ref.Ell("?"),
	}
}

// nameTemplate assigns v0,v1,... and ...[k] in order of appearance (what SML
// text can express) and reports whether the template is constructible: the root
// is an item, no list starts with an ellipsis or holds two.
func nameTemplate(n *ref.Node) bool {
	vc, ec := 0, 0
	if n.Kind == ref.VAR || n.Kind == ref.ELLIPSIS {
		return false
	}
	var rec func(n *ref.Node) bool
	rec = func(n *ref.Node) bool {
		switch n.Kind {
		case ref.L:
			ell := 0
			for i, c := range n.Children {
				if c.Kind == ref.ELLIPSIS {
					ell++
					if i == 0 || ell > 1 {
						return false
					}
				}
				if !rec(c) {
					return false
				}
			}
		case ref.VAR:
			n.Name = fmt.Sprintf("v%d", vc)
			vc++
		case ref.ELLIPSIS:
			n.Name = fmt.Sprintf("...[%d]", ec)
			ec++
		case ref.A:
			if n.AVar != nil {
				n.AVar.Name = fmt.Sprintf("v%d", vc)
				vc++
			}
		default:
			for i := range n.Elems {
				if n.Elems[i].Var != "" {
					n.Elems[i].Var = fmt.Sprintf("v%d", vc)
					vc++
				}
			}
		}
		return true
	}
	return rec(n)
}
