package props

import (
	"fmt"
	"reflect"
	"sort"
	"strings"

	"github.com/wolimst/lib-secs2-hsms-go/pkg/ast"
	"github.com/wolimst/lib-secs2-hsms-go/pkg/parser/hsms"

	h "verif/internal/harness"
)

// C11 — immutability and no aliasing: explicit-state BFS over API histories on a
// growing pool of objects, interleaved with in-place mutation of every argument
// and every returned slice; the invariant (all snapshots unchanged) is evaluated
// in every state.

type wobj struct {
	msg   *ast.DataMessage
	ctl   ast.HSMSMessage
	item  ast.ItemNode
	snap  string // snapshot at creation
	birth string
}

type wheld struct {
	v    []interface{} // a value list passed to a variadic factory
	vk   int           // which factory it is meant for
	b    []byte
	s    []string
	m    map[string]interface{}
	from string
}

type world struct {
	objs []wobj
	held []wheld
}

func snapshotOf(o wobj) string { return snapshot(o, true) }

// snapshot renders the observable state; withCompletions adds what the object turns into when filled.
func snapshot(o wobj, withCompletions bool) string {
	switch {
	case o.msg != nil:
		m := o.msg
		s := fmt.Sprintf("MSG name=%q S%dF%d W=%s dir=%s sid=%d sys=%x hdr=%q str=%q bytes=%x vars=%q type=%s",
			m.Name(), m.StreamCode(), m.FunctionCode(), m.WaitBit(), m.Direction(), m.SessionID(), m.SystemBytes(), m.Header(), m.String(), m.ToBytes(), m.Variables(), m.Type())
		if withCompletions {
			s += completions(m.Variables(), func(f map[string]interface{}) string { return m.FillVariables(f).String() })
		}
		return s
	case o.ctl != nil:
		return fmt.Sprintf("CTL type=%s bytes=%x", o.ctl.Type(), o.ctl.ToBytes())
	default:
		s := fmt.Sprintf("ITEM %T str=%q bytes=%x vars=%q size=%d", o.item, itemString(o.item), o.item.ToBytes(), o.item.Variables(), o.item.Size())
		if a, ok := o.item.(*ast.ASCIINode); ok {
			mn, mx := a.FillInStringLength()
			s += fmt.Sprintf(" bounds=%d,%d", mn, mx)
		}
		if withCompletions {
			s += completions(o.item.Variables(), func(f map[string]interface{}) string { return itemString(o.item.FillVariables(f)) })
		}
		return s
	}
}

// completions is the part of an object's observable state that only later fills show: what the
// object turns into when every variable is given a value (two different value sets).
func completions(vars []string, fill func(map[string]interface{}) string) string {
	if len(vars) == 0 {
		return ""
	}
	out := ""
	for _, alt := range []bool{false, true} {
		func() {
			defer func() {
				if r := recover(); r != nil {
					out += fmt.Sprintf(" completion(alt=%v) refused: %v", alt, r)
				}
			}()
			out += fmt.Sprintf(" completion(alt=%v)=%q", alt, fill(fillMapAlt(vars, true, alt)))
		}()
	}
	return out
}

// valsFor builds the value list for factory kind k: a literal, a variable, a literal.
func valsFor(k int) []interface{} {
	switch k {
	case 2:
		return []interface{}{1.5, "f2", 2.5}
	case 4:
		return []interface{}{true, "t4", false}
	case 5:
		return []interface{}{ast.NewUintNode(1, 1), "n5", ast.NewASCIINode("q")}
	}
	return []interface{}{1, fmt.Sprintf("i%d", k), 3}
}

// fromVals calls factory k with the caller's slice as its variadic argument (no copy is made by the call).
func fromVals(k int, v []interface{}) ast.ItemNode {
	switch k {
	case 0:
		return ast.NewIntNode(2, v...)
	case 1:
		return ast.NewUintNode(1, v...)
	case 2:
		return ast.NewFloatNode(8, v...)
	case 3:
		return ast.NewBinaryNode(v...)
	case 4:
		return ast.NewBooleanNode(v...)
	}
	return ast.NewListNode(v...)
}

func (w *world) add(o wobj, birth string) {
	o.birth = birth
	o.snap = snapshotOf(o)
	w.objs = append(w.objs, o)
}

func (w *world) hold(x wheld) int {
	w.held = append(w.held, x)
	return len(w.held) - 1
}

// wop is one transition of the alphabet.
type wop struct {
	code    string
	a, b, p int
}

func (o wop) String() string { return fmt.Sprintf("%s(%d,%d,%d)", o.code, o.a, o.b, o.p) }

const poolCap, heldCap = 9, 9

// freshBuf makes a caller-owned buffer with spare capacity.
func freshBuf(kind int) []byte {
	b := make([]byte, 0, 16)
	switch kind {
	case 0:
		return b
	case 1:
		return append(b, 0xA1, 0xA2, 0xA3)
	case 2:
		return append(b, 0xB1, 0xB2, 0xB3, 0xB4)
	default:
		return append(b, 0xC1, 0xC2, 0xC3, 0xC4, 0xC5, 0xC6)
	}
}

// enabled lists the transitions available in a world.
func (w *world) enabled() []wop {
	var ops []wop
	room := len(w.objs) < poolCap
	hroom := len(w.held) < heldCap
	for i, o := range w.objs {
		switch {
		case o.msg != nil:
			if room {
				ops = append(ops, wop{"setw", i, 0, 1}, wop{"setw", i, 0, 0})
				for k := 0; k < 4; k++ {
					if hroom {
						ops = append(ops, wop{"sess-fresh", i, k, 77})
					}
				}
				for j, hd := range w.held {
					if hd.b != nil {
						ops = append(ops, wop{"sess-held", i, j, 65535})
					}
				}
				if len(o.msg.Variables()) > 0 && hroom {
					ops = append(ops, wop{"fill-first", i, 0, 0}, wop{"fill-all", i, 0, 0}, wop{"fill-first", i, 0, 1}, wop{"fill-all", i, 0, 1})
				}
				for j, hd := range w.held {
					if hd.m != nil {
						ops = append(ops, wop{"fill-held", i, j, 0})
					}
				}
				if hroom && len(o.msg.ToBytes()) > 0 {
					ops = append(ops, wop{"parse", i, 0, 0})
				}
			}
			if hroom {
				ops = append(ops, wop{"obs-sys", i, 0, 0}, wop{"obs-bytes", i, 0, 0}, wop{"obs-vars", i, 0, 0})
			}
		case o.ctl != nil:
			if hroom {
				ops = append(ops, wop{"obs-bytes", i, 0, 0})
			}
			if room && o.ctl.Type() == "select.req" {
				ops = append(ops, wop{"select-rsp", i, 0, 0})
			}
			if room && o.ctl.Type() == "linktest.req" {
				ops = append(ops, wop{"linktest-rsp", i, 0, 0})
			}
		default:
			if hroom {
				ops = append(ops, wop{"obs-bytes", i, 0, 0}, wop{"obs-vars", i, 0, 0})
			}
			if room {
				if len(o.item.Variables()) > 0 && hroom {
					ops = append(ops, wop{"fill-first", i, 0, 0}, wop{"fill-all", i, 0, 0}, wop{"fill-first", i, 0, 1}, wop{"fill-all", i, 0, 1})
				}
				for j, hd := range w.held {
					if hd.m != nil {
						ops = append(ops, wop{"fill-held", i, j, 0})
					}
				}
				for j, o2 := range w.objs {
					if o2.item != nil && j >= i {
						ops = append(ops, wop{"list2", i, j, 0})
					}
				}
				if len(o.item.Variables()) == 0 && hroom {
					ops = append(ops, wop{"new-hsms", i, 2, 0})
				}
				ops = append(ops, wop{"new-msg", i, 0, 0}, wop{"wrap-var", i, 0, len(w.objs)})
			}
		}
	}
	for j, hd := range w.held {
		switch {
		case hd.b != nil:
			ops = append(ops, wop{"mut-xor", j, 0, 0}, wop{"mut-append", j, 0, 0})
			if room && len(hd.b) >= 14 {
				ops = append(ops, wop{"parse-held", j, 0, 0})
			}
			if room {
				ops = append(ops, wop{"ctl-from-held", j, 0, 0})
			}
		case hd.s != nil:
			ops = append(ops, wop{"mut-strs", j, 0, 0})
		case hd.m != nil:
			ops = append(ops, wop{"map-overwrite", j, 0, 0}, wop{"map-delete", j, 0, 0}, wop{"map-insert", j, 0, 0})
		case hd.v != nil:
			ops = append(ops, wop{"mut-vals", j, 0, 0})
			if room {
				ops = append(ops, wop{"item-from-vals", j, 0, 0})
			}
		}
	}
	return ops
}

// fillMapFor builds a fill map for an object's variables from in-domain values by position in the printed form.
func fillMapFor(vars []string, all bool, it interface{ String() string }) map[string]interface{} {
	return fillMapAlt(vars, all, false)
}

// fillMapAlt: alt=true gives a second, different in-domain value for every variable.
func fillMapAlt(vars []string, all bool, alt bool) map[string]interface{} {
	m := map[string]interface{}{}
	for i, v := range vars {
		if i > 0 && !all {
			break
		}
		if alt {
			switch {
			case strings.HasPrefix(v, "..."):
				m[v] = 0
			case strings.HasPrefix(v, "s"):
				m[v] = "z"
			case strings.HasPrefix(v, "n"):
				m[v] = ast.NewASCIINode("alt")
			case strings.HasPrefix(v, "f"):
				m[v] = -2.25
			case strings.HasPrefix(v, "t"):
				m[v] = false
			default:
				m[v] = 8
			}
			continue
		}
		switch {
		case strings.HasPrefix(v, "..."):
			m[v] = 1
		case strings.HasPrefix(v, "s"): // ascii variables are named s*
			m[v] = "ab"
		case strings.HasPrefix(v, "n"): // list variables are named n*
			m[v] = ast.NewBooleanNode(true)
		case strings.HasPrefix(v, "f"):
			m[v] = 1.5
		case strings.HasPrefix(v, "t"):
			m[v] = true
		default:
			m[v] = 3
		}
	}
	return m
}

// apply executes one transition (a panic inside the library leaves the world as it is).
func (w *world) apply(o wop) (pan string) {
	defer func() {
		if r := recover(); r != nil {
			pan = fmt.Sprint(r)
		}
	}()
	birth := o.String()
	switch o.code {
	case "setw":
		w.add(wobj{msg: w.objs[o.a].msg.SetWaitBit(o.p == 1)}, birth)
	case "sess-fresh":
		b := freshBuf(o.b)
		w.hold(wheld{b: b, from: birth})
		w.add(wobj{msg: w.objs[o.a].msg.SetSessionIDAndSystemBytes(o.p, b)}, birth)
	case "sess-held":
		w.add(wobj{msg: w.objs[o.a].msg.SetSessionIDAndSystemBytes(o.p, w.held[o.b].b)}, birth)
	case "fill-first", "fill-all":
		ob := w.objs[o.a]
		if ob.msg != nil {
			m := fillMapAlt(ob.msg.Variables(), o.code == "fill-all", o.p == 1)
			w.hold(wheld{m: m, from: birth})
			w.add(wobj{msg: ob.msg.FillVariables(m)}, birth)
		} else {
			m := fillMapAlt(ob.item.Variables(), o.code == "fill-all", o.p == 1)
			w.hold(wheld{m: m, from: birth})
			w.add(wobj{item: ob.item.FillVariables(m)}, birth)
		}
	case "fill-held":
		ob := w.objs[o.a]
		if ob.msg != nil {
			w.add(wobj{msg: ob.msg.FillVariables(w.held[o.b].m)}, birth)
		} else {
			w.add(wobj{item: ob.item.FillVariables(w.held[o.b].m)}, birth)
		}
	case "parse":
		b := w.objs[o.a].msg.ToBytes()
		buf := append(make([]byte, 0, len(b)+8), b...)
		w.hold(wheld{b: buf, from: birth})
		if m, ok := hsms.Parse(buf); ok {
			if dm, isD := m.(*ast.DataMessage); isD {
				w.add(wobj{msg: dm}, birth)
			} else {
				w.add(wobj{ctl: m}, birth)
			}
		}
	case "parse-held":
		if m, ok := hsms.Parse(w.held[o.a].b); ok && m != nil {
			if dm, isD := m.(*ast.DataMessage); isD {
				w.add(wobj{msg: dm}, birth)
			} else {
				w.add(wobj{ctl: m}, birth)
			}
		}
	case "obs-sys":
		w.hold(wheld{b: w.objs[o.a].msg.SystemBytes(), from: birth})
	case "obs-bytes":
		ob := w.objs[o.a]
		var b []byte
		switch {
		case ob.msg != nil:
			b = ob.msg.ToBytes()
		case ob.ctl != nil:
			b = ob.ctl.ToBytes()
		default:
			b = ob.item.ToBytes()
		}
		if b == nil {
			b = []byte{}
		}
		w.hold(wheld{b: b, from: birth})
	case "obs-vars":
		ob := w.objs[o.a]
		var s []string
		if ob.msg != nil {
			s = ob.msg.Variables()
		} else {
			s = ob.item.Variables()
		}
		if s == nil {
			s = []string{}
		}
		w.hold(wheld{s: s, from: birth})
	case "select-rsp":
		w.add(wobj{ctl: ast.NewHSMSMessageSelectRsp(w.objs[o.a].ctl, 0)}, birth)
	case "linktest-rsp":
		w.add(wobj{ctl: ast.NewHSMSMessageLinktestRsp(w.objs[o.a].ctl)}, birth)
	case "list2":
		w.add(wobj{item: ast.NewListNode(w.objs[o.a].item, ast.NewASCIINode("mid"), w.objs[o.b].item)}, birth)
	case "new-hsms":
		b := freshBuf(o.b)
		w.hold(wheld{b: b, from: birth})
		w.add(wobj{msg: ast.NewHSMSDataMessage("h", 1, 3, 1, "H->E", w.objs[o.a].item, 12, b)}, birth)
	case "wrap-var":
		w.add(wobj{item: ast.NewListNode(w.objs[o.a].item, fmt.Sprintf("nw%d", o.p))}, birth)
	case "new-msg":
		w.add(wobj{msg: ast.NewDataMessage("d", 2, 5, 2, "H<-E", w.objs[o.a].item)}, birth)
	case "ctl-from-held":
		b := w.held[o.a].b
		if len(b) > 10 {
			b = b[:10]
		}
		w.add(wobj{ctl: ast.NewHSMSControlMessage(b)}, birth)
	case "mut-xor":
		for i := range w.held[o.a].b {
			w.held[o.a].b[i] ^= 0xFF
		}
	case "mut-append":
		b := w.held[o.a].b
		if cap(b) > len(b) {
			ext := b[:cap(b)]
			for i := len(b); i < len(ext); i++ {
				ext[i] ^= 0x5A
			}
			w.held[o.a].b = append(b, 0xEE)
		}
	case "mut-strs":
		for i := range w.held[o.a].s {
			w.held[o.a].s[i] = "mutated" + w.held[o.a].s[i]
		}
		s := w.held[o.a].s
		if cap(s) > len(s) {
			s = s[:cap(s)]
			for i := range s {
				s[i] = "z" + s[i]
			}
		}
	case "map-overwrite":
		for k, v := range w.held[o.a].m {
			switch v.(type) {
			case int:
				w.held[o.a].m[k] = 4
			case string:
				w.held[o.a].m[k] = "zz"
			default:
				w.held[o.a].m[k] = 0
			}
		}
	case "map-delete":
		for k := range w.held[o.a].m {
			delete(w.held[o.a].m, k)
		}
	case "item-from-vals":
		w.add(wobj{item: fromVals(w.held[o.a].vk, w.held[o.a].v)}, birth)
	case "mut-vals":
		for i, x := range w.held[o.a].v {
			switch t := x.(type) {
			case int:
				w.held[o.a].v[i] = t + 4
			case float64:
				w.held[o.a].v[i] = t + 4
			case bool:
				w.held[o.a].v[i] = !t
			case string:
				w.held[o.a].v[i] = t + "m"
			default:
				w.held[o.a].v[i] = ast.NewBinaryNode(9)
			}
		}
	case "map-insert":
		w.held[o.a].m["i0"] = 9
		w.held[o.a].m["extra"] = "x"
	}
	return ""
}

// invariant: every pooled object still shows its creation snapshot, and observers are idempotent.
func (w *world) invariant() (int, string) {
	for i, o := range w.objs {
		now := snapshotOf(o)
		if now != o.snap {
			return i, fmt.Sprintf("object %d (created by %s) changed:\n was %s\n now %s", i, o.birth, o.snap, now)
		}
		if again := snapshot(o, false); !strings.HasPrefix(now, again) {
			return i, fmt.Sprintf("object %d: two consecutive observations differ:\n %s\n %s", i, now, again)
		}
	}
	return -1, ""
}

// backing address of a byte slice (0 for empty).
func addrOf(b []byte) uintptr {
	if cap(b) == 0 {
		return 0
	}
	return reflect.ValueOf(b[:1:1]).Pointer()
}

// key: canonical state key = sorted object snapshots + held contents + alias graph
// (which private byte arrays share a backing array with which held buffer / other object).
func (w *world) key() string {
	var objs, helds, alias []string
	addrs := map[uintptr][]string{}
	for i, o := range w.objs {
		objs = append(objs, o.snap)
		var p []byte
		switch {
		case o.msg != nil:
			p = privateField(o.msg, "systemBytes").Bytes()
		case o.ctl != nil:
			if cm, ok := o.ctl.(*ast.ControlMessage); ok {
				p = privateField(cm, "header").Bytes()
			}
		}
		if a := addrOf(p); a != 0 {
			addrs[a] = append(addrs[a], fmt.Sprintf("o:%s", o.snap[:min2(len(o.snap), 60)]))
		}
		_ = i
	}
	for _, hd := range w.held {
		switch {
		case hd.b != nil:
			helds = append(helds, fmt.Sprintf("b:%x/%d", hd.b, cap(hd.b)-len(hd.b)))
			if a := addrOf(hd.b); a != 0 {
				addrs[a] = append(addrs[a], fmt.Sprintf("h:%x", hd.b))
			}
		case hd.s != nil:
			helds = append(helds, fmt.Sprintf("s:%q", hd.s))
		case hd.v != nil:
			var vs []string
			for _, x := range hd.v {
				if it, ok := x.(ast.ItemNode); ok {
					vs = append(vs, "item:"+itemString(it))
				} else {
					vs = append(vs, fmt.Sprintf("%T:%v", x, x))
				}
			}
			helds = append(helds, fmt.Sprintf("v%d:%s", hd.vk, strings.Join(vs, ",")))
		default:
			var ks []string
			for k, v := range hd.m {
				if it, ok := v.(ast.ItemNode); ok {
					ks = append(ks, k+"=item:"+itemString(it))
				} else {
					ks = append(ks, fmt.Sprintf("%s=%T:%v", k, v, v))
				}
			}
			sort.Strings(ks)
			helds = append(helds, "m:"+strings.Join(ks, ","))
		}
	}
	for _, g := range addrs {
		if len(g) > 1 {
			sort.Strings(g)
			alias = append(alias, strings.Join(g, "~"))
		}
	}
	sort.Strings(objs)
	sort.Strings(helds)
	sort.Strings(alias)
	return strings.Join(objs, "\n") + "\n#\n" + strings.Join(helds, "\n") + "\n#\n" + strings.Join(alias, "\n")
}

func min2(a, b int) int {
	if a < b {
		return a
	}
	return b
}

// c11Roots builds the initial pools; each call returns fresh objects.
var c11RootNames = []string{"complete-message-with-caller-owned-system-bytes", "incomplete-message-two-variables", "list-template-shared-by-two-messages",
	"control-message-from-caller-owned-header", "decoded-message-with-kept-input-buffer", "items-of-every-kind", "empty-items-of-several-kinds", "lists-with-1-to-4-variables", "decoded-message-with-long-items-and-kept-buffer", "optional-wait-bit-message-otherwise-complete",
	"numeric-items-built-from-caller-owned-value-lists", "boolean-binary-list-items-built-from-caller-owned-value-lists"}

func c11Root(i int) *world {
	w := &world{}
	switch i {
	case 0:
		b := freshBuf(2)
		w.hold(wheld{b: b, from: "root"})
		it := ast.NewListNode(ast.NewUintNode(2, 1, 2), ast.NewASCIINode("x"))
		w.add(wobj{item: it}, "root")
		w.add(wobj{msg: ast.NewHSMSDataMessage("m", 6, 11, 1, "H<-E", it, 258, b)}, "root")
	case 1:
		it := ast.NewListNode(ast.NewIntNode(2, "i0", 5), ast.NewASCIINodeVariable("s1", 0, 4))
		w.add(wobj{item: it}, "root")
		w.add(wobj{msg: ast.NewDataMessage("t", 1, 3, 2, "H->E", it)}, "root")
	case 2:
		it := ast.NewListNode(ast.NewUintNode(1, "i0"), "n1", "...[0]")
		w.add(wobj{item: it}, "root")
		w.add(wobj{msg: ast.NewDataMessage("a", 1, 1, 1, "H->E", it)}, "root")
		w.add(wobj{msg: ast.NewDataMessage("b", 2, 2, 0, "H<-E", it).SetSessionIDAndSystemBytes(5, []byte{5, 5, 5, 5})}, "root")
	case 3:
		hb := append(make([]byte, 0, 16), 0x12, 0x34, 0, 0, 0, 1, 9, 8, 7, 6)
		w.hold(wheld{b: hb, from: "root"})
		w.add(wobj{ctl: ast.NewHSMSControlMessage(hb)}, "root")
		sb := freshBuf(2)
		w.hold(wheld{b: sb, from: "root"})
		w.add(wobj{ctl: ast.NewHSMSMessageLinktestReq(sb)}, "root")
	case 4:
		m0 := ast.NewHSMSDataMessage("", 3, 5, 1, "H<->E", ast.NewListNode(ast.NewBinaryNode(1, 2), ast.NewBooleanNode(true)), 7, []byte{1, 2, 3, 4})
		b := m0.ToBytes()
		buf := append(make([]byte, 0, len(b)+8), b...)
		w.hold(wheld{b: buf, from: "root"})
		m, _ := hsms.Parse(buf)
		w.add(wobj{msg: m.(*ast.DataMessage)}, "root")
	case 7:
		w.add(wobj{item: ast.NewListNode("n1")}, "root")
		w.add(wobj{item: ast.NewListNode("n1", "n2", "n3")}, "root")
		w.add(wobj{item: ast.NewListNode(ast.NewUintNode(1, "i1", "i2"), "n3", ast.NewASCIINodeVariable("s4", 0, -1))}, "root")
	case 8:
		long := strings.Repeat("long text ", 30)
		vals := make([]interface{}, 300)
		for i := range vals {
			vals[i] = i % 200
		}
		m0 := ast.NewHSMSDataMessage("", 3, 5, 1, "H<->E", ast.NewListNode(ast.NewASCIINode(long), ast.NewUintNode(1, vals...), ast.NewBinaryNode(vals...)), 7, []byte{1, 2, 3, 4})
		b := m0.ToBytes()
		buf := append(make([]byte, 0, len(b)+8), b...)
		w.hold(wheld{b: buf, from: "root"})
		m, _ := hsms.Parse(buf)
		w.add(wobj{msg: m.(*ast.DataMessage)}, "root")
	case 10, 11:
		for k := (i - 10) * 3; k < (i-10)*3+3; k++ {
			v := valsFor(k)
			w.hold(wheld{v: v, vk: k, from: "root"})
			w.add(wobj{item: fromVals(k, v)}, "root")
		}
	case 9:
		it := ast.NewListNode(ast.NewUintNode(2, 1, 2), ast.NewASCIINode("x"))
		w.add(wobj{msg: ast.NewDataMessage("opt", 1, 3, 2, "H->E", it).SetSessionIDAndSystemBytes(300, []byte{4, 3, 2, 1})}, "root")
	case 6:
		e := ast.NewListNode()
		w.add(wobj{item: e}, "root")
		w.add(wobj{item: ast.NewASCIINode("")}, "root")
		w.add(wobj{item: ast.NewUintNode(1)}, "root")
		w.add(wobj{item: ast.NewListNode(ast.NewListNode(), ast.NewBinaryNode(), ast.NewBooleanNode())}, "root")
		w.add(wobj{msg: ast.NewHSMSDataMessage("e", 1, 1, 0, "H->E", e, 1, []byte{1, 1, 1, 1})}, "root")
	default:
		w.add(wobj{item: ast.NewFloatNode(4, "f0", 1.5)}, "root")
		w.add(wobj{item: ast.NewBooleanNode("t0", true, "t1")}, "root")
		w.add(wobj{item: ast.NewBinaryNode("i0", "0b1")}, "root")
		w.add(wobj{item: ast.NewASCIINodeVariable("s0", 1, 3)}, "root")
	}
	return w
}

func replay(root int, hist []wop) *world {
	w := c11Root(root)
	for _, o := range hist {
		w.apply(o)
	}
	return w
}

func init() {
	h.Register(&h.Check{
		ID:          "C11",
		WatchdogSec: 1800, // one case is a whole BFS shard (minutes at depth 4); sub-cases tick, this is the ceiling for a single re-execution
		Rule:        "explicit-state BFS over API histories: a state is a pool of live objects plus every slice/map the caller still holds (arguments passed in, slices returned by SystemBytes/ToBytes/Variables); transitions are real producer/constructor/decoder calls and in-place mutations of the held values (overwrite, append within capacity, map insert/delete/overwrite); successors are built by replaying the history on fresh objects plus one transition; states are deduplicated by a canonical key (sorted observer snapshots, held contents, alias graph of private byte arrays read reflectively); invariant in every state: every existing object shows its creation snapshot and observers are idempotent; states = distinct canonical states",
		Build: func(tier string, seed int64) []h.Space {
			depth := 3
			if tier == "thorough" {
				depth = 4
			}
			// one BFS per (root, first transition): shards the search over the workers
			type shard struct {
				root int
				op   wop
			}
			var shards []shard
			for r := range c11RootNames {
				for _, o := range c11Root(r).enabled() {
					shards = append(shards, shard{r, o})
				}
			}
			return []h.Space{{Name: fmt.Sprintf("bfs-api-histories-depth%d", depth), Count: uint64(len(shards)), ChunkHint: 1,
				Describe: func(i uint64) interface{} {
					return fmt.Sprintf("BFS below root %q after first transition %s", c11RootNames[shards[i].root], shards[i].op)
				},
				Run: func(c *h.Ctx, i uint64) {
					sh := shards[i]
					seen := map[string]bool{}
					check := func(hist []wop) (string, bool) {
						w := replay(sh.root, hist[:len(hist)-1])
						if idx, why := w.invariant(); idx >= 0 {
							_ = why // a broken prefix was reported where it first appeared
							return "", false
						}
						pan := w.apply(hist[len(hist)-1])
						c.Ops(len(hist))
						c.Case(0, true, hist[len(hist)-1].code)
						if idx, why := w.invariant(); idx >= 0 {
							c.Fail("object-changed-after:"+hist[len(hist)-1].code, fmt.Sprintf("root %q, history %v", c11RootNames[sh.root], hist), why)
							return "", false
						}
						_ = pan
						return w.key(), true
					}
					frontier := [][]wop{}
					if k, ok := check([]wop{sh.op}); ok {
						seen[k] = true
						frontier = append(frontier, []wop{sh.op})
					}
					for d := 1; d < depth; d++ {
						var next [][]wop
						for _, hist := range frontier {
							w := replay(sh.root, hist)
							for _, o := range w.enabled() {
								nh := append(append([]wop{}, hist...), o)
								k, ok := check(nh)
								if ok && !seen[k] {
									seen[k] = true
									next = append(next, nh)
								}
							}
						}
						frontier = next
					}
					c.States += uint64(len(seen))
				}}}
		},
		Extra: func(tier string) map[string]interface{} {
			d := 3
			if tier == "thorough" {
				d = 4
			}
			return map[string]interface{}{"bfs_depth_completed": d, "pool_cap": poolCap, "held_cap": heldCap, "roots": c11RootNames}
		},
	})
}
