package props

import (
	"bytes"
	"fmt"

	"github.com/wolimst/lib-secs2-hsms-go/pkg/ast"
	"github.com/wolimst/lib-secs2-hsms-go/pkg/parser/hsms"

	h "verif/internal/harness"
	"verif/internal/ref"
)

// C03 — the decoder accepts exactly the well-formed messages: E2 deviations vs R-dec.

// parseSafe calls hsms.Parse and reports an escaped panic.
func parseSafe(x []byte) (m ast.HSMSMessage, ok bool, panicked string) {
	defer func() {
		if r := recover(); r != nil {
			m, ok, panicked = nil, false, fmt.Sprint(r)
		}
	}()
	m, ok = hsms.Parse(x)
	return m, ok, ""
}

func decIn(kind string, x []byte) string {
	return fmt.Sprintf("[%s] hsms.Parse(%s)", kind, h.Hex(x))
}

// decCompare runs the real decoder and the reference decoder on x and compares.
// kind labels the deviation for the violation class.
func decCompare(c *h.Ctx, kind string, x []byte) string {
	rm, verdict, why := ref.Decode(x)
	m, ok, pan := parseSafe(x)
	c.Ops(1)
	if pan != "" {
		c.Fail("panic-escaped:"+kind, decIn(kind, x), pan)
		return "panic"
	}
	switch verdict {
	case ref.Reject:
		if ok {
			got := "<nil>"
			if m != nil {
				got = fmt.Sprintf("%s %x", m.Type(), truncB(m.ToBytes(), 64))
			}
			c.Fail("accepted-malformed:"+why, decIn(kind, x), fmt.Sprintf("reference rejects (%s) but the decoder accepted it as %s", why, got))
			return "accepted-malformed"
		}
		return "reject:" + why
	case ref.Either:
		if !ok {
			return "either-rejected"
		}
		return "either-accepted" // data message nested beyond the documented limit
	}
	if !ok || m == nil {
		c.Fail("refused-wellformed:"+kind, decIn(kind, x), "reference accepts, decoder refused")
		return "refused-wellformed"
	}
	if rm.SType != 0 {
		want := append([]byte{0, 0, 0, 10}, x[4:14]...)
		if _, isCtl := m.(*ast.ControlMessage); !isCtl || m.Type() != ref.STypeName(rm.PType, rm.SType) || !bytes.Equal(m.ToBytes(), want) {
			c.Fail("control-misdecoded", decIn(kind, x), fmt.Sprintf("Type()=%s ToBytes()=%x", m.Type(), m.ToBytes()))
		}
		for j := range x {
			x[j] ^= 0xFF
		}
		got, typ := m.ToBytes(), m.Type()
		for j := range x {
			x[j] ^= 0xFF
		}
		if !bytes.Equal(got, want) || typ != ref.STypeName(rm.PType, rm.SType) {
			c.Fail("decoded-message-follows-the-receive-buffer:control", decIn(kind, x), fmt.Sprintf("after the input buffer was overwritten: Type()=%s ToBytes()=%x", typ, got))
		}
		return "accept-control"
	}
	dm, isData := m.(*ast.DataMessage)
	if !isData {
		c.Fail("data-decoded-as-control", decIn(kind, x), m.Type())
		return "bad"
	}
	if dm.StreamCode() != rm.Stream || dm.FunctionCode() != rm.Function || dm.WaitBit() != ref.WaitBitName(rm.W) ||
		dm.SessionID() != rm.Session || !bytes.Equal(dm.SystemBytes(), rm.System[:]) || dm.Type() != "data message" {
		c.Fail("header-misdecoded", decIn(kind, x), hsmsMsgFields(dm))
		return "bad"
	}
	wantBody := "."
	if rm.Item != nil {
		wantBody = ref.Print(rm.Item) + "\n."
	}
	if gb := body(dm.String()); gb != wantBody {
		c.Fail("item-misdecoded:"+kind, decIn(kind, x), fmt.Sprintf("decoded item prints %q, reference tree %q", trunc(gb, 400), trunc(wantBody, 400)))
		return "bad"
	}
	// re-encoding reproduces the input up to minimal length bytes and 0/1 booleans
	if want, got := ref.EncodeMsg(rm), dm.ToBytes(); !bytes.Equal(got, want) {
		c.Fail("reencode-differs:"+kind, decIn(kind, x), fmt.Sprintf("ToBytes()=%s want %s", h.Hex(got), h.Hex(want)))
		return "bad"
	}
	c.Ops(2)
	// the decoded message is a value: it still denotes the decoded bytes when the receive buffer is used again
	// (every byte of the input complemented in place, observed, restored)
	want := ref.EncodeMsg(rm)
	for j := range x {
		x[j] ^= 0xFF
	}
	got, sys, gb := dm.ToBytes(), dm.SystemBytes(), body(dm.String())
	for j := range x {
		x[j] ^= 0xFF
	}
	c.Ops(1)
	if !bytes.Equal(got, want) || !bytes.Equal(sys, rm.System[:]) || gb != wantBody {
		c.Fail("decoded-message-follows-the-receive-buffer:"+kind, decIn(kind, x), fmt.Sprintf("after the input buffer was overwritten: ToBytes()=%s want %s; SystemBytes()=%x", h.Hex(truncB(got, 64)), h.Hex(truncB(want, 64)), sys))
		return "bad"
	}
	return "accept-data"
}

var tails = [][]byte{{0x00}, {0x01}, {0x01, 0x00}, {0xA5, 0x01, 0x07}, {0xFF}, {0x01, 0x01, 0x00}}

func setLen(x []byte) []byte {
	n := len(x) - 4
	x[0], x[1], x[2], x[3] = byte(n>>24), byte(n>>16), byte(n>>8), byte(n)
	return x
}

// deviations applies every single deviation of E2 to the valid message b and
// calls f for each deviated input. fullBytes: replace every position by all 255
// other values (else header/format/length bytes + first/middle/last payload byte).
func deviations(b []byte, fullBytes, hdrBytes bool, f func(kind string, x []byte)) {
	cp := func() []byte { return append([]byte{}, b...) }
	// truncations
	for p := 0; p < len(b); p++ {
		f("truncate", cp()[:p])
		if p >= 4 {
			f("truncate+fixlen", setLen(cp()[:p]))
		}
	}
	// appended tails
	for _, t := range tails {
		f("append", append(cp(), t...))
		f("append+fixlen", setLen(append(cp(), t...)))
	}
	spans := ref.Spans(b[14:])
	// byte replacement
	interesting := map[int]bool{}
	if !fullBytes {
		for _, s := range spans {
			for q := 0; q <= s.NLen; q++ {
				interesting[14+s.Off+q] = true
			}
			if s.Kind != ref.L && s.Length > 0 {
				st := 14 + s.Off + 1 + s.NLen
				interesting[st], interesting[st+s.Length/2], interesting[st+s.Length-1] = true, true, true
			}
		}
	}
	for p := 0; p < len(b); p++ {
		if p < 14 && !hdrBytes {
			continue
		}
		if p >= 14 && !fullBytes && !interesting[p] {
			continue
		}
		x := cp()
		for v := 1; v < 256; v++ {
			x[p] = b[p] + byte(v)
			f("byte", x)
		}
	}
	// length-field substitution at each width
	for _, s := range spans {
		lens := []int{0, 1, s.Length - 1, s.Length + 1, 255, 256, 65535, 65536, 0xFFFFFF}
		for _, nl := range []int{1, 2, 3} {
			for _, l := range lens {
				if l < 0 || l >= 1<<(8*uint(nl)) || (l == s.Length && nl == s.NLen) {
					continue
				}
				x := append([]byte{}, b[:14+s.Off]...)
				x = append(x, b[14+s.Off]&^3|byte(nl))
				for i := nl - 1; i >= 0; i-- {
					x = append(x, byte(l>>(8*uint(i))))
				}
				x = append(x, b[14+s.Off+1+s.NLen:]...)
				f("lenfield", setLen(x))
			}
		}
	}
}

// lenChoices enumerates every assignment of 1/2/3 length bytes to n items.
func lenChoice(i uint64, n int) []int {
	ch := make([]int, n)
	for k := 0; k < n; k++ {
		ch[k] = int(i%3) + 1
		i /= 3
	}
	return ch
}

func pow3(n int) uint64 {
	p := uint64(1)
	for i := 0; i < n; i++ {
		p *= 3
	}
	return p
}

// interesting bytes for unstructured texts
var sym24 = func() []byte {
	s := []byte{}
	for _, k := range ref.Kinds {
		s = append(s, k.Code()<<2|1)
	}
	s = append(s, 0x00 /*list, 0 len bytes*/, 0x02 /*list 2 len bytes*/, 0x43 /*A 3 len*/, 0x0D /*undefined code 3*/, 0x7F, 0x80, 0xFF, 0x03, 0x04, 0x08)
	return s
}()

func hdr(stream, fn byte, text []byte) []byte {
	x := []byte{0, 0, 0, 0, 0, 1, stream, fn, 0, 0, 0, 0, 0, 1}
	return setLen(append(x, text...))
}

func init() {
	h.Register(&h.Check{
		ID:   "C03",
		Rule: "bound 0: every valid encoding of every tree in scope under every assignment of 1/2/3 length bytes; bound 1: every single deviation of those (every truncation point, appended tails, every byte position x every other value, every length-field substitution), with and without repairing the message length; unstructured: all texts up to k bytes over the full byte alphabet and over a 24-symbol alphabet of format/length bytes, and the (PType,SType,length) header product; each input is decoded by the real decoder and by the strict reference decoder and the verdicts/trees/re-encodings compared; non-trivial = distinct input on which the two decoders were compared",
		Build: func(tier string, seed int64) []h.Space {
			var sp []h.Space
			// bound 0 over the C01 tree space, all length-byte assignments
			N0 := 4
			ts0 := NewTreeScope(leafAlphabet(), N0, 3, 3)
			sp = append(sp, h.Space{Name: "bound0-valid-encodings-all-length-forms", Count: ts0.Count(),
				Describe: func(i uint64) interface{} { return "all 1/2/3-length-byte encodings of " + ref.Print(ts0.Nth(i)) },
				Run: func(c *h.Ctx, i uint64) {
					n := ts0.Nth(i)
					cnt := n.Count()
					rm := &ref.Msg{Stream: 5, Function: 7, W: 1, Session: 258, System: [4]byte{1, 2, 3, 4}, Item: n}
					for v := uint64(0); v < pow3(cnt); v++ {
						x := ref.EncodeMsgLen(rm, lenChoice(v, cnt))
						if x == nil {
							continue
						}
						out := decCompare(c, "valid", x)
						if out != "accept-data" && out != "bad" {
							c.Fail("valid-encoding-not-accepted", h.Hex(x), out)
						}
						c.Case(0, true, out)
					}
				}})
			// bound 1: every single deviation (all text byte positions x all 255 other values, ...)
			atoms1, W1 := smallLeafAlphabet(), 2
			variants := uint64(1)
			if tier == "thorough" {
				atoms1, W1 = leafAlphabet(), 2
				variants = 27 // every length-form assignment of up to 3 items
			}
			ts1 := NewTreeScope(atoms1, 3, 3, W1)
			sp = append(sp, h.Space{Name: "bound1-single-deviations", Count: ts1.Count() * variants,
				Describe: func(i uint64) interface{} {
					return fmt.Sprintf("every single deviation of length-form %d of %s", i%variants, ref.Print(ts1.Nth(i/variants)))
				},
				Run: func(c *h.Ctx, i uint64) {
					n := ts1.Nth(i / variants)
					rm := &ref.Msg{Stream: 5, Function: 7, W: 1, Session: 258, System: [4]byte{1, 2, 3, 4}, Item: n}
					var x []byte
					if variants == 1 {
						x = ref.EncodeMsg(rm)
					} else {
						v := i % variants
						if v >= pow3(n.Count()) {
							return
						}
						x = ref.EncodeMsgLen(rm, lenChoice(v, n.Count()))
						if x == nil {
							return
						}
					}
					// header bytes x all values are independent of the tree: done for the first 64 messages
					deviations(x, true, i < 64, func(kind string, y []byte) {
						out := decCompare(c, kind, y)
						c.Case(h.Digest(y), true, out)
					})
				}})
			// bound 1 on the full leaf alphabet / larger trees: structural bytes (format, length, first/middle/last payload byte)
			ts1b := NewTreeScope(leafAlphabet(), 3, 3, 2)
			if tier == "thorough" {
				ts1b = NewTreeScope(smallLeafAlphabet(), 4, 3, 3)
			}
			sp = append(sp, h.Space{Name: "bound1-structural-bytes", Count: ts1b.Count(),
				Describe: func(i uint64) interface{} { return "every structural single deviation of " + ref.Print(ts1b.Nth(i)) },
				Run: func(c *h.Ctx, i uint64) {
					rm := &ref.Msg{Stream: 0, Function: 0, W: 0, Session: 0, Item: ts1b.Nth(i)}
					deviations(ref.EncodeMsg(rm), false, false, func(kind string, y []byte) {
						c.Case(h.Digest(y), true, decCompare(c, kind, y))
					})
				}})
			if tier == "thorough" {
				// bound 2: all pairs of byte replacements over a value alphabet + all pairs (deviation, deviation) on small messages
				ts2 := NewTreeScope(smallLeafAlphabet(), 2, 2, 1)
				vals := []byte{0x00, 0x01, 0x02, 0x03, 0x7F, 0x80, 0xFF, 0x21, 0x41, 0xA5, 0x05, 0x06}
				sp = append(sp, h.Space{Name: "bound2-pairs-of-deviations", Count: ts2.Count(),
					Describe: func(i uint64) interface{} { return "every pair of deviations of " + ref.Print(ts2.Nth(i)) },
					Run: func(c *h.Ctx, i uint64) {
						rm := &ref.Msg{Stream: 1, Function: 1, W: 1, Session: 1, Item: ts2.Nth(i)}
						x := ref.EncodeMsg(rm)
						if len(x) > 24 {
							return
						}
						deviations(x, true, true, func(k1 string, y []byte) {
							if k1 == "byte" {
								return // byte x byte pairs are enumerated below over the value alphabet
							}
							y1 := append([]byte{}, y...)
							for p := 0; p < len(y1); p++ {
								old := y1[p]
								for _, v := range vals {
									if v == old {
										continue
									}
									y1[p] = v
									c.Case(h.Digest(y1), true, decCompare(c, k1+"+byte", y1))
								}
								y1[p] = old
							}
						})
						for p := 0; p < len(x); p++ {
							for q := p + 1; q < len(x); q++ {
								y := append([]byte{}, x...)
								for _, v := range vals {
									for _, w := range vals {
										if v == x[p] || w == x[q] {
											continue
										}
										y[p], y[q] = v, w
										c.Case(h.Digest(y), true, decCompare(c, "byte+byte", y))
									}
								}
							}
						}
					}})
			}
			// unstructured texts over the full byte alphabet
			kFull := 2
			if tier == "thorough" {
				kFull = 3
			}
			var cntFull uint64
			for k := 0; k <= kFull; k++ {
				cntFull += uint64(1) << uint(8*k)
			}
			textFull := func(i uint64) []byte {
				for k := 0; ; k++ {
					n := uint64(1) << uint(8*k)
					if i < n {
						t := make([]byte, k)
						for j := k - 1; j >= 0; j-- {
							t[j] = byte(i)
							i >>= 8
						}
						return t
					}
					i -= n
				}
			}
			sp = append(sp, h.Space{Name: fmt.Sprintf("unstructured-all-texts-le%d-bytes", kFull), Count: cntFull,
				Describe: func(i uint64) interface{} { return fmt.Sprintf("valid header + text %x", textFull(i)) },
				Run: func(c *h.Ctx, i uint64) {
					c.Case(0, true, decCompare(c, "unstructured", hdr(3, 5, textFull(i))))
				}})
			k24 := 5
			if tier == "thorough" {
				k24 = 6
			}
			var cnt24 uint64
			p24 := uint64(1)
			for k := 0; k <= k24; k++ {
				cnt24 += p24
				p24 *= uint64(len(sym24))
			}
			text24 := func(i uint64) []byte {
				n := uint64(1)
				for k := 0; ; k++ {
					if i < n {
						t := make([]byte, k)
						for j := k - 1; j >= 0; j-- {
							t[j] = sym24[i%uint64(len(sym24))]
							i /= uint64(len(sym24))
						}
						return t
					}
					i -= n
					n *= uint64(len(sym24))
				}
			}
			sp = append(sp, h.Space{Name: fmt.Sprintf("unstructured-24-symbol-texts-le%d", k24), Count: cnt24,
				Describe: func(i uint64) interface{} { return fmt.Sprintf("valid header + text %x", text24(i)) },
				Run: func(c *h.Ctx, i uint64) {
					c.Case(0, true, decCompare(c, "unstructured", hdr(3, 5, text24(i))))
				}})
			// header sweep: PType x SType x {10, 11 (one text byte), 13 (a valid item)} x W/function parity
			bodies := [][]byte{{}, {0x00}, {0xA5, 0x01, 0x07}, {0x21, 0x00}}
			sp = append(sp, h.Space{Name: "header-ptype-stype-body-wbit", Count: product(256, 256, len(bodies), 4),
				Describe: func(i uint64) interface{} {
					d := unrank(i, 256, 256, len(bodies), 4)
					return fmt.Sprintf("PType %d SType %d body %x byte2=%02x function=%d", d[0], d[1], bodies[d[2]], []byte{0x81, 0x01, 0x81, 0xFF}[d[3]], []byte{1, 2, 2, 255}[d[3]])
				},
				Run: func(c *h.Ctx, i uint64) {
					d := unrank(i, 256, 256, len(bodies), 4)
					x := []byte{0, 0, 0, 0, 0xAB, 0xCD, []byte{0x81, 0x01, 0x81, 0xFF}[d[3]], []byte{1, 2, 2, 255}[d[3]], byte(d[0]), byte(d[1]), 9, 8, 7, 6}
					x = setLen(append(x, bodies[d[2]]...))
					c.Case(0, true, decCompare(c, "header", x))
				}})
			// the documented nesting limit: up to ref.NestingLimit nested lists a well-formed message is accepted and
			// re-encodes to itself, beyond it either answer is taken (the printed form of such a tree is not compared:
			// printing it costs depth^2 characters)
			nestDepths := []int{1, 2, 3, 10, 100, 1000, 4096, ref.NestingLimit - 1, ref.NestingLimit, ref.NestingLimit + 1, ref.NestingLimit + 2}
			nestShapes := []string{"L[1] chain around <U1 7>", "L[1] chain ending in L[0]", "L[2] chain: every list holds <A \"x\"> and the next list, innermost L[0]", "L[2] chain: every list holds the next list and then <B 1>, innermost <BOOLEAN T>", "one list of that many empty lists (siblings: nesting depth 2)"}
			sp = append(sp, h.Space{Name: "nesting-depth-boundary", Count: product(len(nestDepths), len(nestShapes)), ChunkHint: 1,
				Describe: func(i uint64) interface{} {
					d := unrank(i, len(nestDepths), len(nestShapes))
					return fmt.Sprintf("%d nested lists, %s", nestDepths[d[0]], nestShapes[d[1]])
				},
				Run: func(c *h.Ctx, i uint64) {
					d := unrank(i, len(nestDepths), len(nestShapes))
					depth := nestDepths[d[0]]
					var text, tail []byte
					switch d[1] {
					case 0:
						text = bytes.Repeat([]byte{0x01, 0x01}, depth)
						text = append(text, 0xA5, 0x01, 0x07)
					case 1:
						text = bytes.Repeat([]byte{0x01, 0x01}, depth-1)
						text = append(text, 0x01, 0x00)
					case 2:
						text = bytes.Repeat([]byte{0x01, 0x02, 0x41, 0x01, 'x'}, depth-1)
						text = append(text, 0x01, 0x00)
					case 3:
						text = bytes.Repeat([]byte{0x01, 0x02}, depth)
						text = append(text, 0x25, 0x01, 0x01)
						tail = bytes.Repeat([]byte{0x21, 0x01, 0x01}, depth)
					case 4:
						text = append(ref.ItemHeader(ref.L, depth, 0), bytes.Repeat([]byte{0x01, 0x00}, depth)...)
					}
					nesting := depth
					if d[1] == 4 {
						nesting = 2
					}
					x := hdr(1, 1, append(text, tail...))
					desc := fmt.Sprintf("%d nested lists, %s (%d bytes)", depth, nestShapes[d[1]], len(x))
					m, ok, pan := parseSafe(x)
					c.Ops(1)
					switch {
					case pan != "":
						c.Fail("panic-escaped:nesting", desc, pan)
					case nesting > ref.NestingLimit:
						// the statement names no nesting bound: a refusal here is a (listed) finding, not a don't-care
						if !ok {
							c.Fail("refused-wellformed:nested-deeper-than-the-documented-limit", desc, fmt.Sprintf("well-formed message with %d nested lists refused (limit %d)", nesting, ref.NestingLimit))
						} else if !bytes.Equal(m.ToBytes(), x) {
							c.Fail("reencode-differs:nesting", desc, "accepted beyond the limit but re-encodes differently")
						}
						c.Case(0, true, fmt.Sprintf("beyond-limit-accepted=%v", ok))
						return
					case !ok || m == nil:
						c.Fail("refused-wellformed:nesting", desc, "well-formed message within the documented nesting limit refused")
					case !bytes.Equal(m.ToBytes(), x):
						c.Fail("reencode-differs:nesting", desc, fmt.Sprintf("ToBytes() has %d bytes, first difference at %d", len(m.ToBytes()), firstDiff(m.ToBytes(), x)))
					}
					c.Case(0, true, "within-limit")
				}})
			// the largest legal items (16 777 215 payload bytes, three length bytes FF FF FF) and their neighbours
			bigKinds := []ref.Kind{ref.A}
			if tier == "thorough" {
				bigKinds = []ref.Kind{ref.A, ref.B, ref.BOOLEAN, ref.U1, ref.I1, ref.U2, ref.I4, ref.F8}
			}
			bigNs := []int{ref.MaxBytes - 2, ref.MaxBytes - 1, ref.MaxBytes}
			sp = append(sp, h.Space{Name: "largest-legal-items", Count: product(len(bigKinds), len(bigNs), 2), ChunkHint: 1,
				Describe: func(i uint64) interface{} {
					d := unrank(i, len(bigKinds), len(bigNs), 2)
					return fmt.Sprintf("%s item with %d payload bytes (rounded down to whole elements), nested=%v", bigKinds[d[0]], bigNs[d[1]], d[2] == 1)
				},
				Run: func(c *h.Ctx, i uint64) {
					d := unrank(i, len(bigKinds), len(bigNs), 2)
					k := bigKinds[d[0]]
					n := bigNs[d[1]] / k.Width() * k.Width()
					text := make([]byte, 0, n+16)
					if d[2] == 1 {
						text = append(text, 0x01, 0x02, 0xA5, 0x01, 0x07)
					}
					text = append(text, ref.ItemHeader(k, n, 0)...)
					fillb := byte('a')
					if k == ref.BOOLEAN {
						fillb = 1
					}
					for j := 0; j < n; j++ {
						text = append(text, fillb)
					}
					x := hdr(1, 1, text)
					desc := fmt.Sprintf("%s item with %d payload bytes, nested=%v", k, n, d[2] == 1)
					m, ok, pan := parseSafe(x)
					c.Ops(1)
					switch {
					case pan != "":
						c.Fail("panic-escaped:largest", desc, pan)
					case !ok || m == nil:
						c.Fail("refused-wellformed:largest", desc, "a well-formed message holding an item of legal size was refused")
					default:
						if got := m.ToBytes(); !bytes.Equal(got, x) {
							c.Fail("reencode-differs:largest", desc, fmt.Sprintf("ToBytes() has %d bytes (input %d), first difference at %d", len(got), len(x), firstDiff(got, x)))
						}
						c.Ops(1)
					}
					c.Case(0, true, "largest")
				}})
			// message-length field: every value of each of the 4 length bytes, and short inputs
			sp = append(sp, h.Space{Name: "message-length-field-and-short-inputs", Count: 4*256 + 20,
				Describe: func(i uint64) interface{} {
					return fmt.Sprintf("length byte %d = %d / input of %d bytes", i/256, i%256, int(i)-1024)
				},
				Run: func(c *h.Ctx, i uint64) {
					x := hdr(1, 1, []byte{0xA5, 0x01, 0x07})
					if i < 1024 {
						x[i/256] = byte(i % 256)
					} else {
						x = append(x, 1, 2, 3)[:i-1024]
					}
					c.Case(0, true, decCompare(c, "msglen", x))
				}})
			return sp
		},
	})
}

func firstDiff(a, b []byte) int {
	for i := 0; i < len(a) && i < len(b); i++ {
		if a[i] != b[i] {
			return i
		}
	}
	if len(a) < len(b) {
		return len(a)
	}
	return len(b)
}
