package props

import (
	"fmt"
	"math"
	"sort"
	"strings"

	"github.com/wolimst/lib-secs2-hsms-go/pkg/ast"

	h "verif/internal/harness"
	"verif/internal/ref"
)

// C09 — filling variables is pure substitution and composes (E1 templates, all splits, R-fill).

// slot describes one variable of a template.
type slot struct {
	name string
	kind ref.Kind // kind of the item holding it; ref.VAR for list-level variables
	avar *ref.AVar
}

func slotsOf(n *ref.Node, out *[]slot) {
	switch n.Kind {
	case ref.L:
		for _, c := range n.Children {
			slotsOf(c, out)
		}
	case ref.VAR:
		*out = append(*out, slot{name: n.Name, kind: ref.VAR})
	case ref.ELLIPSIS:
		*out = append(*out, slot{name: n.Name, kind: ref.ELLIPSIS})
	case ref.A:
		if n.AVar != nil {
			*out = append(*out, slot{name: n.AVar.Name, kind: ref.A, avar: n.AVar})
		}
	default:
		for _, e := range n.Elems {
			if e.Var != "" {
				*out = append(*out, slot{name: e.Var, kind: n.Kind})
			}
		}
	}
}

// fillValue is a Go fill-in value with the reference element/node it denotes (bad => must be refused).
type fillValue struct {
	v    interface{}
	bad  bool
	elem ref.Elem
	str  string
	node *ref.Node
}

// valueOptions: two in-domain values and one out-of-domain value for a slot.
func valueOptions(s slot) []fillValue {
	switch {
	case s.kind == ref.VAR:
		return []fillValue{
			{v: ast.NewUintNode(1, 7), node: ref.Uints(ref.U1, 7)},
			{v: ast.NewListNode(ast.NewASCIINode("x"), ast.NewListNode()), node: ref.List(ref.Ascii("x"), ref.List())},
			{v: 5, bad: true},
		}
	case s.kind == ref.A:
		min, max := s.avar.Min, s.avar.Max
		a := strings.Repeat("a", min)
		bl := min + 1
		if max != -1 && bl > max {
			bl = max
		}
		b := strings.Repeat("b", bl)
		var bad fillValue
		switch {
		case max != -1:
			bad = fillValue{v: strings.Repeat("c", max+1), bad: true}
		case min > 0:
			bad = fillValue{v: strings.Repeat("c", min-1), bad: true}
		default:
			bad = fillValue{v: "é", bad: true}
		}
		return []fillValue{{v: a, str: a}, {v: b, str: b}, bad}
	case s.kind.IsInt():
		lo := int64(-1) << uint(8*s.kind.Width()-1)
		var bad interface{} = uint64(math.MaxUint64)
		if s.kind.Width() < 8 {
			bad = -(lo) // one above the maximum
		}
		return []fillValue{{v: 5, elem: ref.Elem{I: 5}}, {v: lo, elem: ref.Elem{I: lo}}, {v: bad, bad: true}}
	case s.kind.IsUint():
		hi := uint64(math.MaxUint64)
		if s.kind.Width() < 8 {
			hi = 1<<uint(8*s.kind.Width()) - 1
		}
		var bad interface{} = -1
		if s.kind.Width() < 8 {
			bad = hi + 1
		}
		return []fillValue{{v: uint8(7), elem: ref.Elem{U: 7}}, {v: hi, elem: ref.Elem{U: hi}}, {v: bad, bad: true}}
	case s.kind == ref.F4:
		return []fillValue{{v: 1.5, elem: ref.Elem{F: 1.5}}, {v: float32(0.25), elem: ref.Elem{F: 0.25}}, {v: math.NaN(), bad: true}}
	case s.kind == ref.F8:
		return []fillValue{{v: 0.1, elem: ref.Elem{F: 0.1}}, {v: 3, elem: ref.Elem{F: 3}}, {v: math.Inf(1), bad: true}}
	case s.kind == ref.B:
		return []fillValue{{v: 1, elem: ref.Elem{U: 1}}, {v: "0b101", elem: ref.Elem{U: 5}}, {v: 256, bad: true}}
	case s.kind == ref.BOOLEAN:
		return []fillValue{{v: true, elem: ref.Elem{T: true}}, {v: false, elem: ref.Elem{T: false}}, {v: 1, bad: true}}
	}
	panic("valueOptions")
}

// substitute is R-fill: textbook substitution on the reference template.
func substitute(n *ref.Node, asg map[string]fillValue) *ref.Node {
	switch n.Kind {
	case ref.L:
		m := &ref.Node{Kind: ref.L, Children: []*ref.Node{}}
		for _, c := range n.Children {
			m.Children = append(m.Children, substitute(c, asg))
		}
		return m
	case ref.VAR:
		if v, ok := asg[n.Name]; ok {
			return v.node.Clone()
		}
		return n.Clone()
	case ref.A:
		if n.AVar != nil {
			if v, ok := asg[n.AVar.Name]; ok {
				return ref.Ascii(v.str)
			}
		}
		return n.Clone()
	case ref.ELLIPSIS:
		return n.Clone()
	}
	m := n.Clone()
	for i, e := range m.Elems {
		if e.Var != "" {
			if v, ok := asg[e.Var]; ok {
				m.Elems[i] = v.elem
			}
		}
	}
	return m
}

// orderedPartitions enumerates all ways to split keys into 1..maxBlocks ordered non-empty blocks.
func orderedPartitions(keys []string, maxBlocks int) [][][]string {
	var out [][][]string
	n := len(keys)
	if n == 0 {
		return [][][]string{{}}
	}
	assign := make([]int, n)
	var rec func(i, blocks int)
	rec = func(i, blocks int) {
		if i == n {
			// every block index 0..blocks-1 must be used
			used := make([]bool, blocks)
			for _, a := range assign {
				used[a] = true
			}
			for _, u := range used {
				if !u {
					return
				}
			}
			p := make([][]string, blocks)
			for k, a := range assign {
				p[a] = append(p[a], keys[k])
			}
			out = append(out, p)
			return
		}
		for b := 0; b < blocks; b++ {
			assign[i] = b
			rec(i+1, blocks)
		}
	}
	for b := 1; b <= maxBlocks && b <= n; b++ {
		rec(0, b)
	}
	return out
}

func tryFill(it ast.ItemNode, m map[string]interface{}) (res ast.ItemNode, pan string) {
	defer func() {
		if r := recover(); r != nil {
			res, pan = nil, fmt.Sprint(r)
		}
	}()
	return it.FillVariables(m), ""
}

// fillCase runs every assignment x every split for one template.
func fillCase(c *h.Ctx, tmpl *ref.Node, maxFullVars int) {
	var slots []slot
	slotsOf(tmpl, &slots)
	real := Build(tmpl)
	tdesc := ref.Print(tmpl)
	// options per slot: 0 = unassigned, 1,2 = in-domain, 3 = out-of-domain
	radix := make([]int, len(slots))
	for i := range slots {
		radix[i] = 4
		if i >= maxFullVars {
			radix[i] = 2
		}
	}
	total := product(radix...)
	for a := uint64(0); a < total; a++ {
		d := unrank(a, radix...)
		asg := map[string]fillValue{}
		goMap := map[string]interface{}{}
		anyBad := false
		var keys []string
		for i, s := range slots {
			if d[i] == 0 {
				continue
			}
			fv := valueOptions(s)[d[i]-1]
			asg[s.name] = fv
			goMap[s.name] = fv.v
			keys = append(keys, s.name)
			anyBad = anyBad || fv.bad
		}
		// unknown keys are ignored - whatever they look like and whatever their values are
		switch a % 5 {
		case 1:
			goMap["unknown_key"] = 42
		case 2:
			goMap["zz"] = "text"
			goMap["v99"] = ast.NewASCIINode("n")
		case 3:
			if len(ellipsisNames(tmpl)) == 0 { // keys shaped like ellipses that name nothing in this template
				goMap["...[9]"] = -1
				goMap["..."] = "x"
			}
		case 4:
			if len(ellipsisNames(tmpl)) == 0 {
				goMap["...[3]"] = nil
				goMap["...[12]"] = int64(2)
				goMap[""] = 0
			}
		}
		in := fmt.Sprintf("template %s filled with %s", tdesc, showMap(goMap))
		one, pan := tryFill(real, goMap)
		c.Ops(1)
		var want *ref.Node
		if anyBad {
			if pan == "" {
				c.Fail("out-of-domain-fill-accepted", in, itemString(one))
				c.Case(0, true, "bad")
				continue
			}
		} else {
			if pan != "" {
				c.Fail("in-domain-fill-refused", in, pan)
				c.Case(0, true, "bad")
				continue
			}
			want = substitute(tmpl, asg)
			if dd := matchesRef(one, want); dd != "" {
				c.Fail("fill-is-not-substitution", in, dd)
				c.Case(0, true, "bad")
				continue
			}
			// equals direct construction
			direct := Build(want)
			if dd := sameItem(one, direct); dd != "" {
				c.Fail("fill-differs-from-direct-construction", in, dd)
			}
			c.Ops(2)
		}
		// the template is unchanged by the fill (immutability is C11; cheap to re-check here)
		if itemString(real) != tdesc {
			c.Fail("template-changed-by-fill", in, itemString(real))
		}
		// every ordered split into up to 3 successive fills equals the one-step result
		if len(keys) >= 2 && len(keys) <= 4 {
			for _, part := range orderedPartitions(keys, 3) {
				if len(part) < 2 {
					continue
				}
				cur := real
				stepPan := ""
				for _, block := range part {
					m := map[string]interface{}{"unknown_key": 1}
					for _, k := range block {
						m[k] = goMap[k]
					}
					var p string
					cur, p = tryFill(cur, m)
					c.Ops(1)
					if p != "" {
						stepPan = p
						break
					}
				}
				if (stepPan != "") != anyBad {
					c.Fail("split-fill-refusal-differs", in+fmt.Sprintf(" split %v", part), fmt.Sprintf("one step refuses=%v, split refuses=%q", anyBad, stepPan))
				} else if !anyBad {
					if dd := sameItem(cur, one); dd != "" {
						c.Fail("fill-does-not-compose", in+fmt.Sprintf(" split %v", part), dd)
					}
				}
				c.Case(0, true, "split")
			}
		}
		c.Case(0, true, map[bool]string{true: "refused", false: "substituted"}[anyBad])
	}
}

func showMap(m map[string]interface{}) string {
	var ks []string
	for k := range m {
		ks = append(ks, k)
	}
	sort.Strings(ks)
	var sb strings.Builder
	sb.WriteString("{")
	for i, k := range ks {
		if i > 0 {
			sb.WriteString(", ")
		}
		v := m[k]
		if it, ok := v.(ast.ItemNode); ok {
			fmt.Fprintf(&sb, "%s: item %s", k, strings.ReplaceAll(itemString(it), "\n", " "))
		} else {
			fmt.Fprintf(&sb, "%s: %T(%v)", k, v, v)
		}
	}
	return sb.String() + "}"
}

// c09Atoms: smlAtoms without the ellipsis, plus multi-variable arrays (every non-empty subset of 3 positions).
func c09Atoms() []*ref.Node {
	var out []*ref.Node
	for _, a := range smlAtoms() {
		if a.Kind != ref.ELLIPSIS {
			out = append(out, a)
		}
	}
	q := ref.Elem{Var: "?"}
	for mask := 1; mask < 8; mask++ {
		for _, k := range []ref.Kind{ref.I1, ref.U2, ref.F4, ref.B, ref.BOOLEAN} {
			n := &ref.Node{Kind: k, Elems: []ref.Elem{{I: 1, U: 1, F: 1, T: true}, {I: 2, U: 2, F: 2}, {I: 3, U: 3, F: 3, T: true}}}
			for p := 0; p < 3; p++ {
				if mask&(1<<uint(p)) != 0 {
					n.Elems[p] = q
				}
			}
			out = append(out, n)
		}
	}
	return out
}

func init() {
	h.Register(&h.Check{
		ID:          "C09",
		Rule:        "every ellipsis-free template tree of the scope (all node kinds, every subset of positions as variables, ASCII bound forms, list variables) x every assignment from {unassigned, two in-domain values, one out-of-domain value} per variable (+ unknown keys) x every ordered partition of the assignment into up to 3 successive fills; messages additionally x every order of fill / SetWaitBit / SetSessionIDAndSystemBytes; oracle: R-fill substitution + direct construction (String, Variables, Size, ToBytes), refusal iff a value is out of domain, multi-step == one-step; non-trivial = fill executed and compared",
		Assumptions: []string{"Go map iteration order cannot be controlled: every fill is a fresh randomised iteration; an order dependence is caught with probability >= 1/2 per case and the spaces hold thousands of multi-variable cases"},
		Build: func(tier string, seed int64) []h.Space {
			var sp []h.Space
			N, full := 3, 3
			if tier == "thorough" {
				N, full = 4, 4
			}
			ts := NewTreeScope(c09Atoms(), N, 3, 3)
			sp = append(sp, h.Space{Name: fmt.Sprintf("templates-N%d-x-assignments-x-splits", N), Count: ts.Count(),
				Describe: func(i uint64) interface{} { n := ts.Nth(i); nameTemplate(n); return ref.Print(n) },
				Run: func(c *h.Ctx, i uint64) {
					n := ts.Nth(i)
					if !nameTemplate(n) || n.Complete() {
						c.Case(0, false, "no-variables")
						return
					}
					fillCase(c, n, full)
				}})
			// sibling sub-lists: variables that live only in the first, a middle or the last of several nested lists
			// (a larger shape than the tree scope above reaches), every assignment x every split
			sibAtoms := []*ref.Node{
				ref.Uints(ref.U1, 7),
				{Kind: ref.U1, Elems: []ref.Elem{{Var: "?"}}},
				{Kind: ref.BOOLEAN, Elems: []ref.Elem{{Var: "?"}}},
				{Kind: ref.F8, Elems: []ref.Elem{{F: 1}, {Var: "?"}}},
				ref.AsciiVar("?", 0, -1),
				ref.Var("?"),
			}
			nSib := len(sibAtoms)
			sibShapes := []struct {
				name  string
				holes int
				mk    func(a []*ref.Node) *ref.Node
			}{
				{"<L <L a> <L b>>", 2, func(a []*ref.Node) *ref.Node { return ref.List(ref.List(a[0]), ref.List(a[1])) }},
				{"<L <L a> <L b> <L c>>", 3, func(a []*ref.Node) *ref.Node { return ref.List(ref.List(a[0]), ref.List(a[1]), ref.List(a[2])) }},
				{"<L <U1 7> <L a> <L b>>", 2, func(a []*ref.Node) *ref.Node { return ref.List(ref.Uints(ref.U1, 7), ref.List(a[0]), ref.List(a[1])) }},
				{"<L <L <L a>> <L b>>", 2, func(a []*ref.Node) *ref.Node { return ref.List(ref.List(ref.List(a[0])), ref.List(a[1])) }},
				{"<L <L a> <L <L b> <L c>>>", 3, func(a []*ref.Node) *ref.Node {
					return ref.List(ref.List(a[0]), ref.List(ref.List(a[1]), ref.List(a[2])))
				}},
				{"<L <L a> <L[0]> b>", 2, func(a []*ref.Node) *ref.Node { return ref.List(ref.List(a[0]), ref.List(), a[1]) }},
				{"<L <L a b> <L c>>", 3, func(a []*ref.Node) *ref.Node { return ref.List(ref.List(a[0], a[1]), ref.List(a[2])) }},
			}
			sibTemplate := func(i uint64) (*ref.Node, string) {
				sh := sibShapes[i%uint64(len(sibShapes))]
				i /= uint64(len(sibShapes))
				a := make([]*ref.Node, 3)
				for j := 0; j < 3; j++ {
					a[j] = sibAtoms[i%uint64(nSib)].Clone()
					i /= uint64(nSib)
				}
				return sh.mk(a), sh.name
			}
			sp = append(sp, h.Space{Name: "sibling-sublists-x-assignments-x-splits", Count: product(len(sibShapes), nSib, nSib, nSib),
				Describe: func(i uint64) interface{} { n, _ := sibTemplate(i); nameTemplate(n); return ref.Print(n) },
				Run: func(c *h.Ctx, i uint64) {
					n, _ := sibTemplate(i)
					sh := sibShapes[i%uint64(len(sibShapes))]
					if sh.holes == 2 && i/uint64(len(sibShapes))/uint64(nSib*nSib) != 0 {
						c.Case(0, false, "duplicate-of-a-two-hole-shape")
						return
					}
					if !nameTemplate(n) || n.Complete() {
						c.Case(0, false, "no-variables")
						return
					}
					fillCase(c, n, 3)
				}})
			// a fill-in value that brings its own variables is inserted AS IS: the same map must not be
			// applied to it, even when the map has keys equal to its variable names
			inner := []struct {
				mk   func() ast.ItemNode
				node *ref.Node
			}{
				{func() ast.ItemNode { return ast.NewUintNode(2, "inner") }, &ref.Node{Kind: ref.U2, Elems: []ref.Elem{{Var: "inner"}}}},
				{func() ast.ItemNode { return ast.NewListNode(ast.NewASCIINodeVariable("inner", 0, -1), "deep") }, ref.List(ref.AsciiVar("inner", 0, -1), ref.Var("deep"))},
				{func() ast.ItemNode { return ast.NewBooleanNode("inner", true) }, &ref.Node{Kind: ref.BOOLEAN, Elems: []ref.Elem{{Var: "inner"}, {T: true}}}},
			}
			outer := []*ref.Node{
				ref.List(ref.Var("v0"), ref.Uints(ref.U1, 1)),
				ref.List(ref.Uints(ref.U1, 1), ref.List(ref.Var("v0"), &ref.Node{Kind: ref.I1, Elems: []ref.Elem{{Var: "v1"}}})),
				ref.List(ref.Var("v0"), ref.Var("v1")),
			}
			extra := []map[string]interface{}{{}, {"inner": 7}, {"inner": "text"}, {"inner": true, "deep": ast.NewBinaryNode(1)}, {"inner": 7, "v1": 3}}
			sp = append(sp, h.Space{Name: "value-with-own-variables-is-inserted-as-is", Count: product(len(outer), len(inner), len(extra), 2),
				Describe: func(i uint64) interface{} {
					d := unrank(i, len(outer), len(inner), len(extra), 2)
					return fmt.Sprintf("%s with v0 := %s and extra keys %s (message=%v)", ref.Print(outer[d[0]]), ref.Print(inner[d[1]].node), showMap(extra[d[2]]), d[3] == 1)
				},
				Run: func(c *h.Ctx, i uint64) {
					d := unrank(i, len(outer), len(inner), len(extra), 2)
					tmpl, in := outer[d[0]], inner[d[1]]
					m := map[string]interface{}{"v0": in.mk()}
					asg := map[string]fillValue{"v0": {node: in.node}}
					for k, v := range extra[d[2]] {
						m[k] = v
						if k == "v1" {
							for _, s := range func() []slot { var s []slot; slotsOf(tmpl, &s); return s }() {
								if s.name == "v1" && s.kind != ref.VAR {
									asg["v1"] = fillValue{v: 3, elem: ref.Elem{I: 3}}
								} else if s.name == "v1" {
									delete(m, "v1") // a list variable takes an item, keep the case simple
								}
							}
						}
					}
					desc := fmt.Sprintf("%s filled with %s", ref.Print(tmpl), showMap(m))
					want := substitute(tmpl, asg)
					var got ast.ItemNode
					var pan string
					if d[3] == 0 {
						got, pan = tryFill(Build(tmpl), m)
					} else {
						msg := ast.NewDataMessage("", 1, 1, 0, "H->E", Build(tmpl))
						if p := catch(func() { got = msgItem(msg.FillVariables(m)) }); p != nil {
							pan = fmt.Sprint(p)
						}
					}
					c.Ops(1)
					if pan != "" {
						c.Fail("value-with-variables-refused", desc, pan)
					} else if dd := matchesRef(got, want); dd != "" {
						c.Fail("value-with-variables-not-inserted-as-is", desc, dd)
					}
					c.Case(0, true, "inserted-as-is")
				}})
			// "refused exactly as the constructor refuses it": for every Go argument of the C12 alphabet, every
			// numeric format and position, FillVariables panics iff the factory panics on the same value in place
			dargs := append(goIntArgs(), goFloatArgs()...)
			dargs = append(dargs, goArg{v: true, typ: "bool"}, goArg{v: "0b101", typ: "string"}, goArg{v: "0b2", typ: "string"}, goArg{v: nil, typ: "nil"})
			dk := []ref.Kind{ref.I1, ref.I2, ref.I4, ref.I8, ref.U1, ref.U2, ref.U4, ref.U8, ref.F4, ref.F8, ref.B, ref.BOOLEAN}
			sp = append(sp, h.Space{Name: "fill-refuses-exactly-what-the-constructor-refuses", Count: product(len(dargs), len(dk), 3),
				Describe: func(i uint64) interface{} {
					d := unrank(i, len(dargs), len(dk), 3)
					return fmt.Sprintf("%s(%v) into %s position %d: factory vs FillVariables", dargs[d[0]].typ, dargs[d[0]].v, dk[d[1]], d[2])
				},
				Run: func(c *h.Ctx, i uint64) {
					d := unrank(i, len(dargs), len(dk), 3)
					a, k, pos := dargs[d[0]], dk[d[1]], d[2]
					var filler interface{} = 1
					if k == ref.BOOLEAN {
						filler = true
					}
					direct := []interface{}{filler, filler, filler}
					tmpl := []interface{}{filler, filler, filler}
					direct[pos], tmpl[pos] = a.v, "v0"
					itD, panD := tryItem(func() ast.ItemNode { return mkNumeric(k, direct...) })
					t := mkNumeric(k, tmpl...)
					itF, panF := tryFill(t, map[string]interface{}{"v0": a.v})
					c.Ops(3)
					in := fmt.Sprintf("%s(%v) into %s position %d", a.typ, a.v, k, pos)
					switch {
					case (panD == "") != (panF == ""):
						c.Fail("fill-and-constructor-disagree-on-refusal:"+k.String()+":"+a.typ, in, fmt.Sprintf("factory panic=%q, FillVariables panic=%q", panD, panF))
					case panD == "":
						if dd := sameItem(itD, itF); dd != "" {
							c.Fail("fill-differs-from-direct-construction", in, dd)
						}
					}
					c.Case(0, true, map[bool]string{true: "both-accept", false: "both-refuse"}[panD == ""])
				}})
			// the same differential for the two kinds of variable that are not array elements: an ASCII variable (its
			// constructor counterpart: NewASCIINode(value) for a string within the bounds, refusal for everything else) and a
			// list-level variable (counterpart: NewListNode with the value in that place: an item, a name, an ellipsis name or
			// a refusal), at depth 0, 1 and 2 and in first / later position
			lvals := []struct {
				desc string
				v    interface{}
			}{
				{"int 5", 5}, {"nil", nil}, {"[]byte", []byte("ab")}, {"bool", true}, {"float", 1.5}, {"rune", 'a'}, {"[]string", []string{"ab"}},
				{"string ab", "ab"}, {"string empty", ""}, {"string with blank", "hello world"}, {"string 9lives", "9lives"}, {"string ...", "..."}, {"string ...[1]", "...[1]"},
				{"string x[0]", "x[0]"}, {"string x[", "x["}, {"string é", "é"}, {"string v9", "v9"}, {"string other", "other"},
				{"item <U1 7>", ast.NewUintNode(1, 7)}, {"item <A ab>", ast.NewASCIINode("ab")}, {"item <L>", ast.NewListNode()}, {"item <A v9>", ast.NewASCIINodeVariable("v9", 0, -1)},
				{"item with variable other", ast.NewUintNode(1, "other")}, {"empty item", ast.NewEmptyItemNode()},
			}
			sp = append(sp, h.Space{Name: "ascii-and-list-variables-refuse-exactly-what-the-constructor-refuses", Count: product(len(lvals), 2, 3, 2, 2),
				Describe: func(i uint64) interface{} {
					d := unrank(i, len(lvals), 2, 3, 2, 2)
					return fmt.Sprintf("%s for %s at depth %d, %s position, via %s", lvals[d[0]].desc, []string{"an ASCII variable [1..3]", "a list-level variable"}[d[1]], d[2], []string{"first", "second"}[d[3]], []string{"item", "message"}[d[4]])
				},
				Run: func(c *h.Ctx, i uint64) {
					d := unrank(i, len(lvals), 2, 3, 2, 2)
					val, depth, second := lvals[d[0]].v, d[2], d[3] == 1
					// build <L [<U1 other>] X> with X the variable (template) or the value in place (direct), wrapped depth times
					mk := func(x interface{}) (it ast.ItemNode, pan string) {
						return tryItem(func() ast.ItemNode {
							var l ast.ItemNode
							if second {
								l = ast.NewListNode(ast.NewUintNode(1, "other"), x)
							} else {
								l = ast.NewListNode(x, ast.NewUintNode(1, "other"))
							}
							for j := 0; j < depth; j++ {
								l = ast.NewListNode(ast.NewBooleanNode(true), l)
							}
							return l
						})
					}
					var tmpl, direct ast.ItemNode
					var panD string
					if d[1] == 0 {
						tmpl, _ = mk(ast.NewASCIINodeVariable("v0", 1, 3))
						if str, isS := val.(string); isS && len(str) >= 1 && len(str) <= 3 {
							direct, panD = mk(func() (x interface{}) {
								defer func() {
									if recover() != nil {
										x = 0 // NewASCIINode refuses the text: so must the fill
									}
								}()
								return ast.NewASCIINode(str)
							}())
						} else {
							panD = "not a string within [1..3]"
						}
					} else {
						tmpl, _ = mk("v0")
						direct, panD = mk(val)
					}
					in := fmt.Sprintf("%s filled with v0 = %s", strings.ReplaceAll(itemString(tmpl), "\n", " "), lvals[d[0]].desc)
					var got ast.ItemNode
					var panF string
					if d[4] == 0 {
						got, panF = tryFill(tmpl, map[string]interface{}{"v0": val})
					} else {
						msg := ast.NewDataMessage("", 1, 1, 0, "H->E", tmpl)
						if p := catch(func() { got = msgItem(msg.FillVariables(map[string]interface{}{"v0": val})) }); p != nil {
							panF = fmt.Sprint(p)
						}
					}
					c.Ops(3)
					switch {
					case (panD == "") != (panF == ""):
						c.Fail("fill-and-constructor-disagree-on-refusal:"+[]string{"ascii-variable", "list-variable"}[d[1]], in, fmt.Sprintf("direct construction: %q, FillVariables: %q, result %s", panD, panF, strings.ReplaceAll(itemString(got), "\n", " ")))
					case panD == "":
						if dd := sameItem(direct, got); dd != "" {
							c.Fail("fill-differs-from-direct-construction", in, dd)
						}
					}
					c.Case(0, true, map[bool]string{true: "both-accept", false: "both-refuse"}[panD == ""])
				}})
			// messages: fill x wait bit x session in every order, split fills
			msgT := []*ref.Node{
				{Kind: ref.U1, Elems: []ref.Elem{{Var: "v0"}, {U: 2}, {Var: "v1"}}},
				ref.List(ref.AsciiVar("v0", 1, 3), ref.Var("v1"), &ref.Node{Kind: ref.F4, Elems: []ref.Elem{{Var: "v2"}}}),
				ref.List(ref.List(&ref.Node{Kind: ref.I8, Elems: []ref.Elem{{Var: "v0"}}}), ref.Bools(true), &ref.Node{Kind: ref.B, Elems: []ref.Elem{{U: 1}, {Var: "v1"}}}),
			}
			perms := [][]int{{0, 1, 2, 3}, {0, 1, 3, 2}, {0, 2, 1, 3}, {0, 2, 3, 1}, {0, 3, 1, 2}, {0, 3, 2, 1}, {1, 0, 2, 3}, {1, 0, 3, 2}, {1, 2, 0, 3}, {1, 2, 3, 0}, {1, 3, 0, 2}, {1, 3, 2, 0},
				{2, 0, 1, 3}, {2, 0, 3, 1}, {2, 1, 0, 3}, {2, 1, 3, 0}, {2, 3, 0, 1}, {2, 3, 1, 0}, {3, 0, 1, 2}, {3, 0, 2, 1}, {3, 1, 0, 2}, {3, 1, 2, 0}, {3, 2, 0, 1}, {3, 2, 1, 0}}
			sp = append(sp, h.Space{Name: "message-fill-waitbit-session-every-order", Count: product(len(msgT), len(perms), 2, 8) * 2,
				Describe: func(i uint64) interface{} {
					d := unrank(i/2, len(msgT), len(perms), 2, 8)
					return fmt.Sprintf("template %s, operation order %v, wait bit %v, value choice %03b", ref.Print(msgT[d[0]]), perms[d[1]], d[2] == 1, d[3])
				},
				Run: func(c *h.Ctx, i uint64) {
					d := unrank(i/2, len(msgT), len(perms), 2, 8)
					tmpl := msgT[d[0]]
					var slots []slot
					slotsOf(tmpl, &slots)
					asg := map[string]fillValue{}
					for j, s := range slots {
						asg[s.name] = valueOptions(s)[(d[3]>>uint(j))&1]
					}
					// operations: 0 = fill first half, 1 = fill second half, 2 = SetWaitBit, 3 = SetSessionIDAndSystemBytes
					half := map[string]interface{}{}
					rest := map[string]interface{}{}
					for j, s := range slots {
						if j == 0 {
							half[s.name] = asg[s.name].v
						} else {
							rest[s.name] = asg[s.name].v
						}
					}
					w := d[2] == 1
					m := ast.NewDataMessage("msg", 5, 3, 2, "H<-E", Build(tmpl))
					observe := i%2 == 1 // every message on the way is encoded, printed and listed before the next step
					pan := catch(func() {
						for _, op := range perms[d[1]] {
							if observe {
								_, _, _ = m.ToBytes(), m.String(), m.Variables()
							}
							switch op {
							case 0:
								m = m.FillVariables(half)
							case 1:
								m = m.FillVariables(rest)
							case 2:
								m = m.SetWaitBit(w)
							case 3:
								m = m.SetSessionIDAndSystemBytes(513, []byte{9, 8, 7, 6})
							}
						}
					})
					c.Ops(5)
					in := fmt.Sprintf("template %s, operation order %v, values %s | %s", ref.Print(tmpl), perms[d[1]], showMap(half), showMap(rest))
					if pan != nil {
						c.Fail("message-producer-sequence-refused", in, fmt.Sprint(pan))
						c.Case(0, true, "bad")
						return
					}
					want := substitute(tmpl, asg)
					wi := 0
					if w {
						wi = 1
					}
					rm := &ref.Msg{Name: "msg", Stream: 5, Function: 3, W: wi, Dir: "H<-E", Session: 513, System: [4]byte{9, 8, 7, 6}, Item: want}
					direct := ast.NewHSMSDataMessage("msg", 5, 3, wi, "H<-E", Build(want), 513, []byte{9, 8, 7, 6})
					if got := m.ToBytes(); !sameBytes(got, ref.EncodeMsg(rm)) || !sameBytes(got, direct.ToBytes()) {
						c.Fail("completed-message-bytes-differ", in, fmt.Sprintf("ToBytes()=%x direct %x reference %x", got, direct.ToBytes(), ref.EncodeMsg(rm)))
					}
					if m.String() != direct.String() || m.String() != ref.PrintMsg(rm) {
						c.Fail("completed-message-prints-differently", in, fmt.Sprintf("%q vs direct %q", m.String(), direct.String()))
					}
					c.Case(0, true, "message-completed")
				}})
			return sp
		},
	})
}
