package props

import (
	"bytes"
	"fmt"
	"regexp"
	"strconv"
	"strings"
	"unicode/utf8"

	"github.com/wolimst/lib-secs2-hsms-go/pkg/ast"
	"github.com/wolimst/lib-secs2-hsms-go/pkg/parser/sml"

	h "verif/internal/harness"
	"verif/internal/ref"
)

// smlRun calls sml.Parse and reports an escaped panic.
func smlRun(text string) (ms []*ast.DataMessage, errs, warns []string, panicked string) {
	defer func() {
		if r := recover(); r != nil {
			ms, errs, warns, panicked = nil, nil, nil, fmt.Sprint(r)
		}
	}()
	ms, errs, warns = sml.Parse(text)
	return ms, errs, warns, ""
}

// msgView is the deep observable state of a DataMessage.
type msgView struct {
	Name, Dir, W, Str string
	S, F              int
	Vars              []string
}

func viewOf(m *ast.DataMessage) msgView {
	return msgView{m.Name(), m.Direction(), m.WaitBit(), m.String(), m.StreamCode(), m.FunctionCode(), m.Variables()}
}

func (a msgView) diff(b msgView) string {
	switch {
	case a.Name != b.Name:
		return fmt.Sprintf("Name %q vs %q", a.Name, b.Name)
	case a.Dir != b.Dir:
		return fmt.Sprintf("Direction %q vs %q", a.Dir, b.Dir)
	case a.W != b.W:
		return fmt.Sprintf("WaitBit %s vs %s", a.W, b.W)
	case a.S != b.S || a.F != b.F:
		return fmt.Sprintf("S%dF%d vs S%dF%d", a.S, a.F, b.S, b.F)
	case !eqStrings(a.Vars, b.Vars):
		return fmt.Sprintf("Variables %v vs %v", a.Vars, b.Vars)
	case a.Str != b.Str:
		return fmt.Sprintf("String %q vs %q", trunc(a.Str, 400), trunc(b.Str, 400))
	}
	return ""
}

var diagRe = regexp.MustCompile(`(?s)^Ln (\d+), Col (\d+): .+`)

// diagPos extracts line/col of a diagnostic; ok=false if it is malformed.
func diagPos(d string) (line, col int, ok bool) {
	m := diagRe.FindStringSubmatch(d)
	if m == nil {
		return 0, 0, false
	}
	line, _ = strconv.Atoi(m[1])
	col, _ = strconv.Atoi(m[2])
	return line, col, true
}

// diagInside checks the R-pos rule: 1 <= line <= lines, 1 <= col <= runes in that line + 1.
func diagInside(text, d string) string {
	line, col, ok := diagPos(d)
	if !ok {
		return "does not read \"Ln x, Col y: text\""
	}
	lines := strings.Split(text, "\n")
	if line < 1 || line > len(lines) {
		return fmt.Sprintf("line %d outside 1..%d", line, len(lines))
	}
	if n := utf8.RuneCountInString(lines[line-1]); col < 1 || col > n+1 {
		return fmt.Sprintf("column %d outside 1..%d of line %d", col, n+1, line)
	}
	return ""
}

// completionValues gives one in-domain fill value for every variable of a template.
func completionValues(n *ref.Node, out map[string]interface{}) {
	switch n.Kind {
	case ref.L:
		for _, c := range n.Children {
			completionValues(c, out)
		}
	case ref.VAR:
		out[n.Name] = ast.NewUintNode(1, 7)
	case ref.ELLIPSIS:
		out[n.Name] = 0
	case ref.A:
		if n.AVar != nil {
			if n.AVar.Min <= 1<<20 {
				out[n.AVar.Name] = strings.Repeat("a", n.AVar.Min)
			}
		}
	default:
		for _, e := range n.Elems {
			if e.Var == "" {
				continue
			}
			switch {
			case n.Kind == ref.BOOLEAN:
				out[e.Var] = true
			case n.Kind.IsFloat():
				out[e.Var] = 1.5
			default:
				out[e.Var] = 1
			}
		}
	}
}

// completedBytes fills every variable, decides the wait bit, sets a session and encodes.
func completedBytes(m *ast.DataMessage, fill map[string]interface{}) (b []byte, pan string) {
	defer func() {
		if r := recover(); r != nil {
			b, pan = nil, fmt.Sprint(r)
		}
	}()
	// ellipses first (filling them renames nothing when the count is 0)
	m2 := m.FillVariables(fill).SetWaitBit(false).SetSessionIDAndSystemBytes(7, []byte{1, 2, 3, 4})
	return m2.ToBytes(), ""
}

// fixedPoint checks clause 2 of C04 for one accepted message: print -> parse -> equal.
func fixedPoint(c *h.Ctx, class string, origin string, m *ast.DataMessage) bool {
	text := m.String()
	ms, errs, warns, pan := smlRun(text)
	c.Ops(2)
	if pan != "" {
		c.Fail(class+"-reparse-panic", origin, fmt.Sprintf("printed form %q: panic %s", trunc(text, 300), pan))
		return false
	}
	if len(errs) > 0 || len(ms) != 1 {
		c.Fail(class+"-printed-form-rejected", origin, fmt.Sprintf("printed form %q re-parses to %d messages, errors %v", trunc(text, 400), len(ms), errs))
		return false
	}
	if len(warns) > 0 {
		c.Fail(class+"-printed-form-warns", origin, fmt.Sprintf("printed form %q warnings %v", trunc(text, 400), warns))
		return false
	}
	if d := viewOf(m).diff(viewOf(ms[0])); d != "" {
		c.Fail(class+"-not-a-fixed-point", origin, fmt.Sprintf("printed form %q re-parses to a different message: %s", trunc(text, 300), d))
		return false
	}
	return true
}

// ---------- token soups (E3) ----------

// soupFragments is the SML vocabulary plus hostile fragments.
var soupFragments = []string{
	"S1F1", "S1F2", "S200F300", "W", "[W]", "H->E", "name", ".", "<", ">",
	"L", "A", "B", "BOOLEAN", "U1", "I8", "F4",
	"[2]", "[1..]", "[..1]", "[2..1]", "[1099511627776]", "[99999999999999999999]",
	"...", "...[7]", "x", "y", "T", "5", "-1", "1.5", "1e400", "0x", "+",
	`"a"`, `"`, "// c\n", "\f", " ", "\xff",
}

// soupCount is the number of fragment sequences of length 0..k.
func soupCount(k int) uint64 {
	var t, p uint64 = 0, 1
	for i := 0; i <= k; i++ {
		t += p
		p *= uint64(len(soupFragments))
	}
	return t
}

// soupFrags decodes sequence number i into fragment indices.
func soupFrags(i uint64) []int {
	n := uint64(1)
	for k := 0; ; k++ {
		if i < n {
			f := make([]int, k)
			for j := k - 1; j >= 0; j-- {
				f[j] = int(i % uint64(len(soupFragments)))
				i /= uint64(len(soupFragments))
			}
			return f
		}
		i -= n
		n *= uint64(len(soupFragments))
	}
}

// soupText joins the fragments with single spaces.
func soupText(i uint64) string {
	f := soupFrags(i)
	parts := make([]string, len(f))
	for j, x := range f {
		parts[j] = soupFragments[x]
	}
	return strings.Join(parts, " ")
}

// totalParse runs the C06 oracle on one input; returns the messages when accepted.
func totalParse(c *h.Ctx, kind, text string) (ms []*ast.DataMessage, outcome string) {
	ms, errs, warns, pan := smlRun(text)
	c.Ops(1)
	in := fmt.Sprintf("[%s] sml.Parse(%s)", kind, strconv.Quote(trunc(text, 1500)))
	if pan != "" {
		c.Fail("panic-escaped:"+panicClass(pan), in, pan)
		return nil, "panic"
	}
	if ms == nil || errs == nil || warns == nil {
		// the API returns empty, non-nil slices
		c.Fail("nil-result-slice", in, fmt.Sprintf("messages nil=%v errors nil=%v warnings nil=%v", ms == nil, errs == nil, warns == nil))
	}
	if len(errs) > 0 && len(ms) > 0 {
		c.Fail("messages-with-errors", in, fmt.Sprintf("%d messages returned together with errors %v", len(ms), errs))
		return nil, "bad"
	}
	for _, d := range append(append([]string{}, errs...), warns...) {
		if why := diagInside(text, d); why != "" {
			c.Fail("diagnostic-position", in, fmt.Sprintf("%q: %s", d, why))
			return nil, "bad"
		}
	}
	if len(errs) > 0 {
		return nil, "rejected"
	}
	// "if none is reported every message in the input is returned": an input that is accepted with k
	// messages was consumed to its end, so the same input followed by one more message yields k+1
	// (an input whose processing silently stopped half-way yields k again)
	tail := "\nS127F255 W H->E appended\n."
	if strings.Contains(text, "\"") && strings.Count(text, "\"")%2 == 1 {
		tail = "" // cannot happen for an accepted text; keep the probe well-formed anyway
	}
	if tail != "" {
		ms2, errs2, _, pan2 := smlRun(text + tail)
		c.Ops(1)
		if pan2 == "" && (len(errs2) > 0 || len(ms2) != len(ms)+1 || ms2[len(ms2)-1].Name() != "appended") {
			c.Fail("accepted-input-not-consumed-to-its-end", in, fmt.Sprintf("accepted with %d messages and no error, but with one more message appended: %d messages, errors %q", len(ms), len(ms2), errs2))
			return nil, "bad"
		}
	}
	return ms, fmt.Sprintf("accepted-%d", len(ms))
}

func panicClass(p string) string {
	p = strings.ToLower(p)
	switch {
	case strings.Contains(p, "whitespace"):
		return "name-with-whitespace"
	case strings.Contains(p, "index out of range"), strings.Contains(p, "slice bounds"):
		return "index"
	case strings.Contains(p, "nil"):
		return "nil"
	}
	if len(p) > 40 {
		p = p[:40]
	}
	return p
}

// bytesOfMsg is a helper used by several checks.
func sameBytes(a, b []byte) bool { return bytes.Equal(a, b) }
