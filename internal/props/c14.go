package props

import (
	"bytes"
	"fmt"
	"strings"

	"github.com/wolimst/lib-secs2-hsms-go/pkg/ast"
	"github.com/wolimst/lib-secs2-hsms-go/pkg/parser/hsms"

	h "verif/internal/harness"
	"verif/internal/ref"
)

// C14 — HSMS control messages: full enumeration against the HSMS table (R-ctl).

var sysAlphabet = func() [][]byte {
	var r [][]byte
	lane := []byte{0x00, 0x01, 0x7F, 0x80, 0xFF}
	for _, a := range lane {
		for _, b := range lane {
			for _, c := range lane {
				for _, d := range lane {
					r = append(r, []byte{a, b, c, d})
				}
			}
		}
	}
	for pos := 0; pos < 4; pos++ {
		for v := 0; v < 256; v++ {
			s := []byte{0x11, 0x22, 0x33, 0x44}
			s[pos] = byte(v)
			r = append(r, s)
		}
	}
	return r
}()

// checkControl compares a control message with the expected 10-byte header.
func checkControl(c *h.Ctx, what string, m ast.HSMSMessage, want []byte) {
	in := fmt.Sprintf("%s want header %x", what, want)
	if m == nil {
		c.Fail("ctl-nil", in, "constructor returned nil")
		return
	}
	wb := append([]byte{0, 0, 0, 10}, want...)
	gb := m.ToBytes()
	c.Ops(2)
	if !bytes.Equal(gb, wb) {
		c.Fail("ctl-bytes", in, fmt.Sprintf("ToBytes()=%x want %x", gb, wb))
		return
	}
	wt := ref.STypeName(want[4], want[5])
	if gt := m.Type(); gt != wt {
		c.Fail("ctl-type", in, fmt.Sprintf("Type()=%q want %q", gt, wt))
		return
	}
	if wt != "undefined" {
		d, ok := hsms.Parse(gb)
		c.Ops(1)
		if !ok || d == nil {
			c.Fail("ctl-decode-refused", in, fmt.Sprintf("hsms.Parse(%x) ok=%v", gb, ok))
			return
		}
		if d.Type() != wt || !bytes.Equal(d.ToBytes(), wb) {
			c.Fail("ctl-decode-differs", in, fmt.Sprintf("decoded Type()=%q ToBytes()=%x want %q %x", d.Type(), d.ToBytes(), wt, wb))
			return
		}
		if _, isCtl := d.(*ast.ControlMessage); !isCtl {
			c.Fail("ctl-decode-kind", in, fmt.Sprintf("decoded as %T", d))
		}
	}
}

// ctor kinds for the session / system-bytes sweeps
var ctlCtors = []string{"select.req", "deselect.req", "separate.req", "reject.req", "linktest.req", "select.rsp", "deselect.rsp", "linktest.rsp"}

func makeCtl(kind string, sid uint16, sys []byte, code byte, p, s byte) (ast.HSMSMessage, []byte) {
	hdr := make([]byte, 10)
	hdr[0], hdr[1] = byte(sid>>8), byte(sid)
	copy(hdr[6:], sys)
	switch kind {
	case "select.req":
		hdr[5] = 1
		return ast.NewHSMSMessageSelectReq(sid, sys), hdr
	case "deselect.req":
		hdr[5] = 3
		return ast.NewHSMSMessageDeselectReq(sid, sys), hdr
	case "separate.req":
		hdr[5] = 9
		return ast.NewHSMSMessageSeparateReq(sid, sys), hdr
	case "reject.req":
		hdr[5] = 7
		hdr[3] = code
		if code == 2 {
			hdr[2] = p
		} else {
			hdr[2] = s
		}
		return ast.NewHSMSMessageRejectReq(sid, p, s, sys, code), hdr
	case "linktest.req":
		hdr[0], hdr[1], hdr[5] = 0xFF, 0xFF, 5
		return ast.NewHSMSMessageLinktestReq(sys), hdr
	case "select.rsp":
		hdr[5], hdr[3] = 2, code
		return ast.NewHSMSMessageSelectRsp(ast.NewHSMSMessageSelectReq(sid, sys), code), hdr
	case "deselect.rsp":
		hdr[5], hdr[3] = 4, code
		return ast.NewHSMSMessageDeselectRsp(ast.NewHSMSMessageDeselectReq(sid, sys), code), hdr
	case "linktest.rsp":
		hdr[0], hdr[1], hdr[5] = 0xFF, 0xFF, 6
		return ast.NewHSMSMessageLinktestRsp(ast.NewHSMSMessageLinktestReq(sys)), hdr
	}
	panic(kind)
}

func init() {
	h.Register(&h.Check{
		ID:   "C14",
		Rule: "complete enumeration of (PType,SType), session ids, status/reason codes, system-byte lane alphabet, request-kind x response-constructor matrix; every case built with the real constructors, compared byte-for-byte with the HSMS table and decoded back; non-trivial = a message object was built and compared",
		Build: func(tier string, seed int64) []h.Space {
			var sp []h.Space
			fills := [][]byte{{0, 0, 0, 0, 0, 0, 0, 0}, {0xFF, 0xFF, 0xFF, 0xFF, 0xFF, 0xFF, 0xFF, 0xFF}, {1, 2, 3, 4, 7, 8, 9, 10}}
			rawHdr := func(i uint64) []byte {
				d := unrank(i, 256, 256, len(fills))
				f := fills[d[2]]
				return []byte{f[0], f[1], f[2], f[3], byte(d[0]), byte(d[1]), f[4], f[5], f[6], f[7]}
			}
			sp = append(sp, h.Space{Name: "raw-ptype-stype", Count: product(256, 256, len(fills)),
				Describe: func(i uint64) interface{} { return fmt.Sprintf("NewHSMSControlMessage(%x)", rawHdr(i)) },
				Run: func(c *h.Ctx, i uint64) {
					hdr := rawHdr(i)
					arg := append([]byte{}, hdr...)
					m := ast.NewHSMSControlMessage(arg)
					c.Ops(1)
					checkControl(c, fmt.Sprintf("NewHSMSControlMessage(%x)", hdr), m, hdr)
					// the message stays what it is when the caller reuses its buffers afterwards:
					// the constructor argument, and the receive buffer a decoded copy came from
					if ref.STypeName(hdr[4], hdr[5]) != "undefined" && i%7 == 0 {
						buf := append(make([]byte, 0, 32), m.ToBytes()...)
						d, ok := hsms.Parse(buf)
						for k := range arg {
							arg[k] ^= 0xFF
						}
						full := buf[:cap(buf)]
						for k := range full {
							full[k] ^= 0xA5
						}
						checkControl(c, fmt.Sprintf("NewHSMSControlMessage(%x) after the argument slice was overwritten", hdr), m, hdr)
						if ok {
							checkControl(c, fmt.Sprintf("hsms.Parse of the bytes of %x after the receive buffer was overwritten", hdr), d, hdr)
						}
					}
					c.Case(0, true, "raw:"+ref.STypeName(hdr[4], hdr[5]))
				}})
			// all session ids x all constructors
			sp = append(sp, h.Space{Name: "session-x-ctor", Count: product(65536, len(ctlCtors)),
				Describe: func(i uint64) interface{} {
					d := unrank(i, 65536, len(ctlCtors))
					return fmt.Sprintf("%s(session=%d, system=a1b2c3d4, code=3)", ctlCtors[d[1]], d[0])
				},
				Run: func(c *h.Ctx, i uint64) {
					d := unrank(i, 65536, len(ctlCtors))
					m, want := makeCtl(ctlCtors[d[1]], uint16(d[0]), []byte{0xa1, 0xb2, 0xc3, 0xd4}, 3, 0x55, 0x66)
					c.Ops(1)
					checkControl(c, fmt.Sprintf("%s(session=%d)", ctlCtors[d[1]], d[0]), m, want)
					c.Case(0, true, "ctor:"+ctlCtors[d[1]])
				}})
			// status / reason codes
			sp = append(sp, h.Space{Name: "status-codes", Count: product(256, 2),
				Describe: func(i uint64) interface{} {
					d := unrank(i, 256, 2)
					return fmt.Sprintf("%s(status=%d)", []string{"select.rsp", "deselect.rsp"}[d[1]], d[0])
				},
				Run: func(c *h.Ctx, i uint64) {
					d := unrank(i, 256, 2)
					k := []string{"select.rsp", "deselect.rsp"}[d[1]]
					m, want := makeCtl(k, 0x1234, []byte{9, 8, 7, 6}, byte(d[0]), 0, 0)
					c.Ops(1)
					checkControl(c, fmt.Sprintf("%s(status=%d)", k, d[0]), m, want)
					c.Case(0, true, "status:"+k)
				}})
			reasons := []byte{0, 1, 2, 3, 4, 5, 255}
			if tier == "thorough" {
				reasons = make([]byte, 256)
				for i := range reasons {
					reasons[i] = byte(i)
				}
			}
			sp = append(sp, h.Space{Name: "reject-ptype-stype-reason", Count: product(256, 256, len(reasons)),
				Describe: func(i uint64) interface{} {
					d := unrank(i, 256, 256, len(reasons))
					return fmt.Sprintf("reject.req(pType=%d,sType=%d,reason=%d)", d[0], d[1], reasons[d[2]])
				},
				Run: func(c *h.Ctx, i uint64) {
					d := unrank(i, 256, 256, len(reasons))
					m, want := makeCtl("reject.req", 0xBEEF, []byte{1, 2, 3, 4}, reasons[d[2]], byte(d[0]), byte(d[1]))
					c.Ops(1)
					checkControl(c, fmt.Sprintf("reject.req(pType=%d,sType=%d,reason=%d)", d[0], d[1], reasons[d[2]]), m, want)
					c.Case(0, true, fmt.Sprintf("reject:reason%d", reasons[d[2]]))
				}})
			// system bytes
			sp = append(sp, h.Space{Name: "system-bytes-x-ctor", Count: product(len(sysAlphabet), len(ctlCtors)),
				Describe: func(i uint64) interface{} {
					d := unrank(i, len(sysAlphabet), len(ctlCtors))
					return fmt.Sprintf("%s(system=%x)", ctlCtors[d[1]], sysAlphabet[d[0]])
				},
				Run: func(c *h.Ctx, i uint64) {
					d := unrank(i, len(sysAlphabet), len(ctlCtors))
					sys := append([]byte{}, sysAlphabet[d[0]]...)
					m, want := makeCtl(ctlCtors[d[1]], 7, sys, 1, 2, 3)
					c.Ops(1)
					checkControl(c, fmt.Sprintf("%s(system=%x)", ctlCtors[d[1]], sysAlphabet[d[0]]), m, want)
					c.Case(0, true, "sys:"+ctlCtors[d[1]])
				}})
			// two messages encoded in turn: the bytes obtained for the first one (what a caller queues for sending)
			// still are the first message after the second one has been encoded, decoded or had its bytes overwritten
			sp = append(sp, h.Space{Name: "two-messages-encoded-in-turn", Count: product(len(ctlCtors), len(ctlCtors), 3),
				Describe: func(i uint64) interface{} {
					d := unrank(i, len(ctlCtors), len(ctlCtors), 3)
					return fmt.Sprintf("%s encoded, then %s %s", ctlCtors[d[0]], ctlCtors[d[1]], []string{"encoded", "encoded and decoded", "encoded and its bytes overwritten"}[d[2]])
				},
				Run: func(c *h.Ctx, i uint64) {
					d := unrank(i, len(ctlCtors), len(ctlCtors), 3)
					m1, w1 := makeCtl(ctlCtors[d[0]], 0x1234, []byte{1, 2, 3, 4}, 1, 0x80, 5)
					m2, w2 := makeCtl(ctlCtors[d[1]], 0xA55A, []byte{0xF1, 0xF2, 0xF3, 0xF4}, 3, 9, 0x77)
					what := fmt.Sprintf("%s then %s (variant %d)", ctlCtors[d[0]], ctlCtors[d[1]], d[2])
					b1 := m1.ToBytes()
					b2 := m2.ToBytes()
					switch d[2] {
					case 1:
						hsms.Parse(b2)
					case 2:
						for j := range b2 {
							b2[j] ^= 0xFF
						}
						if cap(b2) > len(b2) {
							ext := b2[:cap(b2)]
							for j := len(b2); j < len(ext); j++ {
								ext[j] ^= 0xFF
							}
						}
					}
					c.Ops(3)
					if want := append([]byte{0, 0, 0, 10}, w1...); !bytes.Equal(b1, want) {
						c.Fail("earlier-bytes-changed", what, fmt.Sprintf("bytes obtained from the first message now read %x, they were %x", b1, want))
					}
					checkControl(c, what+": first message again", m1, w1)
					checkControl(c, what+": second message again", m2, w2)
					c.Case(0, true, "in-turn")
				}})
			// responses refuse requests of the wrong kind; echo session+system of the right one
			reqKinds := []string{"select.req", "select.rsp", "deselect.req", "deselect.rsp", "linktest.req", "linktest.rsp", "reject.req", "separate.req",
				"raw:select.req", "raw:deselect.req", "raw:linktest.req", "decoded:select.req", "decoded:deselect.req", "decoded:linktest.req", "data message", "undefined:ptype1", "undefined:stype0", "undefined:stype8", "undefined:stype255"}
			mkReq := func(k string, sid uint16, sys []byte) ast.HSMSMessage {
				switch k {
				case "decoded:select.req", "decoded:deselect.req", "decoded:linktest.req":
					// a request as the decoder returns it
					st := map[string]byte{"decoded:select.req": 1, "decoded:deselect.req": 3, "decoded:linktest.req": 5}[k]
					if k == "decoded:linktest.req" {
						sid = 0xFFFF
					}
					d, ok := hsms.Parse([]byte{0, 0, 0, 10, byte(sid >> 8), byte(sid), 0, 0, 0, st, sys[0], sys[1], sys[2], sys[3]})
					if !ok || d == nil {
						return nil
					}
					return d
				case "raw:select.req", "raw:deselect.req", "raw:linktest.req":
					// a request as it may arrive from the wire: bytes 2,3 not zero
					st := map[string]byte{"raw:select.req": 1, "raw:deselect.req": 3, "raw:linktest.req": 5}[k]
					return ast.NewHSMSControlMessage([]byte{byte(sid >> 8), byte(sid), 0x5A, 0xA5, 0, st, sys[0], sys[1], sys[2], sys[3]})
				case "data message":
					return ast.NewHSMSDataMessage("", 1, 1, 1, "H->E", ast.NewEmptyItemNode(), int(sid), sys)
				case "undefined:ptype1":
					return ast.NewHSMSControlMessage([]byte{byte(sid >> 8), byte(sid), 0, 0, 1, 1, sys[0], sys[1], sys[2], sys[3]})
				case "undefined:stype0":
					return ast.NewHSMSControlMessage([]byte{byte(sid >> 8), byte(sid), 0, 0, 0, 0, sys[0], sys[1], sys[2], sys[3]})
				case "undefined:stype8":
					return ast.NewHSMSControlMessage([]byte{byte(sid >> 8), byte(sid), 0, 0, 0, 8, sys[0], sys[1], sys[2], sys[3]})
				case "undefined:stype255":
					return ast.NewHSMSControlMessage([]byte{byte(sid >> 8), byte(sid), 0, 0, 0, 255, sys[0], sys[1], sys[2], sys[3]})
				}
				m, _ := makeCtl(k, sid, sys, 0, 0, 0)
				return m
			}
			rsps := []string{"select.rsp", "deselect.rsp", "linktest.rsp"}
			sids := []uint16{0, 1, 0x00FF, 0x0100, 0x7FFF, 0x8000, 0xFFFE, 0xFFFF}
			sp = append(sp, h.Space{Name: "response-x-request-kind", Count: product(len(reqKinds), len(rsps), len(sids), 5),
				Describe: func(i uint64) interface{} {
					d := unrank(i, len(reqKinds), len(rsps), len(sids), 5)
					return fmt.Sprintf("%s(request of kind %s, session %d)", rsps[d[1]], reqKinds[d[0]], sids[d[2]])
				},
				Run: func(c *h.Ctx, i uint64) {
					d := unrank(i, len(reqKinds), len(rsps), len(sids), 5)
					sys := [][]byte{{0, 0, 0, 0}, {0xFF, 0xFF, 0xFF, 0xFF}, {1, 2, 3, 4}, {0x80, 0x7F, 0, 0xFF}, {0xDE, 0xAD, 0xBE, 0xEF}}[d[3]]
					rk, k := reqKinds[d[0]], rsps[d[1]]
					req := mkReq(rk, sids[d[2]], sys)
					if req == nil {
						c.Fail("ctl-decode-refused", fmt.Sprintf("a %s with session %d system %x", rk, sids[d[2]], sys), "hsms.Parse refused a well-formed control message")
						c.Case(0, true, "bad")
						return
					}
					reqBytes, reqType := append([]byte{}, req.ToBytes()...), req.Type()
					answer := func() (m ast.HSMSMessage, p interface{}) {
						p = catch(func() {
							switch k {
							case "select.rsp":
								m = ast.NewHSMSMessageSelectRsp(req, 0x42)
							case "deselect.rsp":
								m = ast.NewHSMSMessageDeselectRsp(req, 0x42)
							default:
								m = ast.NewHSMSMessageLinktestRsp(req)
							}
						})
						return
					}
					m, p := answer()
					c.Ops(2)
					in := fmt.Sprintf("%s(<%s session=%d system=%x>)", k, rk, sids[d[2]], sys)
					// the constructor is a function of the request: the request it was given still is the message it was (it
					// reports the same type, encodes to the same bytes), and answering it a second time gives the same verdict
					// and an equal response
					if !bytes.Equal(req.ToBytes(), reqBytes) || req.Type() != reqType {
						c.Fail("request-changed-by-answering", in, fmt.Sprintf("the request was %s %x, after the constructor call it is %s %x", reqType, reqBytes, req.Type(), req.ToBytes()))
					}
					m2, p2 := answer()
					c.Ops(1)
					if (p == nil) != (p2 == nil) {
						c.Fail("second-answer-differs", in, fmt.Sprintf("first call: %v; second call on the same request: %v", p, p2))
					} else if p == nil && !bytes.Equal(m.ToBytes(), m2.ToBytes()) {
						c.Fail("second-answer-differs", in, fmt.Sprintf("first response %x, second response to the same request %x", m.ToBytes(), m2.ToBytes()))
					}
					match := strings.TrimPrefix(strings.TrimPrefix(rk, "raw:"), "decoded:") == k[:len(k)-3]+"req"
					if !match {
						if p == nil {
							c.Fail("rsp-accepts-wrong-request", in, fmt.Sprintf("built %x from a request of the wrong kind", m.ToBytes()))
						}
						c.Case(0, true, "rsp-refused")
						return
					}
					if p != nil {
						c.Fail("rsp-refuses-right-request", in, fmt.Sprint(p))
						return
					}
					want := make([]byte, 10)
					want[0], want[1] = byte(sids[d[2]]>>8), byte(sids[d[2]])
					copy(want[6:], sys)
					switch k {
					case "select.rsp":
						want[3], want[5] = 0x42, 2
					case "deselect.rsp":
						want[3], want[5] = 0x42, 4
					default:
						want[0], want[1], want[5] = 0xFF, 0xFF, 6
					}
					if k == "linktest.rsp" && rk == "raw:linktest.req" && sids[d[2]] != 0xFFFF {
						// the statement says both "0xFFFF for linktest" and "responses echo the
						// session id": for a linktest.req that carries another id either is accepted
						alt := append([]byte{}, want...)
						alt[0], alt[1] = byte(sids[d[2]]>>8), byte(sids[d[2]])
						if bytes.Equal(m.ToBytes()[4:], alt) {
							want = alt
						}
					}
					checkControl(c, in, m, want)
					c.Case(0, true, "rsp-echo")
				}})
			// raw constructor with short headers: zero padded (lengths > 10 are outside the stated domain)
			sp = append(sp, h.Space{Name: "raw-short-header", Count: 11 * 9,
				Describe: func(i uint64) interface{} { return fmt.Sprintf("NewHSMSControlMessage(len=%d, stype=%d)", i/9, i%9+1) },
				Run: func(c *h.Ctx, i uint64) {
					n, st := int(i/9), byte(i%9+1)
					full := []byte{0x12, 0x34, 0x56, 0x78, 0, st, 0xA, 0xB, 0xC, 0xD}
					arg := append([]byte{}, full[:n]...)
					want := make([]byte, 10)
					copy(want, arg)
					m := ast.NewHSMSControlMessage(arg)
					c.Ops(1)
					checkControl(c, fmt.Sprintf("NewHSMSControlMessage(%x)", arg), m, want)
					c.Case(0, true, "short")
				}})
			if tier == "thorough" {
				// full (PType,SType) x session-id product through the raw constructor
				sp = append(sp, h.Space{Name: "raw-ptype-stype-x-session", Count: product(65536, 65536), ChunkHint: 1 << 22,
					Describe: func(i uint64) interface{} {
						return fmt.Sprintf("NewHSMSControlMessage(session=%d ptype=%d stype=%d)", i>>16, (i>>8)&255, i&255)
					},
					Run: func(c *h.Ctx, i uint64) {
						hdr := []byte{byte(i >> 24), byte(i >> 16), 0x5A, 0xA5, byte(i >> 8), byte(i), 1, 2, 3, 4}
						m := ast.NewHSMSControlMessage(hdr)
						wt := ref.STypeName(hdr[4], hdr[5])
						gb := m.ToBytes()
						if m.Type() != wt || len(gb) != 14 || !bytes.Equal(gb[4:], hdr) || gb[0]|gb[1]|gb[2] != 0 || gb[3] != 10 {
							c.Fail("ctl-bytes", fmt.Sprintf("NewHSMSControlMessage(%x)", hdr), fmt.Sprintf("Type()=%q ToBytes()=%x", m.Type(), gb))
						}
						if wt != "undefined" {
							d, ok := hsms.Parse(gb)
							if !ok || d.Type() != wt || !bytes.Equal(d.ToBytes(), gb) {
								c.Fail("ctl-decode-differs", fmt.Sprintf("hsms.Parse(%x)", gb), fmt.Sprintf("ok=%v", ok))
							}
						}
						c.Ops(3)
						c.Case(0, true, "full:"+wt)
					}})
			}
			return sp
		},
	})
}
