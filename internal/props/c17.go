package props

import (
	"bytes"
	"encoding/json"
	"fmt"
	"os"
	"os/exec"
	"path/filepath"
	"strings"
	"time"

	"verif/internal/conc"
	h "verif/internal/harness"
)

// C17 — concurrency safety (E5): controlled-scheduler exploration of every
// operation pair on the statement-instrumented library + a separate free-running
// -race pass of the same bodies (the cooperative scheduler's hand-offs are
// happens-before edges, so the race detector needs real concurrency).

func binDir() string {
	if d := os.Getenv("VERIF_BIN"); d != "" {
		return d
	}
	return filepath.Join(h.Root, "bin")
}

// toolTimeout bounds one run of a tool: the race pass of one pair takes seconds (a stall of minutes is a deadlock
// between the free-running goroutines), one exhaustive exploration may legitimately take many minutes in the thorough tier.
var toolTimeout = map[string]time.Duration{"vrace": 3 * time.Minute, "vschedcheck": 50 * time.Minute}

func runTool(name string, env []string, args ...string) (stdout, stderr string, code int) {
	cmd := exec.Command(filepath.Join(binDir(), name), args...)
	var o, e bytes.Buffer
	cmd.Stdout, cmd.Stderr = &o, &e
	cmd.Env = append(os.Environ(), env...)
	if err := cmd.Start(); err != nil {
		return "", err.Error(), 2
	}
	done := make(chan error, 1)
	go func() { done <- cmd.Wait() }()
	var err error
	select {
	case err = <-done:
	case <-time.After(toolTimeout[name]):
		cmd.Process.Kill()
		<-done
		return o.String(), fmt.Sprintf("%s made no end within %v (killed); stderr: %s", name, toolTimeout[name], e.String()), 99
	}
	code = 0
	if err != nil {
		code = 2
		if ee, ok := err.(*exec.ExitError); ok {
			code = ee.ExitCode()
		}
	}
	return o.String(), e.String(), code
}

type schedReport struct {
	Ops         []string `json:"ops"`
	Bound       int      `json:"bound"`
	Schedules   int      `json:"schedules"`
	Steps       int      `json:"steps"`
	PointsAlone []int    `json:"points_alone"`
	Outcomes    int      `json:"distinct_outcomes"`
	CapHit      bool     `json:"cap_hit"`
	Failure     string   `json:"failure"`
	FailSched   []struct {
		At, Choice int
		Preemption bool
	} `json:"failing_schedule"`
	Globals     []string `json:"package_level_variables"`
	Static      int      `json:"static_points"`
	GlobalWrite string   `json:"package_level_write"`
}

// points per operation alone (measured by the bound-0 phase of a previous pair is not available here):
// the bound is chosen from a first bound-0 run of the pair itself.
func schedulePair(c *h.Ctx, kind string, idx int, names []string, maxSteps1, maxSteps2 float64) {
	in := fmt.Sprintf("%s %d: %s", kind, idx, strings.Join(names, " || "))
	run := func(bound, budget int) (*schedReport, bool) {
		out, errs, code := runTool("vschedcheck", []string{"GOMAXPROCS=1"}, kind, fmt.Sprint(idx), fmt.Sprint(bound), fmt.Sprint(budget))
		if code != 0 {
			c.Fail("scheduler-run-failed", in, fmt.Sprintf("exit %d: %s", code, trunc(errs, 600)))
			return nil, false
		}
		var r schedReport
		if err := json.Unmarshal([]byte(strings.TrimSpace(out)), &r); err != nil {
			c.Fail("scheduler-run-failed", in, "bad report: "+trunc(out, 300))
			return nil, false
		}
		return &r, true
	}
	r, ok := run(0, 0)
	if !ok {
		return
	}
	total := 0.0
	for _, p := range r.PointsAlone {
		total += float64(p)
	}
	bound := 0
	// cost model (steps): bound 1 ~ T^2, bound 2 ~ T^3/2 where T = sum of the threads' scheduling points
	if total*total <= maxSteps1 {
		bound = 1
	}
	if maxSteps2 > 0 && total*total*total/2 <= maxSteps2 {
		bound = 2
	}
	if bound > 0 && r.Failure == "" {
		if r, ok = run(bound, 0); !ok {
			return
		}
	}
	c.Ops(r.Steps)
	c.States += uint64(r.Schedules)
	c.Note(fmt.Sprintf("pairs-completed-at-preemption-bound-%d", bound), 1)
	if len(r.Globals) > 0 {
		c.Info["package-level variables found by the instrumenter"] = strings.Join(r.Globals, ",")
	}
	c.Info["static scheduling points"] = fmt.Sprint(r.Static)
	if r.GlobalWrite != "" {
		c.Info["package-level state written during calls (fact, not a verdict)"] = r.GlobalWrite
	}
	if r.Failure != "" {
		c.Fail("schedule-breaks-call:"+names[0]+"|"+names[len(names)-1], in, fmt.Sprintf("%s; schedule (choice per decision) %v; preemption bound %d", r.Failure, r.FailSched, bound))
	}
	if r.Outcomes > 1 {
		c.Fail("result-depends-on-schedule", in, fmt.Sprintf("%d distinct outcomes", r.Outcomes))
	}
	c.Case(0, true, fmt.Sprintf("bound-%d-explored", bound))
}

func racePair(c *h.Ctx, kind string, idx int, names []string, reps int) {
	in := fmt.Sprintf("%s %d: %s", kind, idx, strings.Join(names, " || "))
	out, errs, code := runTool("vrace", []string{"GORACE=halt_on_error=1 exitcode=66", "GOMAXPROCS=4"}, kind, fmt.Sprint(idx), fmt.Sprint(reps))
	c.Ops(reps * 3)
	switch code {
	case 0:
		c.Case(0, true, "race-free")
	case 66:
		c.Fail("data-race:"+names[0]+"|"+names[len(names)-1], in, trunc(errs, 1800))
		c.Case(0, true, "race")
	case 99:
		c.Fail("process-hang:"+names[0]+"|"+names[len(names)-1], in, trunc(errs, 900))
		c.Case(0, true, "hang")
	case 1:
		c.Fail("concurrent-result-differs:"+names[0]+"|"+names[len(names)-1], in, trunc(out, 900))
		c.Case(0, true, "wrong-result")
	default:
		c.Fail("race-run-failed", in, fmt.Sprintf("exit %d: %s", code, trunc(errs, 900)))
		c.Case(0, true, "failed")
	}
}

func init() {
	h.Register(&h.Check{
		ID:             "C17",
		WatchdogSec:    3600, // one case is a whole exploration by an external tool, which has its own time limit (toolTimeout)
		MemLimitGiB:    -1,   // the -race children need their shadow mapping
		SchedulerStyle: true,
		Rule:           "for every unordered pair of the 21-operation alphabet on shared objects (thorough: also triples): (1) stateless DFS over all interleavings at statement granularity with iterative preemption bounding on the instrumented real code (about 1590 scheduling points; map iteration made deterministic by the instrumenter; sync replaced by a scheduler-aware stand-in so that lock operations are scheduling points with enabledness and deadlock is detected; package-level variables re-initialised before every execution; replay determinism asserted), each call's result compared with the call run alone, shared objects and package-level variables digested at every point of the single-thread runs and at the end of every schedule; (2) free-running -race pass of the same bodies under 3 launch patterns x 20 repetitions; states = schedules explored, transitions = scheduling steps executed",
		Assumptions:    []string{"statement-granularity interleavings; sub-statement tearing and memory-model effects are delegated to the race detector pass", "map iteration is fixed to sorted-key order in the scheduler pass (a legal order); the random orders are exercised by the free-running pass"},
		Build: func(tier string, seed int64) []h.Space {
			pairs := conc.Pairs()
			names := func(ix ...int) []string {
				var n []string
				for _, i := range ix {
					n = append(n, conc.Ops[i].Name)
				}
				return n
			}
			max1, max2 := 4e7, 2e7
			reps := 20
			if tier == "thorough" {
				max1, max2 = 1e9, 1e9
				reps = 40
			}
			sp := []h.Space{
				{Name: "scheduler-all-pairs", Count: uint64(len(pairs)), ChunkHint: 1,
					Describe: func(i uint64) interface{} { return names(pairs[i][0], pairs[i][1]) },
					Run: func(c *h.Ctx, i uint64) {
						schedulePair(c, "pair", int(i), names(pairs[i][0], pairs[i][1]), max1, max2)
					}},
				{Name: "race-detector-all-pairs", Count: uint64(len(pairs)), ChunkHint: 2,
					Describe: func(i uint64) interface{} { return names(pairs[i][0], pairs[i][1]) },
					Run: func(c *h.Ctx, i uint64) {
						racePair(c, "pair", int(i), names(pairs[i][0], pairs[i][1]), reps)
					}},
			}
			if tier == "thorough" {
				tr := conc.Triples()
				sp = append(sp, h.Space{Name: "race-detector-all-triples", Count: uint64(len(tr)), ChunkHint: 4,
					Describe: func(i uint64) interface{} { return names(tr[i][0], tr[i][1], tr[i][2]) },
					Run: func(c *h.Ctx, i uint64) {
						racePair(c, "triple", int(i), names(tr[i][0], tr[i][1], tr[i][2]), 10)
					}},
					h.Space{Name: "scheduler-all-triples", Count: uint64(len(tr)), ChunkHint: 1,
						Describe: func(i uint64) interface{} { return names(tr[i][0], tr[i][1], tr[i][2]) },
						Run: func(c *h.Ctx, i uint64) {
							schedulePair(c, "triple", int(i), names(tr[i][0], tr[i][1], tr[i][2]), 4e7, 0)
						}})
			}
			return sp
		},
	})
}
