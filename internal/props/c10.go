package props

import (
	"fmt"
	"strings"

	"github.com/wolimst/lib-secs2-hsms-go/pkg/ast"

	h "verif/internal/harness"
	"verif/internal/ref"
)

// C10 — ellipsis expansion vs R-ell, the documented expansion written as a
// small recursive function with an explicit suffix argument (no mutable state).

func sfx(s []int) string {
	var sb strings.Builder
	for _, i := range s {
		fmt.Fprintf(&sb, "[%d]", i)
	}
	return sb.String()
}

// ellExpand expands list n: counts maps the names of the ellipses being filled to repeat counts.
func ellExpand(n *ref.Node, counts map[string]int, suffix []int) *ref.Node {
	out := &ref.Node{Kind: ref.L, Children: []*ref.Node{}}
	p, cnt := -1, 0
	for i, c := range n.Children {
		if c.Kind == ref.ELLIPSIS {
			if v, ok := counts[c.Name]; ok {
				p, cnt = i, v
			}
		}
	}
	emit := func(c *ref.Node, s []int) {
		out.Children = append(out.Children, ellRename(c, counts, s))
	}
	if p < 0 {
		for _, c := range n.Children {
			emit(c, suffix)
		}
		return out
	}
	if cnt == 0 {
		for i, c := range n.Children {
			if i != p {
				emit(c, suffix)
			}
		}
		return out
	}
	for j := 0; j <= cnt; j++ {
		s := append(append([]int{}, suffix...), j)
		for _, c := range n.Children[:p] {
			emit(c, s)
		}
	}
	for _, c := range n.Children[p+1:] {
		emit(c, suffix)
	}
	return out
}

func ellRename(c *ref.Node, counts map[string]int, s []int) *ref.Node {
	switch c.Kind {
	case ref.L:
		return ellExpand(c, counts, s)
	case ref.VAR:
		return ref.Var(c.Name + sfx(s))
	case ref.ELLIPSIS:
		return ref.Ell("...") // renumbered in the final pass
	case ref.A:
		if c.AVar != nil {
			return ref.AsciiVar(c.AVar.Name+sfx(s), c.AVar.Min, c.AVar.Max)
		}
		return c.Clone()
	}
	m := c.Clone()
	for i := range m.Elems {
		if m.Elems[i].Var != "" {
			m.Elems[i].Var += sfx(s)
		}
	}
	return m
}

// ellRenumber names the remaining ellipses ...[0], ...[1], ... in order of appearance.
func ellRenumber(n *ref.Node) int {
	k := 0
	var rec func(n *ref.Node)
	rec = func(n *ref.Node) {
		for _, c := range n.Children {
			if c.Kind == ref.ELLIPSIS {
				c.Name = fmt.Sprintf("...[%d]", k)
				k++
			} else if c.Kind == ref.L {
				rec(c)
			}
		}
	}
	rec(n)
	return k
}

// RefEllipsisFill is R-ell for one FillVariables call that carries only ellipsis keys.
func refEllipsisFill(tmpl *ref.Node, counts map[string]int) *ref.Node {
	present := map[string]bool{}
	for _, v := range tmpl.Variables() {
		present[v] = true
	}
	any := false
	for k := range counts {
		if present[k] {
			any = true
		}
	}
	if !any {
		return tmpl.Clone()
	}
	out := ellExpand(tmpl, counts, nil)
	ellRenumber(out)
	return out
}

func ellipsisNames(n *ref.Node) []string {
	var r []string
	for _, v := range n.Variables() {
		if strings.HasPrefix(v, "...") {
			r = append(r, v)
		}
	}
	return r
}

// adoptEllipsisNames copies the library's names of the remaining ellipses into the reference tree (positionally).
func adoptEllipsisNames(n *ref.Node, realVars []string) {
	var names []string
	for _, v := range realVars {
		if strings.HasPrefix(v, "...") {
			names = append(names, v)
		}
	}
	k := 0
	var rec func(n *ref.Node)
	rec = func(n *ref.Node) {
		for _, c := range n.Children {
			if c.Kind == ref.ELLIPSIS {
				if k < len(names) {
					c.Name = names[k]
				}
				k++
			} else if c.Kind == ref.L {
				rec(c)
			}
		}
	}
	rec(n)
}

func uniqueNames(v []string) string {
	seen := map[string]bool{}
	for _, s := range v {
		if seen[s] {
			return s
		}
		seen[s] = true
	}
	return ""
}

// canary: an ordinary expansion executed right after a (possibly refused) fill; a refused or failed
// fill must not leave anything behind that changes later, unrelated fills
func canary(c *h.Ctx, after string) {
	t := ref.List(&ref.Node{Kind: ref.U1, Elems: []ref.Elem{{Var: "x"}}}, ref.Var("tail"), ref.Ell("..."), ref.AsciiVar("z", 0, -1))
	counts := map[string]int{"...": 2}
	res, pan := tryFill(Build(t), map[string]interface{}{"...": 2})
	c.Ops(1)
	if pan != "" {
		c.Fail("later-fill-affected-by-an-earlier-one", "after "+after, "canary fill <L <U1 x> tail ... <A z>> with 2 was refused: "+pan)
	} else if dd := matchesRef(res, refEllipsisFill(t, counts)); dd != "" {
		c.Fail("later-fill-affected-by-an-earlier-one", "after "+after, "canary fill differs: "+dd)
	}
}

func c10Atoms() []*ref.Node {
	q := ref.Elem{Var: "?"}
	return []*ref.Node{
		ref.Var("?"),
		{Kind: ref.U1, Elems: []ref.Elem{{U: 7}, q}},
		{Kind: ref.I2, Elems: []ref.Elem{q, q}},
		ref.AsciiVar("?", 1, 3),
		ref.Uints(ref.U1, 9),
		ref.Ell("?"),
		ref.List(),
		{Kind: ref.BOOLEAN, Elems: []ref.Elem{q}},
	}
}

// ellPairs fills ONE template object with every ordered pair of assignments in turn (the template is immutable: what an
// earlier fill was given must not show in a later one), and gives every assignment twice as the SAME Go map (the map is
// the caller's: a call must not consume it).
func ellPairs(c *h.Ctx, tmpl *ref.Node, maxCount int) {
	ells := ellipsisNames(tmpl)
	radix := make([]int, len(ells))
	for i := range radix {
		radix[i] = maxCount + 2
	}
	total := product(radix...)
	if total > 36 {
		return
	}
	real := Build(tmpl)
	tdesc := strings.ReplaceAll(ref.Print(tmpl), "\n", " ") + fmt.Sprintf(" (ellipses %v)", ells)
	mk := func(a uint64) (map[string]int, map[string]interface{}) {
		d := unrank(a, radix...)
		counts, goMap := map[string]int{}, map[string]interface{}{}
		for i, e := range ells {
			if d[i] > 0 {
				counts[e], goMap[e] = d[i]-1, d[i]-1
			}
		}
		return counts, goMap
	}
	for a2 := uint64(1); a2 < total; a2++ {
		counts2, goMap2 := mk(a2)
		want := refEllipsisFill(tmpl, counts2)
		// the same map object twice
		r1, p1 := tryFill(real, goMap2)
		r2, p2 := tryFill(real, goMap2)
		c.Ops(2)
		in := fmt.Sprintf("template %s filled twice with the same map object %v", tdesc, counts2)
		if p1 != "" || p2 != "" {
			c.Fail("ellipsis-fill-refused", in, p1+" / "+p2)
		} else if dd := matchesRef(r2, want); dd != "" {
			c.Fail("expansion-differs-when-the-map-is-used-again", in, dd+fmt.Sprintf(" (first call: %q)", matchesRef(r1, want)))
		}
		if len(ells) < 2 {
			c.Case(0, true, "same-map-twice")
			continue
		}
		for a1 := uint64(1); a1 < total; a1++ {
			if a1 == a2 {
				continue
			}
			counts1, goMap1 := mk(a1)
			// a fill unlike both first (every ellipsis with a count outside the alphabet): whatever the object remembers
			// of its last use is then about neither of the two, so the pair starts from the same state every time
			flush := map[string]interface{}{}
			for _, e := range ells {
				flush[e] = maxCount + 1
			}
			tryFill(real, flush)
			tryFill(real, goMap1)
			_, fresh := mk(a2)
			res, pan := tryFill(real, fresh)
			c.Ops(3)
			in := fmt.Sprintf("template %s filled with %v directly after the same object was filled with %v", tdesc, counts2, counts1)
			if pan != "" {
				c.Fail("ellipsis-fill-refused", in, pan)
			} else if dd := matchesRef(res, want); dd != "" {
				c.Fail("expansion-depends-on-the-previous-fill", in, dd)
			}
		}
		c.Case(0, true, "after-every-other-assignment")
	}
}

func ellCase(c *h.Ctx, tmpl *ref.Node, maxCount int, second bool) {
	ells := ellipsisNames(tmpl)
	real := Build(tmpl)
	ellPairs(c, tmpl, maxCount)
	tdesc := strings.ReplaceAll(ref.Print(tmpl), "\n", " ") + fmt.Sprintf(" (ellipses %v)", ells)
	radix := make([]int, len(ells))
	for i := range radix {
		radix[i] = maxCount + 2 // 0 = unfilled, k+1 = filled with k
	}
	total := product(radix...)
	for a := uint64(1); a < total; a++ {
		d := unrank(a, radix...)
		counts := map[string]int{}
		goMap := map[string]interface{}{}
		for i, e := range ells {
			if d[i] > 0 {
				counts[e] = d[i] - 1
				goMap[e] = d[i] - 1
			}
		}
		in := fmt.Sprintf("template %s filled with %v", tdesc, counts)
		res, pan := tryFill(real, goMap)
		c.Ops(1)
		if pan != "" {
			c.Fail("ellipsis-fill-refused", in, pan)
			c.Case(0, true, "bad")
			continue
		}
		want := refEllipsisFill(tmpl, counts)
		if dd := matchesRef(res, want); dd != "" {
			c.Fail("expansion-differs", in, dd)
			c.Case(0, true, "bad")
			continue
		}
		vars := res.Variables()
		if dup := uniqueNames(vars); dup != "" {
			c.Fail("duplicate-name-after-expansion", in, dup)
		}
		// remaining ellipses: a single one may be called "..." or "...[0]"; several must be numbered in order of appearance
		rem := 0
		for _, v := range vars {
			if strings.HasPrefix(v, "...") {
				rem++
			}
		}
		if rem > 1 {
			k := 0
			for _, v := range vars {
				if strings.HasPrefix(v, "...") {
					if v != fmt.Sprintf("...[%d]", k) {
						c.Fail("remaining-ellipses-not-renumbered", in, fmt.Sprint(vars))
						break
					}
					k++
				}
			}
		}
		c.Case(0, true, fmt.Sprintf("expanded-%d-remaining", rem))
		if !second {
			continue
		}
		// stage 2a: each generated name can be filled on its own (first 6 variables)
		adoptEllipsisNames(want, vars)
		var slots []slot
		slotsOf(want, &slots)
		done := 0
		for _, s := range slots {
			if s.kind == ref.ELLIPSIS || done >= 6 {
				continue
			}
			done++
			fv := valueOptions(s)[0]
			r2, p2 := tryFill(res, map[string]interface{}{s.name: fv.v})
			c.Ops(1)
			if p2 != "" {
				c.Fail("generated-name-not-fillable", in+" then "+s.name, p2)
				continue
			}
			w2 := substitute(want, map[string]fillValue{s.name: fv})
			if dd := matchesRef(r2, w2); dd != "" {
				c.Fail("generated-name-fill-differs", in+" then "+s.name, dd)
			}
			c.Case(0, true, "stage2-variable")
		}
		// stage 2b: every remaining ellipsis filled in a second call (non-initial state)
		for _, e := range ellipsisNames(want) {
			for _, n2 := range []int{0, 2} {
				r2, p2 := tryFill(res, map[string]interface{}{e: n2})
				c.Ops(1)
				if p2 != "" {
					c.Fail("second-ellipsis-fill-refused", in+fmt.Sprintf(" then %s=%d", e, n2), p2)
					continue
				}
				w2 := refEllipsisFill(want, map[string]int{e: n2})
				if dd := matchesRef(r2, w2); dd != "" {
					c.Fail("second-expansion-differs", in+fmt.Sprintf(" then %s=%d", e, n2), dd)
				}
				c.Case(0, true, "stage2-ellipsis")
			}
		}
	}
}

func init() {
	h.Register(&h.Check{
		ID:          "C10",
		Rule:        "every list template of the scope (depth <= 3, width <= 4, items: list variable, arrays with 1-2 variables, bounded ASCII variable, constants, nested lists, an ellipsis at any position >= 1 of any list) x the complete product of {unfilled,0,1,2,3} per ellipsis (>= 1 filled) on the real FillVariables vs the reference expander R-ell; then every generated name filled individually and every remaining ellipsis filled in a second call; values and ellipses in one call; suffixed-name family (panic or unique); non-int/negative counts refused or ignored, never half-expanded; non-trivial = expansion executed and compared (String, Variables, Size)",
		Assumptions: []string{"a single remaining ellipsis may be named '...' or '...[0]' (the statement fixes neither)", "Go map iteration order is not controllable: every fill is a fresh randomised iteration"},
		Build: func(tier string, seed int64) []h.Space {
			var sp []h.Space
			N, maxCnt := 6, 3
			if tier == "thorough" {
				N = 7
			}
			ts := NewTreeScope(c10Atoms(), N, 3, 4)
			sp = append(sp, h.Space{Name: fmt.Sprintf("list-templates-N%d-x-repeat-counts-x-second-stage", N), Count: ts.Count(),
				Describe: func(i uint64) interface{} { n := ts.Nth(i); nameTemplate(n); return ref.Print(n) },
				Run: func(c *h.Ctx, i uint64) {
					n := ts.Nth(i)
					if n.Kind != ref.L || !nameTemplate(n) || len(ellipsisNames(n)) == 0 {
						c.Case(0, false, "no-ellipsis")
						return
					}
					ellCase(c, n, maxCnt, len(ellipsisNames(n)) <= 2)
				}})
			// deeper nesting: ellipsis chains of depth up to 4, counts up to 3 each
			sp = append(sp, h.Space{Name: "nested-ellipsis-chains", Count: 4 * 4,
				Describe: func(i uint64) interface{} {
					n := nestedEllipses(int(i/4)+1, int(i%4))
					nameTemplate(n)
					return ref.Print(n)
				},
				Run: func(c *h.Ctx, i uint64) {
					n := nestedEllipses(int(i/4)+1, int(i%4))
					nameTemplate(n)
					mc := 3
					if len(ellipsisNames(n)) > 4 {
						mc = 1
					}
					ellCase(c, n, mc, false)
				}})
			// larger repeat counts (multi-digit copy indices)
			bigT := []func() *ref.Node{
				func() *ref.Node {
					return ref.List(&ref.Node{Kind: ref.U1, Elems: []ref.Elem{{Var: "?"}}}, ref.Var("?"), ref.Ell("?"))
				},
				func() *ref.Node {
					return ref.List(ref.List(ref.AsciiVar("?", 0, 2), ref.Ell("?")), ref.Ell("?"), ref.Var("?"))
				},
				func() *ref.Node { return ref.List(ref.Uints(ref.U1, 1), ref.Ell("?")) },
			}
			bigN := []int{9, 10, 11, 12, 25, 100, 101}
			// long chains: every list holds a variable, an ellipsis and - after the ellipsis, so that nothing multiplies - the
			// next list. The number of ellipses to fill and to keep must not be computed as a product that can wrap.
			chainDepths := []int{1, 2, 8, 31, 32, 33, 62, 63, 64, 65, 66, 100}
			chainPatterns := []string{"every ellipsis = 1", "every ellipsis = 0", "all but the innermost two = 1", "all but the outermost two = 2", "only the innermost = 3",
				"counts 65535 65535 65535 32767 2 at the five outermost levels"}
			chain := func(depth int) *ref.Node {
				var n *ref.Node
				for k := depth - 1; k >= 0; k-- {
					ch := []*ref.Node{{Kind: ref.U1, Elems: []ref.Elem{{Var: "?"}}}, ref.Ell("...")}
					if n != nil {
						ch = append(ch, n)
					}
					n = ref.List(ch...)
				}
				return n
			}
			sp = append(sp, h.Space{Name: "chains-of-lists-each-with-an-ellipsis", Count: product(len(chainDepths), len(chainPatterns)), ChunkHint: 1,
				Describe: func(i uint64) interface{} {
					d := unrank(i, len(chainDepths), len(chainPatterns))
					return fmt.Sprintf("chain of %d lists <L v ... <next>>, %s", chainDepths[d[0]], chainPatterns[d[1]])
				},
				Run: func(c *h.Ctx, i uint64) {
					d := unrank(i, len(chainDepths), len(chainPatterns))
					depth := chainDepths[d[0]]
					tmpl := chain(depth)
					nameTemplate(tmpl)
					ells := ellipsisNames(tmpl) // outermost first
					counts := map[string]int{}
					for k, e := range ells {
						switch d[1] {
						case 0:
							counts[e] = 1
						case 1:
							counts[e] = 0
						case 2:
							if k < len(ells)-2 {
								counts[e] = 1
							}
						case 3:
							if k >= 2 {
								counts[e] = 2
							}
						case 4:
							if k == len(ells)-1 {
								counts[e] = 3
							}
						case 5:
							if k < 5 {
								counts[e] = []int{65535, 65535, 65535, 32767, 2}[k]
							}
						}
					}
					if len(counts) == 0 {
						c.Case(0, false, "nothing-to-fill")
						return
					}
					goMap := map[string]interface{}{}
					for k, v := range counts {
						goMap[k] = v
					}
					in := fmt.Sprintf("chain of %d lists <L v ... <next>>, %s", depth, chainPatterns[d[1]])
					res, pan := tryFill(Build(tmpl), goMap)
					c.Ops(1)
					if pan != "" {
						c.Fail("ellipsis-fill-refused", in, pan)
						c.Case(0, true, "bad")
						return
					}
					want := refEllipsisFill(tmpl, counts)
					if dd := matchesRef(res, want); dd != "" {
						c.Fail("expansion-differs", in, trunc(dd, 600))
						c.Case(0, true, "bad")
						return
					}
					if dup := uniqueNames(res.Variables()); dup != "" {
						c.Fail("duplicate-name-after-expansion", in, dup)
					}
					c.Case(0, true, "expanded")
				}})
			sp = append(sp, h.Space{Name: "large-repeat-counts", Count: uint64(len(bigT) * len(bigN) * 2),
				Describe: func(i uint64) interface{} {
					d := unrank(i, len(bigT), len(bigN), 2)
					n := bigT[d[0]]()
					nameTemplate(n)
					return fmt.Sprintf("%s with count %d on ellipsis #%d", ref.Print(n), bigN[d[1]], d[2])
				},
				Run: func(c *h.Ctx, i uint64) {
					d := unrank(i, len(bigT), len(bigN), 2)
					n := bigT[d[0]]()
					nameTemplate(n)
					ells := ellipsisNames(n)
					counts := map[string]int{}
					goMap := map[string]interface{}{}
					if d[2] == 0 || len(ells) == 1 {
						counts[ells[0]], goMap[ells[0]] = bigN[d[1]], bigN[d[1]]
					} else {
						counts[ells[0]], goMap[ells[0]] = 2, 2
						counts[ells[1]], goMap[ells[1]] = bigN[d[1]], bigN[d[1]]
					}
					res, pan := tryFill(Build(n), goMap)
					c.Ops(1)
					in := fmt.Sprintf("%s filled with %v", strings.ReplaceAll(ref.Print(n), "\n", " "), counts)
					if pan != "" {
						c.Fail("ellipsis-fill-refused", in, pan)
					} else if dd := matchesRef(res, refEllipsisFill(n, counts)); dd != "" {
						c.Fail("expansion-differs", in, dd)
					} else if dup := uniqueNames(res.Variables()); dup != "" {
						c.Fail("duplicate-name-after-expansion", in, dup)
					}
					c.Case(0, true, "large-count")
				}})
			// ellipses and values in one call: values address the GENERATED names
			sp = append(sp, h.Space{Name: "ellipsis-and-values-in-one-call", Count: 4 * 4,
				Describe: func(i uint64) interface{} {
					return fmt.Sprintf("<L <U1 v0> v1 ...[0] <A v2>> with ...=%d and values for generated/original names, variant %d", i/4, i%4)
				},
				Run: func(c *h.Ctx, i uint64) {
					cnt := int(i / 4)
					tmpl := ref.List(&ref.Node{Kind: ref.U1, Elems: []ref.Elem{{Var: "v0"}}}, ref.Var("v1"), ref.Ell("...[0]"), ref.AsciiVar("v2", 0, -1))
					m := map[string]interface{}{"...[0]": cnt, "v2": "tail"}
					asg := map[string]fillValue{"v2": {v: "tail", str: "tail"}}
					gen := "v0"
					if cnt > 0 {
						gen = fmt.Sprintf("v0[%d]", cnt)
					}
					switch i % 4 {
					case 1:
						m[gen] = 200
						asg[gen] = fillValue{v: 200, elem: ref.Elem{U: 200}}
					case 2:
						if cnt > 0 {
							m["v0"] = 200 // the original name no longer exists after renaming: ignored
						}
					case 3:
						g1 := "v1"
						if cnt > 0 {
							g1 = "v1[0]"
						}
						m[g1] = ast.NewBooleanNode(true)
						asg[g1] = fillValue{node: ref.Bools(true)}
					}
					res, pan := tryFill(Build(tmpl), m)
					c.Ops(1)
					in := fmt.Sprintf("<L <U1 v0> v1 ... <A v2>> filled with %s", showMap(m))
					if pan != "" {
						c.Fail("combined-fill-refused", in, pan)
					} else {
						want := substitute(refEllipsisFill(tmpl, map[string]int{"...[0]": cnt}), asg)
						if dd := matchesRef(res, want); dd != "" {
							c.Fail("combined-fill-differs", in, dd)
						}
					}
					c.Case(0, true, "combined")
				}})
			// names that already carry [i] suffixes: panic or unique names
			fam := []*ref.Node{
				ref.List(&ref.Node{Kind: ref.U1, Elems: []ref.Elem{{Var: "x"}}}, ref.Ell("..."), &ref.Node{Kind: ref.U1, Elems: []ref.Elem{{Var: "x[0]"}}}),
				ref.List(&ref.Node{Kind: ref.U1, Elems: []ref.Elem{{Var: "x"}}}, &ref.Node{Kind: ref.U1, Elems: []ref.Elem{{Var: "x[0]"}}}, ref.Ell("...")),
				ref.List(ref.Var("x[1]"), ref.Ell("..."), ref.Var("x[1][0]")),
				ref.List(ref.List(ref.Var("x"), ref.Ell("...[0]")), ref.Ell("...[1]"), ref.Var("x[1][1]")),
				ref.List(ref.AsciiVar("x", 0, -1), ref.Ell("..."), ref.AsciiVar("x[1]", 0, -1)),
				// clashes INSIDE an expanded group (the construction fails half-way through the walk)
				ref.List(ref.List(&ref.Node{Kind: ref.U1, Elems: []ref.Elem{{Var: "a"}}}, ref.Ell("...[0]"), &ref.Node{Kind: ref.U1, Elems: []ref.Elem{{Var: "a[0]"}}}), ref.Ell("...[1]")),
				ref.List(ref.List(ref.List(ref.Var("a"), ref.Ell("...[0]"), ref.Var("a[0][0]")), ref.Ell("...[1]")), ref.Ell("...[2]")),
				ref.List(ref.List(ref.AsciiVar("s", 0, -1), ref.Var("s[1]"), ref.Ell("...[0]")), ref.Uints(ref.U1, 1), ref.Ell("...[1]")),
			}
			sp = append(sp, h.Space{Name: "suffixed-name-family", Count: uint64(len(fam) * 4),
				Describe: func(i uint64) interface{} {
					return fmt.Sprintf("%s with every ellipsis = %d", ref.Print(fam[i/4]), i%4)
				},
				Run: func(c *h.Ctx, i uint64) {
					t := fam[i/4]
					m := map[string]interface{}{}
					for _, e := range ellipsisNames(t) {
						m[e] = int(i % 4)
					}
					res, pan := tryFill(Build(t), m)
					c.Ops(1)
					if pan == "" {
						if dup := uniqueNames(res.Variables()); dup != "" {
							c.Fail("duplicate-name-after-expansion", ref.Print(t)+fmt.Sprint(m), dup)
						}
					}
					canary(c, fmt.Sprintf("%s filled with %v (refused=%v)", strings.ReplaceAll(ref.Print(t), "\n", " "), m, pan != ""))
					c.Case(0, true, map[bool]string{true: "refused", false: "unique"}[pan != ""])
				}})
			// non-int and negative counts must be refused
			badCounts := []interface{}{-1, -2, int64(1), uint(1), 1.0, "1", true, nil, int8(1), -1 << 40}
			sp = append(sp, h.Space{Name: "invalid-repeat-counts", Count: uint64(len(badCounts) * 3),
				Describe: func(i uint64) interface{} {
					return fmt.Sprintf("repeat count %T(%v) shape %d", badCounts[i/3], badCounts[i/3], i%3)
				},
				Run: func(c *h.Ctx, i uint64) {
					v := badCounts[i/3]
					var t *ref.Node
					m := map[string]interface{}{}
					switch i % 3 {
					case 0:
						t = ref.List(ref.Var("a"), ref.Ell("..."))
						m["..."] = v
					case 1: // bad inner count inside a repeated outer group
						t = ref.List(ref.List(ref.Var("a"), ref.Ell("...[0]")), ref.Ell("...[1]"))
						m["...[0]"], m["...[1]"] = v, 2
					default:
						t = ref.List(ref.List(ref.Var("a"), ref.Ell("...[0]")), ref.Ell("...[1]"))
						m["...[0]"], m["...[1]"] = 1, v
					}
					res, pan := tryFill(Build(t), m)
					c.Ops(1)
					// the statement defines the expansion for counts n >= 0 only: an invalid count must
					// be refused or leave the template as it is - never produce a half-expanded list
					out := "refused"
					if pan == "" {
						out = "ignored"
						if dd := matchesRef(res, t); dd != "" {
							c.Fail("invalid-repeat-count-garbage", fmt.Sprintf("%s filled with %s", ref.Print(t), showMap(m)), itemString(res))
						}
					}
					canary(c, fmt.Sprintf("%s filled with %s (outcome %s)", strings.ReplaceAll(ref.Print(t), "\n", " "), showMap(m), out))
					c.Case(0, true, out)
				}})
			return sp
		},
	})
}
