// vinstr: statement-level scheduling-point instrumenter for the C17 check.
//
//	vinstr <out-dir> [<overlay.json>]
//
// Reads every non-test .go file of the library's three packages from /repo (or
// from the replacement named in an input overlay, so that mutants are
// instrumented as well), inserts `vsched.Point()` before every statement of every
// function body, records package-level variables, and writes an overlay JSON that
// maps the original paths to the instrumented copies and adds the virtual
// package pkg/vsched. /repo is not touched.
package main

import (
	"bytes"
	"encoding/json"
	"fmt"
	"go/ast"
	"go/format"
	"go/importer"
	"go/parser"
	"go/token"
	"go/types"
	"os"
	"path/filepath"
	"sort"
	"strings"
)

const modPath = "github.com/wolimst/lib-secs2-hsms-go"

var points, mapRanges, unhandledMaps, syncImports, resetVars, initFuncs int

func pointStmt() ast.Stmt {
	points++
	return &ast.ExprStmt{X: &ast.CallExpr{Fun: &ast.SelectorExpr{X: ast.NewIdent("vsched"), Sel: ast.NewIdent("Point")}}}
}

func instrList(list []ast.Stmt) []ast.Stmt {
	out := make([]ast.Stmt, 0, 2*len(list))
	for _, s := range list {
		out = append(out, pointStmt(), s)
	}
	return out
}

type visitor struct{}

func (visitor) Visit(n ast.Node) ast.Visitor {
	switch x := n.(type) {
	case *ast.BlockStmt:
		// the body of switch/select holds only clauses: leave it alone, clauses are handled below
		isClauseBlock := false
		for _, s := range x.List {
			switch s.(type) {
			case *ast.CaseClause, *ast.CommClause:
				isClauseBlock = true
			}
		}
		if !isClauseBlock {
			x.List = instrList(x.List)
		}
	case *ast.CaseClause:
		x.Body = instrList(x.Body)
	case *ast.CommClause:
		x.Body = instrList(x.Body)
	}
	return visitor{}
}

func main() {
	if len(os.Args) < 2 {
		fmt.Fprintln(os.Stderr, "usage: vinstr <out-dir> [<overlay.json>]")
		os.Exit(2)
	}
	out := os.Args[1]
	inOverlay := map[string]string{}
	if len(os.Args) > 2 && os.Args[2] != "" {
		b, err := os.ReadFile(os.Args[2])
		if err != nil {
			fmt.Fprintln(os.Stderr, err)
			os.Exit(2)
		}
		var o struct{ Replace map[string]string }
		json.Unmarshal(b, &o)
		inOverlay = o.Replace
	}
	overlay := map[string]string{}
	pkgs := []string{"pkg/ast", "pkg/parser/hsms", "pkg/parser/sml"}
	verifRoot := os.Getenv("VERIF_SRC")
	if verifRoot == "" {
		verifRoot = "/verif"
	}
	for _, p := range pkgs {
		dir := filepath.Join("/repo", p)
		ents, err := os.ReadDir(dir)
		if err != nil {
			fmt.Fprintln(os.Stderr, err)
			os.Exit(2)
		}
		var globals []string
		pkgName := ""
		fset := token.NewFileSet()
		type pf struct {
			orig string
			name string
			f    *ast.File
		}
		var files []pf
		for _, e := range ents {
			if !strings.HasSuffix(e.Name(), ".go") || strings.HasSuffix(e.Name(), "_test.go") {
				continue
			}
			orig := filepath.Join(dir, e.Name())
			src := orig
			if r, ok := inOverlay[orig]; ok {
				src = r
			}
			f, err := parser.ParseFile(fset, src, nil, parser.ParseComments)
			if err != nil {
				fmt.Fprintln(os.Stderr, err)
				os.Exit(2)
			}
			pkgName = f.Name.Name
			files = append(files, pf{orig, e.Name(), f})
		}
		// make map iteration deterministic: `for k, v := range m` over a map with string keys becomes an
		// iteration over the sorted keys (a legal order; Go's randomised order cannot be controlled otherwise)
		if p == "pkg/ast" {
			var fs []*ast.File
			for _, x := range files {
				fs = append(fs, x.f)
			}
			info := &types.Info{Types: map[ast.Expr]types.TypeAndValue{}}
			conf := types.Config{Importer: importer.ForCompiler(fset, "source", nil), Error: func(error) {}}
			conf.Check(modPath+"/"+p, fset, fs, info)
			for _, x := range files {
				ast.Inspect(x.f, func(n ast.Node) bool {
					rs, ok := n.(*ast.RangeStmt)
					if !ok || rs.Tok != token.DEFINE {
						return true
					}
					tv, ok := info.Types[rs.X]
					if !ok {
						return true
					}
					mt, ok := tv.Type.Underlying().(*types.Map)
					if !ok {
						return true
					}
					if b, ok := mt.Key().Underlying().(*types.Basic); !ok || b.Kind() != types.String {
						unhandledMaps++
						return true
					}
					mapRanges++
					keyName := "_"
					if id, ok := rs.Key.(*ast.Ident); ok && id.Name != "_" {
						keyName = id.Name
					}
					kk := fmt.Sprintf("vschedKey%d", mapRanges)
					var pre []ast.Stmt
					if keyName != "_" {
						pre = append(pre, &ast.AssignStmt{Lhs: []ast.Expr{ast.NewIdent(keyName)}, Tok: token.DEFINE, Rhs: []ast.Expr{ast.NewIdent(kk)}},
							&ast.AssignStmt{Lhs: []ast.Expr{ast.NewIdent("_")}, Tok: token.ASSIGN, Rhs: []ast.Expr{ast.NewIdent(keyName)}})
					}
					if rs.Value != nil {
						if id, ok := rs.Value.(*ast.Ident); ok && id.Name != "_" {
							pre = append(pre, &ast.AssignStmt{Lhs: []ast.Expr{ast.NewIdent(id.Name)}, Tok: token.DEFINE,
								Rhs: []ast.Expr{&ast.IndexExpr{X: rs.X, Index: ast.NewIdent(kk)}}},
								&ast.AssignStmt{Lhs: []ast.Expr{ast.NewIdent("_")}, Tok: token.ASSIGN, Rhs: []ast.Expr{ast.NewIdent(id.Name)}})
						}
					}
					rs.Key, rs.Value = ast.NewIdent("_"), ast.NewIdent(kk)
					rs.X = &ast.CallExpr{Fun: &ast.SelectorExpr{X: ast.NewIdent("vsched"), Sel: ast.NewIdent("SortedStringKeys")}, Args: []ast.Expr{rs.X}}
					rs.Body.List = append(pre, rs.Body.List...)
					return true
				})
			}
		}
		for fi, x := range files {
			f, orig := x.f, x.orig
			before := points + mapRanges
			// `import "sync"` becomes the scheduler-aware stand-in (same package name, so the code is untouched)
			for _, im := range f.Imports {
				if im.Path.Value == `"sync"` {
					im.Path.Value = `"` + modPath + `/pkg/vsched/sync"`
					syncImports++
				}
			}
			var reset []ast.Stmt // re-runs the initialisers of this file's package-level variables
			var extra []ast.Decl
			for _, d := range f.Decls {
				switch x := d.(type) {
				case *ast.FuncDecl:
					if x.Body != nil {
						ast.Walk(visitor{}, x.Body)
					}
					if x.Recv == nil && x.Name.Name == "init" {
						// an init function is part of the initial state: keep it callable so that a reset can re-run it
						initFuncs++
						name := fmt.Sprintf("vschedInit%d_%d", fi, initFuncs)
						x.Name = ast.NewIdent(name)
						call := &ast.ExprStmt{X: &ast.CallExpr{Fun: ast.NewIdent(name)}}
						extra = append(extra, &ast.FuncDecl{Name: ast.NewIdent("init"), Type: &ast.FuncType{Params: &ast.FieldList{}}, Body: &ast.BlockStmt{List: []ast.Stmt{call}}})
						reset = append(reset, call)
					}
				case *ast.GenDecl:
					if x.Tok == token.VAR {
						for _, sp := range x.Specs {
							vs := sp.(*ast.ValueSpec)
							for _, n := range vs.Names {
								if n.Name != "_" {
									globals = append(globals, n.Name)
								}
							}
							for _, v := range vs.Values {
								ast.Walk(visitor{}, v)
							}
							var lhs []ast.Expr
							for _, n := range vs.Names {
								lhs = append(lhs, ast.NewIdent(n.Name))
							}
							switch {
							case len(vs.Values) == len(vs.Names):
								for i, n := range vs.Names {
									if n.Name != "_" {
										reset = append(reset, &ast.AssignStmt{Lhs: []ast.Expr{ast.NewIdent(n.Name)}, Tok: token.ASSIGN, Rhs: []ast.Expr{vs.Values[i]}})
										resetVars++
									}
								}
							case len(vs.Values) == 1:
								reset = append(reset, &ast.AssignStmt{Lhs: lhs, Tok: token.ASSIGN, Rhs: []ast.Expr{vs.Values[0]}})
								resetVars += len(lhs)
							case len(vs.Values) == 0 && vs.Type != nil:
								for _, n := range vs.Names {
									if n.Name != "_" {
										z := &ast.DeclStmt{Decl: &ast.GenDecl{Tok: token.VAR, Specs: []ast.Spec{&ast.ValueSpec{Names: []*ast.Ident{ast.NewIdent("vschedZero")}, Type: vs.Type}}}}
										reset = append(reset, &ast.BlockStmt{List: []ast.Stmt{z, &ast.AssignStmt{Lhs: []ast.Expr{ast.NewIdent(n.Name)}, Tok: token.ASSIGN, Rhs: []ast.Expr{ast.NewIdent("vschedZero")}}}})
										resetVars++
									}
								}
							}
						}
					}
				}
			}
			f.Decls = append(f.Decls, extra...)
			if len(reset) > 0 {
				name := fmt.Sprintf("vschedReset%d", fi)
				f.Decls = append(f.Decls,
					&ast.FuncDecl{Name: ast.NewIdent(name), Type: &ast.FuncType{Params: &ast.FieldList{}}, Body: &ast.BlockStmt{List: reset}},
					&ast.FuncDecl{Name: ast.NewIdent("init"), Type: &ast.FuncType{Params: &ast.FieldList{}}, Body: &ast.BlockStmt{List: []ast.Stmt{
						&ast.ExprStmt{X: &ast.CallExpr{Fun: &ast.SelectorExpr{X: ast.NewIdent("vsched"), Sel: ast.NewIdent("RegisterReset")}, Args: []ast.Expr{ast.NewIdent(name)}}}}}})
			}
			if points+mapRanges > before || len(reset) > 0 {
				imp := &ast.GenDecl{Tok: token.IMPORT, Specs: []ast.Spec{&ast.ImportSpec{Path: &ast.BasicLit{Kind: token.STRING, Value: `"` + modPath + `/pkg/vsched"`}}}}
				f.Decls = append([]ast.Decl{imp}, f.Decls...)
			}
			var buf bytes.Buffer
			if err := format.Node(&buf, fset, f); err != nil {
				fmt.Fprintln(os.Stderr, "format:", err)
				os.Exit(2)
			}
			dst := filepath.Join(out, p, x.name)
			os.MkdirAll(filepath.Dir(dst), 0o755)
			os.WriteFile(dst, buf.Bytes(), 0o644)
			overlay[orig] = dst
		}
		// generated registration of package-level variables
		sort.Strings(globals)
		var g bytes.Buffer
		fmt.Fprintf(&g, "package %s\n\nimport \"%s/pkg/vsched\"\n\nfunc init() {\n\tvsched.RegisterGlobals(%q, map[string]interface{}{\n", pkgName, modPath, p)
		for _, n := range globals {
			fmt.Fprintf(&g, "\t\t%q: &%s,\n", n, n)
		}
		fmt.Fprintf(&g, "\t})\n}\n")
		dst := filepath.Join(out, p, "zz_vsched_globals.go")
		os.WriteFile(dst, g.Bytes(), 0o644)
		overlay[filepath.Join(dir, "zz_vsched_globals.go")] = dst
	}
	// the virtual scheduler package
	vs, err := os.ReadFile(filepath.Join(verifRoot, "internal/vschedsrc/vsched.go.src"))
	if err != nil {
		fmt.Fprintln(os.Stderr, err)
		os.Exit(2)
	}
	dst := filepath.Join(out, "pkg/vsched/vsched.go")
	os.MkdirAll(filepath.Dir(dst), 0o755)
	os.WriteFile(dst, vs, 0o644)
	overlay["/repo/pkg/vsched/vsched.go"] = dst
	ss, err := os.ReadFile(filepath.Join(verifRoot, "internal/vschedsrc/sync.go.src"))
	if err != nil {
		fmt.Fprintln(os.Stderr, err)
		os.Exit(2)
	}
	dst = filepath.Join(out, "pkg/vsched/sync/sync.go")
	os.MkdirAll(filepath.Dir(dst), 0o755)
	os.WriteFile(dst, ss, 0o644)
	overlay["/repo/pkg/vsched/sync/sync.go"] = dst
	cnt := fmt.Sprintf("package vsched\n\nfunc init() { StaticPoints = %d }\n", points)
	os.WriteFile(filepath.Join(out, "pkg/vsched/count.go"), []byte(cnt), 0o644)
	overlay["/repo/pkg/vsched/count.go"] = filepath.Join(out, "pkg/vsched/count.go")
	b, _ := json.MarshalIndent(map[string]interface{}{"Replace": overlay}, "", " ")
	os.WriteFile(filepath.Join(out, "overlay.json"), b, 0o644)
	fmt.Printf("vinstr: %d scheduling points over %d files, %d map ranges made deterministic (%d left as they are), %d package-level variables and %d init functions re-initialised before every execution, %d imports of sync replaced by the scheduler-aware stand-in; overlay %s\n",
		points, len(overlay)-3, mapRanges, unhandledMaps, resetVars, initFuncs, syncImports, filepath.Join(out, "overlay.json"))
}
