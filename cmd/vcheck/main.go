// vcheck: bounded-exhaustive model checking of lib-secs2-hsms-go against C01..C19.
//
//	vcheck run <ID> <quick|thorough>      parent: explore every space of the check
//	vcheck worker <ID> <tier> <seed> <progress-file>   (internal)
//	vcheck single [-v] <ID> <tier> <seed> <space> <index>   one case in isolation
//	vcheck replay <file>                  re-execute a stored violation
//	vcheck list
package main

import (
	"fmt"
	"os"
	"strconv"

	"verif/internal/harness"
	_ "verif/internal/props"
)

func seed() int64 {
	if v, err := strconv.ParseInt(os.Getenv("VERIF_SEED"), 10, 64); err == nil {
		return v
	}
	return 1
}

func main() {
	a := os.Args[1:]
	if len(a) == 0 {
		fmt.Fprintln(os.Stderr, "usage: vcheck run|worker|single|replay|list ...")
		os.Exit(2)
	}
	switch a[0] {
	case "list":
		for _, id := range harness.IDs() {
			fmt.Println(id)
		}
	case "run":
		tier := "quick"
		if len(a) > 2 {
			tier = a[2]
		}
		os.Exit(harness.RunCheck(a[1], tier, seed()))
	case "worker":
		s, _ := strconv.ParseInt(a[3], 10, 64)
		harness.WorkerMain(a[1], a[2], s, a[4])
	case "single":
		v := false
		if a[1] == "-v" {
			v = true
			a = a[1:]
		}
		s, _ := strconv.ParseInt(a[3], 10, 64)
		idx, _ := strconv.ParseUint(a[5], 10, 64)
		os.Exit(harness.SingleMain(a[1], a[2], s, a[4], idx, v))
	case "replay":
		os.Exit(harness.ReplayMain(a[1]))
	default:
		fmt.Fprintln(os.Stderr, "unknown command", a[0])
		os.Exit(2)
	}
}
