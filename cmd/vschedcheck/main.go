//go:build vsched

// vschedcheck: controlled-scheduler exploration of one operation pair (C17).
// Built only with the instrumentation overlay (the import of pkg/vsched resolves
// to the injected virtual package):
//
//	vschedcheck pair <i> <bound> <budget>   -> one JSON line
package main

import (
	"encoding/json"
	"fmt"
	"os"
	"strconv"

	"github.com/wolimst/lib-secs2-hsms-go/pkg/vsched"

	"verif/internal/conc"
)

type report struct {
	Ops         []string        `json:"ops"`
	Bound       int             `json:"bound"`
	Schedules   int             `json:"schedules"`
	Steps       int             `json:"steps"`
	PointsAlone []int           `json:"points_alone"`
	Outcomes    int             `json:"distinct_outcomes"`
	CapHit      bool            `json:"cap_hit"`
	Failure     string          `json:"failure,omitempty"`
	FailSched   []vsched.Switch `json:"failing_schedule,omitempty"`
	Globals     []string        `json:"package_level_variables"`
	Static      int             `json:"static_points"`
	Determinism string          `json:"determinism"`
	GlobalWrite string          `json:"package_level_write,omitempty"`
}

func main() {
	idx, _ := strconv.Atoi(os.Args[2])
	bound, _ := strconv.Atoi(os.Args[3])
	budget, _ := strconv.Atoi(os.Args[4])
	var ops []int
	if os.Args[1] == "pair" {
		p := conc.Pairs()[idx]
		ops = []int{p[0], p[1]}
	} else {
		t := conc.Triples()[idx]
		ops = []int{t[0], t[1], t[2]}
	}
	seq := conc.Sequential()
	rep := report{Bound: bound, Globals: vsched.GlobalNames(), Static: vsched.StaticPoints}
	for _, o := range ops {
		rep.Ops = append(rep.Ops, conc.Ops[o].Name)
	}
	var sh *conc.Shared
	// the reference digest comes from a twin set of objects: observing the live ones before
	// the threads start would warm up any lazily built state inside them
	base := conc.SharedDigest(conc.NewShared())
	var gbase string
	bodies := func() []func() string {
		vsched.ResetGlobals() // every execution starts from the initial (cold) package-level state
		sh = conc.NewShared()
		gbase = vsched.GlobalsDigest()
		var b []func() string
		for _, o := range ops {
			o := o
			b = append(b, func() string { return conc.Ops[o].Run(sh) })
		}
		return b
	}
	check := func(x *vsched.Execution) string {
		for k, o := range ops {
			if x.Panics[k] != nil {
				return fmt.Sprintf("%s panicked: %v", conc.Ops[o].Name, x.Panics[k])
			}
			if x.Results[k] != seq[o] {
				return fmt.Sprintf("%s returned %q, alone it returns %q", conc.Ops[o].Name, x.Results[k], seq[o])
			}
		}
		if d := conc.SharedDigest(sh); d != base {
			return "a shared object changed during the execution"
		}
		// a changed package-level variable is not a violation by itself (it may be properly
		// synchronised): it is reported as a fact; wrong results and races are the verdicts
		return ""
	}
	// phase 0: each thread alone with the shared-state digest compared at EVERY scheduling point
	// (schedule-independent detection of a write to shared data, statement granularity)
	for k := range ops {
		k := k
		one := func() []func() string { return bodies()[k : k+1] }
		// count first; the per-point digest is only affordable for operations of moderate length
		x0, err0 := vsched.Run(one(), nil, nil)
		if err0 != nil {
			fmt.Fprintln(os.Stderr, err0)
			os.Exit(2)
		}
		if x0.Decisions > 6000 {
			rep.PointsAlone = append(rep.PointsAlone, x0.Decisions)
			if d := conc.SharedDigest(sh); d != base && rep.Failure == "" {
				rep.Failure = "shared object written by " + rep.Ops[k]
			}
			continue
		}
		x, err := vsched.Run(one(), nil, func(step, running int) string {
			if d := conc.SharedDigest(sh); d != base {
				return "shared object written by " + rep.Ops[k]
			}
			if g := vsched.GlobalsDigest(); g != gbase && rep.GlobalWrite == "" {
				rep.GlobalWrite = fmt.Sprintf("%s writes package-level state at its scheduling point %d", rep.Ops[k], step)
			}
			return ""
		})
		if err != nil {
			fmt.Fprintln(os.Stderr, err)
			os.Exit(2)
		}
		rep.PointsAlone = append(rep.PointsAlone, x.Decisions)
		if x.HookFailure != "" && rep.Failure == "" {
			rep.Failure = x.HookFailure
		}
	}
	// determinism: the same schedule replayed twice gives identical traces and observations
	mid := []vsched.Switch{{At: rep.PointsAlone[0] / 2, Choice: 1}}
	x1, e1 := vsched.Run(bodies(), mid, nil)
	x2, e2 := vsched.Run(bodies(), mid, nil)
	rep.Determinism = "ok"
	if e1 != nil || e2 != nil || fmt.Sprint(x1.Segments, x1.Results, x1.Decisions) != fmt.Sprint(x2.Segments, x2.Results, x2.Decisions) {
		rep.Determinism = "DIVERGED"
		fmt.Fprintln(os.Stderr, "replay of one schedule diverged")
		os.Exit(2)
	}
	if rep.Failure == "" {
		e := &vsched.Explorer{Bodies: bodies, Bound: bound, Check: check, Budget: budget}
		if err := e.Explore(); err != nil {
			fmt.Fprintln(os.Stderr, err)
			os.Exit(2)
		}
		rep.Schedules, rep.Steps, rep.Outcomes, rep.CapHit = e.Schedules, e.Steps, len(e.Outcomes), e.CapHit
		rep.Failure, rep.FailSched = e.Failure, e.FailSched
	}
	b, _ := json.Marshal(rep)
	fmt.Println(string(b))
}
