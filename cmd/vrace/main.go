// vrace: free-running pass of the C17 scenario bodies, built with -race.
// The cooperative scheduler's hand-offs are happens-before edges that blind the
// race detector, so the same operation pairs/triples run here with real
// concurrency: `vrace pair <i>` / `vrace triple <i>`; the race detector reports
// (GORACE=halt_on_error=1 exitcode=66) any unsynchronised conflicting access.
// The first round is a cold start (no library call has happened yet in the process).
// Results are also compared with the sequential ones. Exit 0 ok, 1 wrong result, 66 race.
package main

import (
	"fmt"
	"os"
	"strconv"
	"sync"
	"sync/atomic"

	"verif/internal/conc"
)

func spin(n int) int {
	x := 0
	for i := 0; i < n; i++ {
		x += i ^ x
	}
	return x
}

func main() {
	if len(os.Args) < 3 {
		fmt.Fprintln(os.Stderr, "usage: vrace pair|triple <index> [reps]")
		os.Exit(2)
	}
	idx, _ := strconv.Atoi(os.Args[2])
	reps := 20
	if len(os.Args) > 3 {
		reps, _ = strconv.Atoi(os.Args[3])
	}
	var ops []int
	if os.Args[1] == "pair" {
		p := conc.Pairs()[idx]
		ops = []int{p[0], p[1]}
	} else {
		t := conc.Triples()[idx]
		ops = []int{t[0], t[1], t[2]}
	}
	sinks := make([]int, 8)
	// cold start: the very first library calls of this process happen concurrently, each
	// goroutine building its own objects (exposes lazily built package-level state)
	{
		var wg sync.WaitGroup
		var start int32
		res := make([]string, len(ops))
		for k, o := range ops {
			wg.Add(1)
			go func(k, o int) {
				defer wg.Done()
				for atomic.LoadInt32(&start) == 0 {
				}
				res[k] = conc.Ops[o].Run(conc.NewShared())
			}(k, o)
		}
		atomic.StoreInt32(&start, 1)
		wg.Wait()
		seq := conc.Sequential()
		for k, o := range ops {
			if res[k] != seq[o] {
				fmt.Printf("WRONG-RESULT (cold start) op=%q concurrent=%q alone=%q\n", conc.Ops[o].Name, res[k], seq[o])
				os.Exit(1)
			}
		}
	}
	seq := conc.Sequential()
	for rep := 0; rep < reps; rep++ {
		for pattern := 0; pattern < 3; pattern++ {
			s := conc.NewShared()
			var wg sync.WaitGroup
			var start int32
			res := make([]string, len(ops))
			for k, o := range ops {
				wg.Add(1)
				go func(k, o int) {
					defer wg.Done()
					for atomic.LoadInt32(&start) == 0 {
					}
					// staggered launch patterns (sync-free spin) so that every order of the accesses occurs
					switch pattern {
					case 1:
						sinks[k] += spin(k * 2000)
					case 2:
						sinks[k] += spin((len(ops) - 1 - k) * 2000)
					}
					res[k] = conc.Ops[o].Run(s)
				}(k, o)
			}
			atomic.StoreInt32(&start, 1)
			wg.Wait()
			for k, o := range ops {
				if res[k] != seq[o] {
					fmt.Printf("WRONG-RESULT op=%q concurrent=%q alone=%q\n", conc.Ops[o].Name, res[k], seq[o])
					os.Exit(1)
				}
			}
		}
	}
	fmt.Printf("ok ops=%v executions=%d\n", ops, reps*3)
}
