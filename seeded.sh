#!/bin/bash
# seeded.sh verify <srcdir> <A|B> <PROP>   confirm a sub-agent's change in a fresh scratch worktree and store it
#                                           as /verif/seeded/<PROP>-<A|B>/ (patch.diff, demo_test.go, meta.json)
# seeded.sh run <PROP>-<A|B> [CHECK ...]   apply the stored patch to /repo, run the checks (default: its property's
#                                           check, quick tier), ALWAYS undo it (git -C /repo checkout -- .)
# seeded.sh runall                          run every stored change against its own check; one line each
set -u
cd "$(dirname "$0")"
export GOFLAGS=-mod=mod GOPROXY=off GOSUMDB=off GOTOOLCHAIN=local GOCACHE=/verif/.cache/go
case "${1:-}" in
verify)
  src=$2; L=$3; P=$4; SL=${5:-$L}; id="$P-$SL"
  wt=$(mktemp -d /tmp/seedchk.XXXXXX); rmdir "$wt"
  git -C /repo worktree add -q --detach "$wt" HEAD || exit 2
  trap 'git -C /repo worktree remove --force "$wt" >/dev/null 2>&1' EXIT
  cp -r "$src/seeddemo_$L" "$wt/seeddemo_$L"
  race=""; [ "$P" = C17 ] && race="-race"
  ok=1
  # demo passes on the unchanged tree
  (cd "$wt" && go test $race -vet=off -count=1 ./seeddemo_$L/ >"$wt/demo_clean.log" 2>&1); r_clean=$?
  git -C "$wt" apply "$src/$L.diff" || { echo "$id: patch does not apply"; exit 1; }
  (cd "$wt" && go build ./... >"$wt/build.log" 2>&1); r_build=$?
  (cd "$wt" && go test -vet=off -count=1 ./pkg/... >"$wt/tests.log" 2>&1); r_tests=$?
  (cd "$wt" && go test $race -vet=off -count=1 ./seeddemo_$L/ >"$wt/demo_changed.log" 2>&1); r_changed=$?
  echo "$id: demo on unchanged tree exit=$r_clean; with change: build=$r_build existing-tests=$r_tests demo=$r_changed"
  if [ $r_clean -ne 0 ] || [ $r_build -ne 0 ] || [ $r_tests -ne 0 ] || [ $r_changed -eq 0 ]; then
    echo "$id: REJECTED (claims do not hold)"; tail -5 "$wt/demo_clean.log" "$wt/tests.log" | head -30; exit 1
  fi
  mkdir -p "seeded/$id"
  cp "$src/$L.diff" "seeded/$id/patch.diff"
  cp "$src/seeddemo_$L/demo_test.go" "seeded/$id/demo_test.go"
  python3 - "$id" "$P" "$L" "$src" <<'PY'
import sys, json, re, subprocess
id, P, L, src = sys.argv[1:5]
notes = open(src + "/NOTES.md").read()
files = re.findall(r'^\+\+\+ b/(\S+)', open(src + "/" + L + ".diff").read(), re.M)
meta = {
 "id": id, "property": P, "source": "independent sub-agent given only the property text and a scratch worktree of /repo (nothing from /verif)",
 "files_changed": files,
 "needs_to_manifest": "see notes", "notes_from_author": notes[:6000],
 "confirmed": {"base_commit": subprocess.run(["git","-C","/repo","rev-parse","--short","HEAD"],capture_output=True,text=True).stdout.strip(),
               "patch_applies": True, "builds": True, "existing_tests_pass_with_change": True,
               "demo_fails_with_change": True, "demo_passes_without_change": True,
               "how": "fresh scratch worktree of /repo: go test ./seeddemo_X (unchanged) -> pass; git apply patch.diff; go build ./...; go test ./pkg/... -> pass; go test ./seeddemo_X -> FAIL"},
 "detected_by": {},
}
json.dump(meta, open("seeded/%s/meta.json" % id, "w"), indent=1)
PY
  echo "$id: stored in /verif/seeded/$id"
  ;;
run)
  id=$2; shift 2
  P=${id%%-*}
  checks=("$@"); [ ${#checks[@]} -eq 0 ] && checks=("$P")
  mkdir -p .work/seedrun; cp known_findings.json .work/seedrun/
  [ -z "$(git -C /repo status --porcelain)" ] || { echo "/repo is not clean"; exit 2; }
  trap 'git -C /repo checkout -- . ; git -C /repo clean -fdq pkg' EXIT
  git -C /repo apply "$PWD/seeded/$id/patch.diff" || exit 2
  for c in "${checks[@]}"; do
    out=$(VERIF_ROOT=/verif/.work/seedrun ./run.sh "$c" "${TIER:-quick}" 2>&1); rc=$?
    n=$(echo "$out" | grep -c "^VIOLATION property=$c ")
    first=$(echo "$out" | grep -m1 "  class=" | cut -c1-150)
    if [ $rc -eq 1 ] && [ "$n" -gt 0 ]; then echo "$id vs $c: DETECTED ($n violation lines;$first)"; else echo "$id vs $c: MISSED (exit $rc) $(echo "$out" | tail -1 | cut -c1-200)"; fi
  done
  ;;
overlay)
  # one stored change against its own property's check (or the checks named) through go build -overlay (/repo untouched)
  id=$2; shift 2
  t=$(mktemp -d /tmp/seedov.XXXXXX)
  checks=("$@"); [ ${#checks[@]} -eq 0 ] && checks=("${id%%-*}")
  rc=0
  for c in "${checks[@]}"; do cp "seeded/$id/patch.diff" "$t/$c-seed${id}.patch"; done
  MUT_DIR="$t" ./mutants.sh all; rc=$?
  rm -rf "$t"; exit $rc
  ;;
overlayall)
  # every stored change against its own property's check through go build -overlay (/repo untouched)
  t=$(mktemp -d /tmp/seedov.XXXXXX)
  for d in seeded/*/; do id=$(basename "$d"); cp "$d/patch.diff" "$t/${id%%-*}-seed${id##*-}.patch"; done
  MUT_DIR="$t" ./mutants.sh ${2:-all}; rc=$?
  rm -rf "$t"; exit $rc
  ;;
reverify)
  # every stored change once more against the CURRENT /repo HEAD (nothing is stored): patch applies, builds, repository
  # tests pass with it, demonstration fails with it and passes without it
  for d in seeded/*/; do
    id=$(basename "$d"); P=${id%%-*}
    wt=$(mktemp -d /tmp/seedchk.XXXXXX); rmdir "$wt"
    git -C /repo worktree add -q --detach "$wt" HEAD || exit 2
    mkdir "$wt/seeddemo"; cp "$d/demo_test.go" "$wt/seeddemo/"
    race=""; [ "$P" = C17 ] && race="-race"
    (cd "$wt" && go test $race -vet=off -count=1 ./seeddemo/ >/dev/null 2>&1); r_clean=$?
    if git -C "$wt" apply "$PWD/$d/patch.diff" 2>/dev/null; then
      (cd "$wt" && go build ./... >/dev/null 2>&1); r_build=$?
      (cd "$wt" && go test -vet=off -count=1 ./pkg/... >/dev/null 2>&1); r_tests=$?
      (cd "$wt" && go test $race -vet=off -count=1 ./seeddemo/ >/dev/null 2>&1); r_changed=$?
      v=OK; { [ $r_clean -ne 0 ] || [ $r_build -ne 0 ] || [ $r_tests -ne 0 ] || [ $r_changed -eq 0 ]; } && v=STALE
      echo "$id: $v (demo unchanged=$r_clean; with change: build=$r_build tests=$r_tests demo=$r_changed)"
    else
      echo "$id: STALE (patch does not apply)"
    fi
    git -C /repo worktree remove --force "$wt" >/dev/null 2>&1
  done
  ;;
runall)
  for d in seeded/*/; do id=$(basename "$d"); "$0" run "$id"; done
  ;;
*) echo "usage: seeded.sh verify|run|runall ..."; exit 2;;
esac
