#!/bin/bash
# run.sh <ID> <quick|thorough> | replay <file> | setup | baseline-off
# Builds the checker from /repo's CURRENT working tree (module replace => /repo,
# build tag "verif") on every invocation, then runs it.
set -u
cd "$(dirname "$0")"
HERE=$(pwd)
export GOFLAGS=-mod=mod GOPROXY=off GOSUMDB=off GOTOOLCHAIN=local
export GOCACHE=${VERIF_GOCACHE:-/verif/.cache/go}
mkdir -p bin .work .cache
BIN=${VERIF_BIN:-$HERE/bin}
export VERIF_BIN="$BIN"
build() {
  go build -tags verif -o bin/vcheck ./cmd/vcheck || { echo "BUILD FAILED" >&2; exit 2; }
}
# C17 tools: instrumenter -> overlay -> scheduler checker; race-detector build of the same scenario bodies.
# VERIF_OVERLAY (optional) names an input overlay (a mutant): it is instrumented / raced instead of /repo's files.
build_c17() {
  mkdir -p "$BIN"
  go build -o bin/vinstr ./cmd/vinstr || { echo "BUILD FAILED (vinstr)" >&2; exit 2; }
  (cd /repo && VERIF_SRC="$HERE" "$HERE/bin/vinstr" "$BIN/../instr-$$" "${VERIF_OVERLAY:-}") >/dev/null || { echo "INSTRUMENTATION FAILED" >&2; exit 2; }
  go build -tags "verif vsched" -overlay "$BIN/../instr-$$/overlay.json" -o "$BIN/vschedcheck" ./cmd/vschedcheck || { echo "BUILD FAILED (vschedcheck)" >&2; exit 2; }
  rm -rf "$BIN/../instr-$$"
  if [ -n "${VERIF_OVERLAY:-}" ]; then
    go build -race -tags verif -overlay "$VERIF_OVERLAY" -o "$BIN/vrace" ./cmd/vrace || { echo "BUILD FAILED (vrace)" >&2; exit 2; }
  else
    go build -race -tags verif -o "$BIN/vrace" ./cmd/vrace || { echo "BUILD FAILED (vrace)" >&2; exit 2; }
  fi
}
case "${1:-}" in
  setup)
    build
    build_c17
    ./bin/vcheck list >/dev/null || exit 2
    echo "setup ok"
    ;;
  baseline-off)
    cd /repo && go test -vet=off -count=1 ./...
    ;;
  replay)
    build
    exec ./bin/vcheck replay "$2"
    ;;
  C07)
    # the allocation bound must hold in every build mode: after the regular run the same spaces run once more on a checker
    # built with inlining disabled (escape analysis changes; evidence of this second pass goes to .work/, not to evidence/)
    build
    tier="${2:-${VERIF_TIER:-quick}}"
    ./bin/vcheck run C07 "$tier"; rc=$?
    [ $rc -ne 0 ] && exit $rc
    go build -tags verif -gcflags=all=-l -o bin/vcheck-noinline ./cmd/vcheck || { echo "BUILD FAILED (no-inline)" >&2; exit 2; }
    mkdir -p .work/c07-noinline
    cp "${VERIF_ROOT:-$HERE}/known_findings.json" .work/c07-noinline/ 2>/dev/null
    VERIF_ROOT="$HERE/.work/c07-noinline" ./bin/vcheck-noinline run C07 quick | sed 's/^C07 quick:/C07 (checker and library built with -gcflags=all=-l) quick:/'
    exit ${PIPESTATUS[0]}
    ;;
  C17)
    build
    build_c17
    exec ./bin/vcheck run "$1" "${2:-${VERIF_TIER:-quick}}"
    ;;
  *)
    build
    exec ./bin/vcheck run "$1" "${2:-${VERIF_TIER:-quick}}"
    ;;
esac
