#!/bin/bash
# run.sh <ID> <quick|thorough> | replay <file> | setup | baseline-off
# Builds the checker from /repo's CURRENT working tree (module replace => /repo,
# build tag "verif") on every invocation, then runs it.
set -u
cd "$(dirname "$0")"
export GOFLAGS=-mod=mod GOPROXY=off GOSUMDB=off GOTOOLCHAIN=local
export GOCACHE=/verif/.cache/go
mkdir -p bin .work .cache
build() {
  go build -tags verif -o bin/vcheck ./cmd/vcheck || { echo "BUILD FAILED" >&2; exit 2; }
}
case "${1:-}" in
  setup)
    build
    ./bin/vcheck list >/dev/null || exit 2
    echo "setup ok"
    ;;
  baseline-off)
    cd /repo && go test -vet=off -count=1 ./...
    ;;
  replay)
    build
    exec ./bin/vcheck replay "$2"
    ;;
  *)
    build
    exec ./bin/vcheck run "$1" "${2:-${VERIF_TIER:-quick}}"
    ;;
esac
