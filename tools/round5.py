#!/usr/bin/env python3
"""round5.py <log> [...]: records round, needs_to_manifest and detected_by for the round-5 seeded changes (I, J) from the
one-line-per-change logs of `seeded.sh overlay` ("<CHECK>-seed<ID>: DETECTED (...)"; later lines win) and inserts / replaces
their rows in the table of DESIGN.md section 11.3 (the rows of earlier rounds are left as they are)."""
import json, os, re, sys, glob
NEEDS = {
 "C01-I": "two goroutines inside hsms.Parse at the same time, each decoding a non-list, non-ASCII item (package-level staging buffer in the decoder); sequential use never shows it",
 "C01-J": "one message in which nesting depth plus the number of EMPTY lists decoded so far reaches 10000 (empty-list fast path skips the depth decrement)",
 "C02-I": "system bytes passed as a slice of exactly 4 bytes, the caller writes to that slice after the constructor / decoder returned, the message is encoded afterwards",
 "C02-J": "lists nested 17 or more deep (iterative ToBytes: a pointer into the explicit stack is taken before the stack is re-allocated); repeats at 33, 65, ...",
 "C03-I": "one message holding about 10,000 empty lists in total at any level (shared empty-list node returned before the depth counter is given back)",
 "C03-J": "Parse accepts a data message, the caller then overwrites the receive buffer, and only then SystemBytes()/ToBytes() are called on the decoded message",
 "C04-I": "a message name that starts with U+017F (long s) followed by digits, f, digits: (?i) folds it with S and the printed name is lexed as a stream/function token",
 "C04-J": "a message name containing '<' after its first character (the name scanner stops at '<')",
 "C05-I": "negative zero written as an integer literal (-0, -00) in an F4/F8 item: routed through int64, the sign is lost",
 "C05-J": "a sign character standing alone as a literal (<U1 +>, <I4 1 - 2>, <B ->): one-character tokens skip strconv",
 "C06-I": "lists nested about 25 or more deep with at least one variable at the bottom (child Variables() evaluated twice per level: exponential time)",
 "C06-J": "an A item whose only value is a variable name used earlier in the message, with a declared lower bound above 2^62 (power-of-two rounding loop never ends)",
 "C07-I": "correctly framed data message with the W-bit on an even function whose text decodes (or is absent): the constructor panic after the narrowed recover escapes hsms.Parse",
 "C07-J": "one list with thousands of elements that are themselves lists, all present in the input (capacity-capped shared stack: every completed child forces a re-allocation, quadratic)",
 "C08-I": "a bare W as the last header token of its line with a // comment glued to it (W//c): lexed as a message name W",
 "C08-J": "a comment in the message text whose text ends in a white-space rune other than space/tab/CR (U+3000, NBSP, VT, FF...): the trimmed rune is re-lexed as input",
 "C09-I": "the fill map gives an ASCII variable a value that is not a Go string (5, nil, []byte, an item): silently passed over instead of refused",
 "C09-J": "a list-level variable in a list at depth >= 1 renamed through a string the constructor refuses there (blank inside, empty, leading digit, ellipsis in first place, second ellipsis)",
 "C10-I": "the SAME template object filled twice in a row with different partial assignments that have the same sequence of counts (memo keyed by the counts only)",
 "C10-J": "the same Go map object passed to a second FillVariables call (splitValues removes the ellipsis keys from the caller's map)",
 "C11-I": "a select.req / deselect.req (constructed or decoded) observed again after a response was derived from it (reply header appended onto the request's own header prefix)",
 "C11-J": "M.ToBytes() on an encodable message, then M.SetSessionIDAndSystemBytes(different id/bytes), then M.ToBytes() again (derived header stamped into the parent's cached frame)",
 "C12-I": "a U* item with two variables, FillVariables with a string equal to the name of the other, unfilled variable: duplicate name accepted, one variable becomes 0",
 "C12-J": "I1/I2/I4 item, value passed as the same-width unsigned Go type with its top bit set, every other argument of the call narrow or a variable name (range pass skipped)",
 "C13-I": "an A item holding a character in U+0080..U+00FF (or a received byte >= 0x80): length field and limit use the UTF-8 byte count, the body has one byte per character",
 "C13-J": "items of at most 8 encoded bytes of the same type and size encoded while another one's bytes are still held, or a list whose later child list has the same count (memoised header slice handed out with spare capacity)",
 "C14-I": "one request object used again after it has been answered (Type(), ToBytes(), a second answer): the shared response-header helper writes into the request",
 "C14-J": "a header with PType 0 and SType 0 or 8 given to NewHSMSControlMessage: Type() returns the empty string instead of undefined (sparse table)",
 "C15-I": "a line comment inside the size brackets whose text contains a digit, a point or a bracket: the characters leak into the size token",
 "C15-J": "the [..b] form on an ASCII variable: the missing lower bound becomes -1 and the variable factory refuses the template",
 "C16-I": "a name duplicated exactly twice that is the alphabetically greatest name of the list being built (sorted neighbour comparison never looks at the last pair)",
 "C16-J": "complete the header while variables remain, ToBytes(), then FillVariables the rest, then ToBytes(): empty bytes although Variables() is empty (remembered encodability copied by derive())",
 "C17-I": "SML input with lists nested deeper than 10000 followed by at least one more token: the parser sets a plain bool that the lexer goroutine of the same Parse reads",
 "C17-J": "two or more concurrent sml.Parse calls on faulty texts that repeat a sized ASCII variable name, with a declared size larger than any seen before in the process (package-level placeholder, broken double-checked locking)",
 "C18-I": "SetSessionIDAndSystemBytes given a slice with >= 4 bytes of spare capacity (a window into a larger buffer) that the caller reuses afterwards",
 "C18-J": "optional wait bit, all variables filled, session set, and SetWaitBit as the LAST completing step: the precomputed complete flag is not recomputed, ToBytes() is empty",
 "C19-I": "the earlier message's last line holds a quoted string, a line comment follows on that same line and contains a CR that is not part of the closing CRLF (shared remembered line end)",
 "C19-J": "a named, body-less earlier message with '.' directly after the name, followed by the next message with no separator at all (a point ending a name becomes the terminator)",
}
LINE = re.compile(r'^(C\d\d)-seed(C\d\d-[IJ]): (DETECTED|MISSED)(.*)$')
res = {}
for f in sys.argv[1:]:
    for ln in open(f, errors="replace"):
        m = LINE.match(ln.strip())
        if m:
            chk, sid, verdict, rest = m.groups()
            n = re.search(r'\((\d+) violation classes', rest); cls = re.search(r'class=(\S+)', rest); spc = re.search(r'space=(\S+)', rest)
            res[(sid, chk)] = (verdict, int(n.group(1)) if n else 0, cls.group(1) if cls else "", spc.group(1) if spc else "")
rows = {}
for sid, need in sorted(NEEDS.items()):
    d = "/verif/seeded/%s/" % sid
    if not os.path.isdir(d):
        print("not stored:", sid); continue
    meta = json.load(open(d + "meta.json"))
    meta["round"] = 5
    meta["needs_to_manifest"] = need
    det = {}
    for (s, chk), (verdict, n, cls, spc) in sorted(res.items()):
        if s == sid and verdict == "DETECTED":
            det[chk + " quick"] = {"violation_classes": n, "first_class": cls, "space": spc}
    if det:
        meta["detected_by"] = det
    det = meta.get("detected_by", {})
    json.dump(meta, open(d + "meta.json", "w"), indent=1)
    how = "; ".join("%s: `%s` in `%s`" % (k.split()[0], v["first_class"][:60], v["space"][:50]) for k, v in det.items()) or "-"
    nd = need.replace("|", "/")
    if len(nd) > 150: nd = nd[:147] + "..."
    rows[sid] = "| %s | 5 | %s | %s | %s |" % (sid, ", ".join(os.path.basename(x) for x in meta.get("files_changed", [])), nd, how)
    if not det: print("NOT DETECTED:", sid)
lines = open("/verif/DESIGN.md").read().split("\n")
lines = [l for l in lines if not re.match(r'^\| C\d\d-[IJ] \| 5 \|', l)]
out = []
for i, l in enumerate(lines):
    out.append(l)
    m = re.match(r'^\| (C\d\d)-H \|', l)
    if m:
        for s in ("I", "J"):
            if m.group(1) + "-" + s in rows: out.append(rows[m.group(1) + "-" + s])
open("/verif/DESIGN.md", "w").write("\n".join(out))
print("rows:", len(rows))
