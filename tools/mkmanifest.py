#!/usr/bin/env python3
"""Regenerates /verif/MANIFEST.json from the table below (keeps it schema-valid)."""
import json, subprocess
ALL = ["C%02d" % i for i in range(1, 20)]
# id -> (technique, level text, level note, design section)
CHECKS = {
 "C14": ("bounded-exhaustive enumeration of constructor arguments on the real code vs. HSMS table model",
         "Every (PType,SType) pair, every session id per constructor, every status code, reject PType x SType x reasons, system-byte lane alphabet and the request-kind x response-constructor matrix are enumerated completely and each case is executed on the real constructors, Type(), ToBytes() and hsms.Parse and compared with an independent table of the HSMS header layout; thorough adds the full (PType,SType) x session product (4.3e9 cases).",
         "Trusted: Go toolchain. Headers longer than 10 bytes for the raw constructor are outside the stated domain and not judged.", "5/C14"),
}
CHECKS.update({
 "C01": ("bounded-exhaustive round-trip exploration of the real encoder+decoder over headers x trees x sizes x 4 construction routes",
         "All stream/function/wait-bit combinations, all 65536 session ids, the system-byte lane alphabet, every item tree of the scope (about 1e5 trees quick, 4e6 thorough, leaf alphabet with boundary values of all 14 formats incl. non-empty binary), deep trees to depth 8 and the 255|256 / 65535|65536 (thorough: 16777215) size boundaries for all 14 formats are each built through four routes (factories, template+fill, SML print/parse, decoder output), encoded, decoded by the real decoder, compared field by field and re-encoded twice.",
         "Values of 4/8-byte formats are represented by boundary values only (C02 sweeps lanes/bits); random system bytes are replaced by the lane alphabet.", "5/C01"),
 "C02": ("bounded-exhaustive enumeration of items/messages on the real encoder vs. independent reference encoder (R-enc)",
         "Every tree of the scope, every value of the 1- and 2-byte formats, F4 sign x exponent x mantissa patterns with quarter-ulp roundings (thorough: all 2^32 F4 bit patterns), bit/lane/boundary/seeded patterns of I4/U4/I8/U8/F8, the header product, all session ids, and the waitbit x session x variables incompleteness product are built with the real factories and ToBytes() is compared byte-for-byte with a reference encoder written from the SEMI E5/E37 tables (F4 rounding via math/big).",
         "Trusted: math/big rounding, the reference tables.", "5/C02"),
 "C03": ("deviation-bounded exhaustive exploration of byte strings on the real decoder vs. strict reference decoder (R-dec)",
         "Bound 0: every valid encoding of ~1e5 trees under every 1/2/3-length-byte assignment; bound 1: every single deviation (each truncation point, appended tails, every text byte position x all 255 other values, every length-field substitution at each width; header bytes x all values) of every small message; thorough adds bound 2 (pairs) and 27 length forms; plus all texts up to 2 (3) bytes over the full alphabet, up to 5 (6) over a 24-symbol format/length alphabet, and the PType x SType x body x W-bit header product. Each input is decoded by the real decoder and by an independent strict decoder; verdict, decoded tree, and re-encoding are compared.",
         "A control message with a body is an either-cell (statement's two sentences conflict). Inputs are presented both as exact slices and as prefixes of larger buffers (spare capacity).", "5/C03"),
 "C07": ("bounded-exhaustive hostile-input enumeration on the real decoder in rlimited workers with exact allocation accounting",
         "Complete product format x length-byte count x declared length x bytes present x nesting depth x enclosing declared count, adversarial nested lists that each declare the bytes left, honest 2^k-byte items of every format, deep nesting to 2048, all 24-symbol texts up to 4 (5) bytes and all 2-byte texts with tails: each decoded in a worker subprocess (RLIMIT_AS 4 GiB, watchdog, death = violation after 5 confirmations) with runtime.MemStats.TotalAlloc delta required <= 64 KiB + 2048 B per input byte.",
         "The two constants are measured (honest worst case 563 B/byte), not derived.", "5/C07"),
 "C13": ("exhaustive sweep of the length-header routine via the verif hook + boundary enumeration of real items + decoder read-back",
         "getHeaderBytes/getDataByteLength are swept for all 14 formats over every size 0..70000 and limit-70000..limit+64 plus lane patterns (thorough: EVERY size 0..16777215/w+64, 1.4e8 calls) against the reference header; real items are built by the factories at every 1|2|3-length-byte boundary and at limit-1, limit, limit+1 for all 14 formats (constructible iff n*w<=16777215, header exact, decoded count equal); the decoder reads back every payload length 0..1024, 65280..65792 (thorough 0..70000) and 125 lane lengths in every admissible length form.",
         "Decoder-side sweep is complete to 70000 only (needs real payloads); lists of 16777215 children only in thorough.", "5/C13"),
})
NA = {}
hooks_commits = subprocess.run(["git", "-C", "/repo", "log", "--format=%H", "--grep=^verif hook"], capture_output=True, text=True).stdout.split()
m = {
 "version": 1,
 "setup_cmd": "./run.sh setup",
 "hooks": {"guard": "verif", "enable": "go build -tags verif (run.sh builds the checker against /repo's working tree via a module replace directive)",
           "baseline_off_cmd": "./run.sh baseline-off", "source_commits": hooks_commits, "add_only": True},
 "engines": [
  {"name": "vcheck", "path": "cmd/vcheck + internal/harness", "serves_properties": sorted(CHECKS),
   "kind_free_text": "hand-written bounded-exhaustive explorer: index-addressable finite spaces, every index executed on the real library in rlimited worker subprocesses, reference models in internal/ref"},
 ],
 "checks": [],
 "not_applicable": [{"property_id": p, "reason": NA.get(p, "check not built yet in this round (planned, see DESIGN.md section 5)")} for p in ALL if p not in CHECKS],
 "notes": "All checks are bounded-exhaustive explorations of the real implementation (model checking family); see DESIGN.md.",
}
for p in sorted(CHECKS):
    tech, text, note, ref = CHECKS[p]
    m["checks"].append({
     "property_id": p, "quick_cmd": f"./run.sh {p} quick", "thorough_cmd": f"./run.sh {p} thorough",
     "evidence_file": f"/verif/evidence/{p}.json", "replay_cmd_template": "./run.sh replay {path}", "engine": "vcheck",
     "level_claimed": {"category": "model_checking", "text": text, "design_ref": "DESIGN.md section " + ref},
     "level_note": note, "technique": tech})
json.dump(m, open("/verif/MANIFEST.json", "w"), indent=1)
print("MANIFEST.json:", len(m["checks"]), "checks,", len(m["not_applicable"]), "not_applicable")
