#!/usr/bin/env python3
"""Regenerates /verif/MANIFEST.json from the table below (keeps it schema-valid)."""
import json, subprocess
ALL = ["C%02d" % i for i in range(1, 20)]
# id -> (technique, level text, level note, design section)
CHECKS = {
 "C14": ("bounded-exhaustive enumeration of constructor arguments on the real code vs. HSMS table model",
         "Every (PType,SType) pair, every session id per constructor, every status code, reject PType x SType x reasons, system-byte lane alphabet and the request-kind x response-constructor matrix are enumerated completely and each case is executed on the real constructors, Type(), ToBytes() and hsms.Parse and compared with an independent table of the HSMS header layout; thorough adds the full (PType,SType) x session product (4.3e9 cases).",
         "Trusted: Go toolchain. Headers longer than 10 bytes for the raw constructor are outside the stated domain and not judged.", "5/C14"),
}
CHECKS.update({
 "C01": ("bounded-exhaustive round-trip exploration of the real encoder+decoder over headers x trees x sizes x 4 construction routes",
         "All stream/function/wait-bit combinations, all 65536 session ids, the system-byte lane alphabet, every item tree of the scope (about 1e5 trees quick, 4e6 thorough, leaf alphabet with boundary values of all 14 formats incl. non-empty binary), deep trees to depth 8 and the 255|256 / 65535|65536 (thorough: 16777215) size boundaries for all 14 formats are each built through four routes (factories, template+fill, SML print/parse, decoder output), encoded, decoded by the real decoder, compared field by field and re-encoded twice.",
         "Values of 4/8-byte formats are represented by boundary values only (C02 sweeps lanes/bits); random system bytes are replaced by the lane alphabet.", "5/C01"),
 "C02": ("bounded-exhaustive enumeration of items/messages on the real encoder vs. independent reference encoder (R-enc)",
         "Every tree of the scope, every value of the 1- and 2-byte formats, F4 sign x exponent x mantissa patterns with quarter-ulp roundings (thorough: all 2^32 F4 bit patterns), bit/lane/boundary/seeded patterns of I4/U4/I8/U8/F8, the header product, all session ids, and the waitbit x session x variables incompleteness product are built with the real factories and ToBytes() is compared byte-for-byte with a reference encoder written from the SEMI E5/E37 tables (F4 rounding via math/big).",
         "Trusted: math/big rounding, the reference tables.", "5/C02"),
 "C03": ("deviation-bounded exhaustive exploration of byte strings on the real decoder vs. strict reference decoder (R-dec)",
         "Bound 0: every valid encoding of ~1e5 trees under every 1/2/3-length-byte assignment; bound 1: every single deviation (each truncation point, appended tails, every text byte position x all 255 other values, every length-field substitution at each width; header bytes x all values) of every small message; thorough adds bound 2 (pairs) and 27 length forms; plus all texts up to 2 (3) bytes over the full alphabet, up to 5 (6) over a 24-symbol format/length alphabet, and the PType x SType x body x W-bit header product. Each input is decoded by the real decoder and by an independent strict decoder; verdict, decoded tree, and re-encoding are compared.",
         "A control message with a body is an either-cell (statement's two sentences conflict). Inputs are presented both as exact slices and as prefixes of larger buffers (spare capacity).", "5/C03"),
 "C07": ("bounded-exhaustive hostile-input enumeration on the real decoder in rlimited workers with exact allocation accounting",
         "Complete product format x length-byte count x declared length x bytes present x nesting depth x enclosing declared count, adversarial nested lists that each declare the bytes left, honest 2^k-byte items of every format, deep nesting to 2048, all 24-symbol texts up to 4 (5) bytes and all 2-byte texts with tails: each decoded in a worker subprocess (RLIMIT_AS 4 GiB, watchdog, death = violation after 5 confirmations) with runtime.MemStats.TotalAlloc delta required <= 64 KiB + 2048 B per input byte.",
         "The two constants are measured (honest worst case 563 B/byte), not derived.", "5/C07"),
 "C13": ("exhaustive sweep of the length-header routine via the verif hook + boundary enumeration of real items + decoder read-back",
         "getHeaderBytes/getDataByteLength are swept for all 14 formats over every size 0..70000 and limit-70000..limit+64 plus lane patterns (thorough: EVERY size 0..16777215/w+64, 1.4e8 calls) against the reference header; real items are built by the factories at every 1|2|3-length-byte boundary and at limit-1, limit, limit+1 for all 14 formats (constructible iff n*w<=16777215, header exact, decoded count equal); the decoder reads back every payload length 0..1024, 65280..65792 (thorough 0..70000) and 125 lane lengths in every admissible length form.",
         "Decoder-side sweep is complete to 70000 only (needs real payloads); lists of 16777215 children only in thorough.", "5/C13"),
})
CHECKS.update({
 "C04": ("bounded-exhaustive print->parse exploration of the real printer+parser over headers x names x template trees x strings x numbers; fixed-point check on all accepted token soups",
         "All 128x256 stream/function codes x 3 wait-bit states x 3 directions, every 1- and 2-rune name over a 40-rune alphabet that satisfies an independently stated name predicate, every template tree of the scope (values of all formats, variables in every item kind, four ASCII bound forms, list variables, nested ellipses), every 1- and 2-character string over ASCII 0..127 and 3-character strings over 12 hard characters, boundary numbers and F4/F8 exponent sweeps are built with the real factories, printed (and the print compared with an independent printer), parsed back and compared in every observer and in bytes once completed; every accepted text of the token-soup space is checked to be a fixed point.",
         "Variable names avoid the 16 words the text lexer reserves; ellipses are named ...[k] in order of appearance (what SML can express).", "5/C04"),
 "C05": ("exhaustive enumeration of a finite literal grammar x 14 item types x positions on the real parser vs. math/big denotations",
         "Signs x 8 base forms x 34 magnitudes, signs x 22 mantissas x 17 exponents, T/F/t/f, quoted strings (all 1- and 2-character printable strings, backslash triples, non-ASCII), character codes 0..200 in 4 bases, variables, in first/middle/last/single position of all 14 item types and in lower-case skeletons; the expectation (exact value / must be an error / either for forms the documented grammar leaves open) is computed with math/big independently of strconv; the parsed item's String() and ToBytes() must denote exactly that value.",
         "either-cells fixed in DESIGN C05 (+n in unsigned, -0, leading zeros, '5.', hex in floats, half-ulp above MaxFloat).", "5/C05"),
 "C06": ("bounded-exhaustive hostile-text enumeration on the real parser in rlimited worker subprocesses (death/hang detection)",
         "All fragment sequences up to 4 (5) over a 40-fragment SML/hostile vocabulary, 10 lexer-state prefixes x every byte string up to 2 bytes x 3 suffixes (thorough: all 3-byte strings in 4 states), 12 magnitudes in 26 numeric slots (pairs), nesting depths to 1000 (2000), every Unicode space/odd byte in 17 positions, and 3-message texts are parsed in worker subprocesses with RLIMIT_AS 4 GiB and a 120 s watchdog; a dead or hung worker is a violation after 5 confirming re-executions; oracle: normal return, errors => no messages, every diagnostic formatted and positioned inside the input, accepted messages are fixed points, k messages in => k out in order.",
         "Inputs longer than the bounds (multi-megabyte nesting) are not explored.", "5/C06"),
 "C08": ("bounded-exhaustive metamorphic layout exploration (deviation-bounded) on the real parser with token-wise diagnostic tracking",
         "446 base token sequences (printed messages covering every token kind and every single-token deletion/duplication of them): every gap x 13 separators (bound 1; thorough also all pairs of gaps), uniform layouts, a comment from a 268-text alphabet containing every possible final byte appended to every line, and keyword / number-prefix case variants (all-lower, all-upper, each token alone); messages must be identical and every diagnostic must keep its text and move to the new line/column of the same token.",
         "Whitespace inside a size declaration [a..b] is not varied (one token).", "5/C08"),
 "C15": ("exhaustive small-number enumeration of size declarations x item types x counts on the real parser and ASCII variable fill",
         "4 declaration forms x 14 item types x (lower, upper, actual) in {0..4}^3 ({0..6}^3 thorough) x 2 element renderings, huge/overflowing bounds, and for ASCII variables 4 forms x bounds incl. inverted x fill strings of every length 0..6 (through the parser and through the factory): accepted iff within bounds, error positioned at the declaration, bounds kept (FillInStringLength), printed back, re-parsed and enforced on fill.",
         "", "5/C15"),
 "C19": ("bounded-exhaustive enumeration of concatenations of accepted texts on the real parser (compositional oracle)",
         "All ordered pairs over ~110 accepted texts (every final-token form, with/without direction, ellipses with/without numbers, printed templates that reuse the same variable names) x 7 separators, every accepted token soup x 5 context texts in both orders, and triples over a subset: the concatenation must be accepted and return exactly the messages of the parts (deep equality incl. Variables, so ellipsis renumbering is observed) and their warnings shifted by the join offset.",
         "", "5/C19"),
})
CHECKS.update({
 "C09": ("bounded-exhaustive exploration of fill histories (assignments x ordered splits) on the real FillVariables vs. substitution model (R-fill)",
         "Every ellipsis-free template tree of the scope (all node kinds, every non-empty subset of 3 positions as variables, four ASCII bound forms, list variables; 4.8e3 templates quick, 3e5 thorough) x every assignment drawn from {unassigned, two in-domain values of different Go types, one out-of-domain value} per variable plus unknown keys x every ordered partition of the assignment into up to 3 successive fills (3.1e6 fill sequences quick); messages additionally under all 24 orders of two partial fills, SetWaitBit and SetSessionIDAndSystemBytes. Oracle: textbook substitution on the reference template and direct construction through the factories (String, Variables, Size, ToBytes), refusal iff some value is out of domain, multi-step == one-step.",
         "Fill-in values are variable-free (as the property's quantifier states); Go map iteration order is not controllable.", "5/C09"),
 "C10": ("bounded-exhaustive exploration of list templates x repeat-count assignments (and second-stage fills) on the real expander vs. reference expander (R-ell)",
         "All list templates with depth <= 3, width <= 4 and up to 6 (7) nodes over 8 atoms, an ellipsis at any position >= 1 of any list (5e4 templates quick) x the complete product of {unfilled,0,1,2,3} per ellipsis; then each generated variable name is filled on its own and each remaining ellipsis is filled in a second call (non-initial states); nested chains to depth 4; ellipses and values in one call; suffixed-name family; invalid counts. Oracle: a 40-line recursive reference expander with an explicit suffix argument; String, Variables (uniqueness, renumbering in order of appearance) and Size compared.",
         "A single remaining ellipsis may be called ... or ...[0]; negative/non-int counts must be refused or ignored, never half-expanded.", "5/C10"),
 "C12": ("bounded-exhaustive argument sweep of every factory and of FillVariables vs. math/big arithmetic",
         "Every accepted Go argument type (int, int8..int64, uint..uint64, float32, float64, plus bool/nil/[]byte) x boundary values around every range boundary x 11 numeric formats x 3 positions x {factory, FillVariables}; all 65536 int16 and uint16 values into I1/U1/B; every 0b-string over a 6-symbol alphabet up to length 4 and long forms; float alphabet with NaN/Inf/above-max/half-ulp; 64-bit integers that are sensitive to double rounding in F4; every byte in ASCII strings; the complete product of message-constructor arguments (stream, function, wait bit, session, direction) through NewDataMessage, NewHSMSDataMessage, SetSessionIDAndSystemBytes and SetWaitBit; every variable name up to length 4 over an 8-symbol alphabet in 7 node kinds; duplicate and ellipsis placements. In range => stored exactly (String and ToBytes), out of range => panic.",
         "An in-range value that is refused is counted, not judged (the statement allows 'stores exactly or refuses').", "5/C12"),
 "C16": ("bounded-exhaustive exploration of template trees x 4 construction routes with a three-observer agreement oracle",
         "Every template tree of the scope (1.4e6 cases quick) as built by the factories, as produced by a partial fill, as produced by an ellipsis expansion and as produced by the SML parser: variable names read back from String() by an independent tokenizer of the printed form must equal Variables() in order, be distinct, ToBytes() must be non-empty iff there are no variables, Size() must equal the printed element count (-1 for an ASCII variable); each observer is repeated 8 (32) times to expose map-order dependence; all compared with the reference template as well.",
         "Go map iteration order is not controllable (repetition instead).", "5/C16"),
})
CHECKS.update({
 "C11": ("explicit-state breadth-first search over API histories on the real objects (replay on fresh instances, canonical state key with reflective alias graph), invariant in every state",
         "States are pools of live items/messages plus every slice/map the caller still holds (arguments passed in; slices returned by SystemBytes, ToBytes, Variables); transitions are real calls (SetWaitBit, SetSessionIDAndSystemBytes with fresh or held buffers, FillVariables with fresh or held maps, NewListNode over pooled items, NewHSMSDataMessage, NewDataMessage, NewHSMSControlMessage over a held header, response constructors, hsms.Parse over a held buffer) and in-place mutations of the held values (overwrite every element, write into spare capacity and append, map overwrite/delete/insert). From 6 initial pools, all histories to depth 3 (4 thorough) are explored breadth-first, 5e4 distinct canonical states quick; in every state every existing object must still show its creation snapshot (all observers) and observers must be idempotent.",
         "Pool capped at 9 objects and 9 held values; a library call that writes into caller-held data without changing any item/message is not judged (the statement does not cover it).", "5/C11"),
 "C17": ("stateless model checking: DFS over all interleavings of operation pairs with iterative preemption bounding on the statement-instrumented real code under a cooperative scheduler; separate free-running -race pass of the same bodies",
         "A go/ast instrumenter (rebuilt from the current tree on every run, go build -overlay, /repo untouched) inserts a scheduling point before every statement of the three packages (1584 points) and makes map iteration deterministic; for all 120 unordered pairs of a 15-operation alphabet on shared objects (String, ToBytes, Variables, Size, value and ellipsis fills, Header, SetWaitBit, SetSessionIDAndSystemBytes, SystemBytes, Type, NewListNode over shared children, both parsers, a response constructor) every interleaving with at most 1 preemption (quick; 2 where a*b*(a+b) <= 2.5e8 in thorough; pairs whose cost exceeds the budget are completed at bound 0 and reported as such) is executed; every call must return what it returns alone, shared objects and package-level variables are digested at every point of the single-thread runs and after every schedule; replaying a schedule twice must give identical traces. The same bodies run free under -race (GOMAXPROCS=4, cold start + 3 launch patterns x 20 repetitions; thorough: all 455 triples).",
         "Statement granularity; memory-model effects are delegated to the race detector. Map iteration order is fixed to sorted keys in the scheduler pass.", "5/C17"),
 "C18": ("explicit-state breadth-first search over producer histories on the real messages vs. a record model (R-msg)",
         "From 180 initial messages (wait bit x function parity x session x item x name x direction) all histories of SetWaitBit(true|false), SetSessionIDAndSystemBytes(5 ids x 6 buffer lengths) and FillVariables(every sub-assignment, unknown keys, a rejected value) to depth 3 (4 thorough) are explored breadth-first (successor = replay on a fresh object + one call), 3e5 transitions quick; after every transition all eleven observables are compared with the record updated only in the named fields, acceptance must agree with the record model, the receiver must be unchanged and the result must pass the constructor's validity rules.",
         "", "5/C18"),
})
NA = {}
hooks_commits = subprocess.run(["git", "-C", "/repo", "log", "--format=%H", "--grep=^verif hook"], capture_output=True, text=True).stdout.split()
m = {
 "version": 1,
 "setup_cmd": "./run.sh setup",
 "hooks": {"guard": "verif", "enable": "go build -tags verif (run.sh builds the checker against /repo's working tree via a module replace directive)",
           "baseline_off_cmd": "./run.sh baseline-off", "source_commits": hooks_commits, "add_only": True},
 "engines": [
  {"name": "vcheck", "path": "cmd/vcheck + internal/harness", "serves_properties": sorted(CHECKS),
   "kind_free_text": "hand-written bounded-exhaustive explorer: index-addressable finite spaces, every index executed on the real library in rlimited worker subprocesses, reference models in internal/ref"},
 ],
 "checks": [],
 "not_applicable": [{"property_id": p, "reason": NA.get(p, "check not built yet in this round (planned, see DESIGN.md section 5)")} for p in ALL if p not in CHECKS],
 "notes": "All checks are bounded-exhaustive explorations of the real implementation (model checking family); see DESIGN.md.",
}
for p in sorted(CHECKS):
    tech, text, note, ref = CHECKS[p]
    m["checks"].append({
     "property_id": p, "quick_cmd": f"./run.sh {p} quick", "thorough_cmd": f"./run.sh {p} thorough",
     "evidence_file": f"/verif/evidence/{p}.json", "replay_cmd_template": "./run.sh replay {path}", "engine": "vcheck",
     "level_claimed": {"category": "model_checking", "text": text, "design_ref": "DESIGN.md section " + ref},
     "level_note": note, "technique": tech})
json.dump(m, open("/verif/MANIFEST.json", "w"), indent=1)
print("MANIFEST.json:", len(m["checks"]), "checks,", len(m["not_applicable"]), "not_applicable")
