#!/usr/bin/env python3
"""Regenerates /verif/MANIFEST.json from the table below (keeps it schema-valid)."""
import json, subprocess
ALL = ["C%02d" % i for i in range(1, 20)]
# id -> (technique, level text, level note, design section)
CHECKS = {
 "C14": ("bounded-exhaustive enumeration of constructor arguments on the real code vs. HSMS table model",
         "Every (PType,SType) pair, every session id per constructor, every status code, reject PType x SType x reasons, system-byte lane alphabet and the request-kind x response-constructor matrix are enumerated completely and each case is executed on the real constructors, Type(), ToBytes() and hsms.Parse and compared with an independent table of the HSMS header layout; thorough adds the full (PType,SType) x session product (4.3e9 cases).",
         "Trusted: Go toolchain. Headers longer than 10 bytes for the raw constructor are outside the stated domain and not judged.", "5/C14"),
}
NA = {}
hooks_commits = subprocess.run(["git", "-C", "/repo", "log", "--format=%H", "--grep=^verif hook"], capture_output=True, text=True).stdout.split()
m = {
 "version": 1,
 "setup_cmd": "./run.sh setup",
 "hooks": {"guard": "verif", "enable": "go build -tags verif (run.sh builds the checker against /repo's working tree via a module replace directive)",
           "baseline_off_cmd": "./run.sh baseline-off", "source_commits": hooks_commits, "add_only": True},
 "engines": [
  {"name": "vcheck", "path": "cmd/vcheck + internal/harness", "serves_properties": sorted(CHECKS),
   "kind_free_text": "hand-written bounded-exhaustive explorer: index-addressable finite spaces, every index executed on the real library in rlimited worker subprocesses, reference models in internal/ref"},
 ],
 "checks": [],
 "not_applicable": [{"property_id": p, "reason": NA.get(p, "check not built yet in this round (planned, see DESIGN.md section 5)")} for p in ALL if p not in CHECKS],
 "notes": "All checks are bounded-exhaustive explorations of the real implementation (model checking family); see DESIGN.md.",
}
for p in sorted(CHECKS):
    tech, text, note, ref = CHECKS[p]
    m["checks"].append({
     "property_id": p, "quick_cmd": f"./run.sh {p} quick", "thorough_cmd": f"./run.sh {p} thorough",
     "evidence_file": f"/verif/evidence/{p}.json", "replay_cmd_template": "./run.sh replay {path}", "engine": "vcheck",
     "level_claimed": {"category": "model_checking", "text": text, "design_ref": "DESIGN.md section " + ref},
     "level_note": note, "technique": tech})
json.dump(m, open("/verif/MANIFEST.json", "w"), indent=1)
print("MANIFEST.json:", len(m["checks"]), "checks,", len(m["not_applicable"]), "not_applicable")
