#!/usr/bin/env python3
"""mkmut.py <name> <repo-relative-path> <old> <new> [<path2> <old2> <new2> ...]
Writes /verif/mutants/<name>.patch: a unified diff (against /repo's current files)
that replaces exactly one occurrence of <old> by <new> in each named file."""
import sys, difflib, os
name = sys.argv[1]
args = sys.argv[2:]
out = []
for k in range(0, len(args), 3):
    path, old, new = args[k:k+3]
    src = open(os.path.join('/repo', path)).read()
    if src.count(old) != 1:
        sys.exit(f"{path}: pattern occurs {src.count(old)} times: {old!r}")
    dst = src.replace(old, new)
    out += list(difflib.unified_diff(src.splitlines(True), dst.splitlines(True), 'a/' + path, 'b/' + path))
open(f'/verif/mutants/{name}.patch', 'w').write(''.join(out))
print(f"wrote mutants/{name}.patch ({len(out)} lines)")
